#!/bin/bash
# Run every registered check (quick or $1 tier) on /repo's working tree; summary at the end.
tier="${1:-quick}"
cd "$(dirname "$0")"
for id in $(python3 -c "import json;print(' '.join(c['property_id'] for c in json.load(open('MANIFEST.json'))['checks']))"); do
  s=$(date +%s); out=$(./check "$id" --tier "$tier" 2>&1); rc=$?; e=$(date +%s)
  echo "$id rc=$rc $((e-s))s $(echo "$out" | grep -c '^KNOWN-FINDING') known $(echo "$out" | grep '^VIOLATION' | head -2)"
done
