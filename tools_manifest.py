#!/usr/bin/env python3
"""Regenerate MANIFEST.json from the table below (run by hand by the maintainer of /verif)."""
import json
props = [json.loads(l) for l in open('/verif/properties.jsonl')]
GEN_NOTE = ("Trusts: Coq kernel + vm_compute (the checker is evaluated on the emitted equations); stdlib axioms of Reals "
            "(sig_forall_dec, sig_not_dec) and functional_extensionality_dep; the harness step that turns FinalEquations "
            "into the Coq system (sfc_models' own EquationParser + Python ast) and reads zone/market membership from "
            "public object attributes; cut/non-zero hints are untrusted.")
CLAIMED = {
 'C16': ("Coq theorems over all retrieval/mutation histories of a heap model of GetTimeSeries/CreateCsvString (frame, value, repeatability), closed under the global context; model tied to /repo by a differential correspondence on random histories; an implementation-only oracle supplies the replay.",
         "Trusts: Coq kernel+vm_compute; the hand-written model coq/Out/Series.v, Csv.v (validated by correspondence each run); Python list/dict semantics.",
         "Coq proof by invariant over operation histories + correspondence check", "DESIGN.md section 6 C16"),
 'C19': ("Coq theorems for every set of series: header is a duplicate-free permutation in priority-then-ascending order, one row per period up to the shortest series, each cell the formatted value, text parses back to header and cells; model tied to /repo by correspondence on random holders.",
         "Trusts: Coq kernel+vm_compute; model coq/Out/Csv.v; Python % formatting of one cell is the model parameter fmt (precision of printf checked by the oracle only).",
         "Coq proof (algebraic/round-trip) + correspondence check", "DESIGN.md section 6 C19"),
 'C01': ("Soundness theorem of a verified Laurent-polynomial checker: whenever it accepts a zone's balance expression for an emitted system, the balance is zero for EVERY history satisfying that system in the current and previous period (all parameter values, exogenous paths, periods). The checker runs in the Coq kernel on the equations the implementation really emits for each generated program (topologies are covered per program: translation validation of the generator's output), and a numeric oracle on the solved series supplies replays.",
         GEN_NOTE, "Coq-verified reflexive checker (soundness proof) evaluated on emitted equations + numeric oracle", "DESIGN.md section 6 C01"),
 'C04': ("Same verified checker: clearing, demand-membership, allocation, per-supplier, issuer/holder, portfolio and default-money identities for every market of every generated program are certified for every history satisfying the emitted system; plus a direct Coq theorem that GenerateAssetWeighting's demands add up to F for every weight list. Demander/supplier sets are computed independently from the public object model.",
         GEN_NOTE, "Coq-verified reflexive checker evaluated on emitted equations + Coq proof of the portfolio identity", "DESIGN.md section 6 C04"),
 'C05': ("Kernel-evaluated decidable checks (closedness, single definition, no placeholder spelling, final rhs = local rhs under the local->full renaming) with reflection/soundness theorems, run on the system every generated program emits, with name requests embedded before main() in every embedding site; canonical naming compared with the object model.",
         GEN_NOTE, "Coq reflection of decidable checks on emitted equations + implementation-only scan", "DESIGN.md section 6 C05"),
 'C07': ("Coq theorems over ALL send/receive histories of a model of ForexTransations (valued net transactions are zero, paired flows leave the numeraire position unchanged, receiver credited amount*(sender rate/receiver rate)), tied to external.py by a correspondence on the accumulated term lists; plus the verified emitted-system checker for valued-zero / numeraire-zero / cross-rate identities on every generated multi-currency program (gifts, imports, gold), and refusal without ExternalSector tested on the implementation.",
         GEN_NOTE + " Hand-written model coq/Gen/Fx.v validated by correspondence each run.", "Coq proof by induction over operation histories + verified checker on emitted equations", "DESIGN.md section 6 C07"),
 'C08': ("Soundness theorem of the verified system-equivalence checker (accepted systems have exactly the same solution histories) evaluated in the kernel on the systems emitted by the same program under random dependency-respecting declaration orders; plus a Coq lemma for all term sequences that ledger accumulations are order-independent; both builds are also solved and compared by the oracle.",
         GEN_NOTE, "Coq-verified equivalence checker on pairs of emitted systems + proof of accumulation commutativity", "DESIGN.md section 6 C08"),
 'C03': ("Coq theorems for ALL parsed systems about a model of EquationReduction (FindExactMatches/MoveDecorative loop): termination, variables preserved as a permutation, same real solution set for the reduced block plus decoration, acyclic decoration order; model tied to equation_parser.py by an AST-level correspondence on random alias-rich blocks; oracle compares reduced and unreduced solves (exactly at k=0).",
         "Trusts: Coq kernel+vm_compute; stdlib Reals axioms + functional_extensionality_dep in the solution-set theorems; hand-written model coq/Reduce/Reduce.v validated by correspondence each run; Python ast as the reading of right-hand sides; the float iteration itself is C02's subject.",
         "Coq proof by invariant over the substitution loop + correspondence check", "DESIGN.md section 6 C03"),
 'C14': ("Coq theorems (closed under the global context) about a string-level model of EquationParser.ParseString for ALL well-formed block descriptions: every item is classified into exactly the expected list with its right-hand side text, default time variable, malformed lines reported, and trailing comments are inert for all comment texts; model tied to equation_parser.py by a correspondence on random blocks with hostile comments and spacing; end-to-end description independence of Model.main() tested by the oracle.",
         "Trusts: Coq kernel+vm_compute; hand-written model coq/Block/Classify.v validated by correspondence each run; float() acceptance of the Err_Tolerance literal is a trusted table supplied by the harness.",
         "Coq proof over block descriptions (printer/parser round trip) + correspondence check", "DESIGN.md section 6 C14"),
 'C18': ("Soundness theorem of the verified rename-equivalence checker (a history satisfies the renamed/embedded system iff its pull-back along the renaming satisfies the original) evaluated in the kernel on the systems emitted for (i) a program and its consistently renamed twin, (ii) stand-alone economies and their part of a joint multi-currency model; plus the restriction lemma and evaluation-commutes-with-renaming for all expressions; all builds are also solved and compared by the oracle.",
         GEN_NOTE, "Coq-verified rename-equivalence checker on pairs of emitted systems", "DESIGN.md section 6 C18"),
 'C09': ("Coq theorems over the reals: the book's period equations of SIM, SIMEX1 and PC determine the closed forms for all parameter values, exogenous values and stocks; the verified emitted-system checker certifies (with the parameters kept symbolic) every period equation from the equations the bundled builders emit; exit bound of the hand-coded iterative SIM; '%0.4f' formatting is exact iff the parameter has at most four decimals (known finding D09 otherwise). The oracle compares Model.GetTimeSeries with an independent evaluation of the recursion for random parameter vectors, paths and stocks.",
         GEN_NOTE, "Coq proofs (field arithmetic) + verified checker on the builders' emitted equations + closed-form oracle", "DESIGN.md section 6 C09"),
 'C15': ("Coq theorems: the (fixed) acceptance test is characterised exactly over the reals for every sign of the values; outcome and frame theorems for all series/exclusion lists of a model of CalculateInitialSteadyState (write-back, error conversion, copy semantics); next-period bound L*max(tol, tol*M, 2e-4) for L-Lipschitz one-period maps, with refutations for expansive and mixed-scale systems (known findings D15b, D15c). Model tied to equation_solver.py by bit-exact correspondence fed with the implementation's own steady-state series; oracle re-solves one more period on the implementation.",
         "Trusts: Coq kernel+vm_compute; stdlib Reals axioms in the real-valued theorems; hand-written model coq/Hist/Steady.v validated by correspondence each run; the T periods solved inside the copy are the model's input (numerical core is C02's subject); Python deepcopy/dict order.",
         "Coq proof (real arithmetic + invariant over the write-back loop) + correspondence check", "DESIGN.md section 6 C15"),
 'C17': ("Coq theorems (closed under the global context) over ALL histories of ParseString/SolveEquation/trace/horizon operations on a state-machine model of the solver object: a re-parsed solver reports exactly the new block's variables, re-solving is idempotent, results depend only on the block and configuration; the reported-names and cache part is proved, while history-independence of the computed VALUES rests on the oracle, which compares every object solved inside a long mixed history (models, solvers, logging on/off, tracing, repeated solves) bit-for-bit with the same object solved alone in a fresh interpreter, because the numerical core is a parameter of the model.",
         "Trusts: Coq kernel+vm_compute; hand-written model coq/Hist/Reuse.v validated by correspondence each run; numerical core abstracted as a deterministic function of the parser state (tested by the oracle); Logger not modelled.",
         "Coq proof by induction over operation histories + correspondence + fresh-process differential oracle", "DESIGN.md section 6 C17"),
}
def chk(pid):
    text, note, tech, ref = CLAIMED[pid]
    return {"property_id": pid, "quick_cmd": "./check %s --tier quick" % pid, "thorough_cmd": "./check %s --tier thorough" % pid,
            "evidence_file": "/verif/evidence/%s.json" % pid, "replay_cmd_template": "./check %s --replay {path}" % pid,
            "engine": "coq-model+correspondence", "level_claimed": {"category": "proof", "text": text, "design_ref": ref},
            "level_note": note, "technique": tech}
checks = [chk(p['id']) for p in props if p['id'] in CLAIMED]
na = [{"property_id": p["id"], "reason": "check under construction in this round (model and proofs being built; see DESIGN.md section 8 and section 9 log); not claimed until its check is green on the unchanged tree"}
      for p in props if p["id"] not in CLAIMED]
m = {"version": 1, "setup_cmd": "./setup.sh",
     "hooks": {"guard": "BRIANR747_SFC_MODELS_VERIF", "enable": "checks set BRIANR747_SFC_MODELS_VERIF=1 before importing /repo (no hook is currently needed: every observation point is public API)",
               "baseline_off_cmd": "cd /repo && /venv/bin/python -m pytest -ra -q -p no:cacheprovider --timeout=900 --continue-on-collection-errors",
               "source_commits": [], "add_only": True},
     "engines": [{"name": "coq-model+correspondence", "path": "/verif/check", "serves_properties": sorted(CLAIMED),
                  "kind_free_text": "hand-written Gallina models and verified checkers with Coq 8.16 proofs (coq/<Family>), tied to /repo's working tree on every run by a differential correspondence / by evaluating the verified checker on the implementation's emitted equations (harness/*.py emits cases evaluated by vm_compute) and an implementation-only oracle that produces replays"}],
     "checks": checks, "notes": "Known findings: /verif/known_findings.json (read-only at run time).", "not_applicable": na}
json.dump(m, open('/verif/MANIFEST.json', 'w'), indent=1)
print('claimed', sorted(CLAIMED))
