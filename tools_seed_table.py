#!/usr/bin/env python3
"""Print the markdown table of DESIGN.md section 10 from /verif/seeded/*/meta.json."""
import glob, json, os
rows = []
for p in sorted(glob.glob('/verif/seeded/*/meta.json')):
    m = json.load(open(p))
    name = os.path.basename(os.path.dirname(p))
    for chk, r in (m.get('checks_run') or {}).items():
        how = 'missed'
        if r.get('detected'):
            how = 'no-failing-input-found (obligation)' if r.get('no_failing_input') else 'failing input; replay fails on the change (%s), passes on HEAD (%s)' % (
                r.get('replay_on_patched_exit'), r.get('replay_on_clean_exit'))
        rows.append('| %s | %s | %s | %s | %s |' % (name, (m.get('summary') or '').replace('|', '/')[:170], (m.get('needs') or '').replace('|', '/')[:150], chk, how))
print('| seed | change | needs | check | verdict |\n|---|---|---|---|---|')
print('\n'.join(rows))
