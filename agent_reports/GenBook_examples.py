"""Exact rational solutions of one period of the bundled SIM / SIMEX1 / PC systems (book calibration), computed from
the equations the REAL builders emit; prints the tables of coq/GenBook/Examples.v (sim_now, sim_prev, ...).
    /venv/bin/python /verif/agent_reports/GenBook_examples.py > tables.v
"""
import sys, ast
from fractions import Fraction as F
sys.path.insert(0, '/verif/harness')
import common
sys.path.insert(0, common.REPO)
import gen_common as G

def rows_of(kind):
    from sfc_models.gl_book.chapter3 import SIM, SIMEX1
    from sfc_models.gl_book.chapter4 import PC
    b = {'SIM': SIM, 'SIMEX1': SIMEX1, 'PC': PC}[kind]('C')
    mod = b.build_model()
    text = G.generate_equations(mod)
    raw, parser = G.parse_final(text)
    return raw

def ev(node, env):
    if isinstance(node, ast.Expression): return ev(node.body, env)
    if isinstance(node, ast.Constant): return F(repr(node.value)) if not isinstance(node.value, int) else F(node.value)
    if isinstance(node, ast.Name): return env[node.id]
    if isinstance(node, ast.UnaryOp): return -ev(node.operand, env) if isinstance(node.op, ast.USub) else ev(node.operand, env)
    if isinstance(node, ast.BinOp):
        a, b = ev(node.left, env), ev(node.right, env)
        return {ast.Add: lambda: a + b, ast.Sub: lambda: a - b, ast.Mult: lambda: a * b, ast.Div: lambda: a / b}[type(node.op)]()
    raise ValueError(ast.dump(node))

def solve(kind, exo, prev, seed):
    raw = rows_of(kind)
    env = dict(seed)
    for v, (k, x) in raw:
        if k == 'exo': env[v] = exo[v]
        if k == 'lag': env[v] = prev[x]
    defs = [(v, x) for v, (k, x) in raw if k == 'def' and v != 't']
    for _ in range(200):
        progress = False
        for v, x in defs:
            if v in env and v not in seed: continue
            try:
                val = ev(ast.parse(x.strip(), mode='eval'), env)
            except KeyError:
                continue
            if v in seed:
                assert val == seed[v], (v, val, seed[v])
            elif v not in env:
                env[v] = val; progress = True
        if not progress: break
    for v, x in defs:
        assert env[v] == ev(ast.parse(x.strip(), mode='eval'), env), v
    names = [v for v, _ in raw if v != 't']
    assert all(n in env for n in names), [n for n in names if n not in env]
    return {n: env[n] for n in names}

def coq_q(f):
    return '(%s%d # %d)' % ('' if f >= 0 else '-', abs(f.numerator), f.denominator) if f >= 0 else '((-%d) # %d)' % (abs(f.numerator), f.denominator)

def table(name, d):
    items = ['("%s", %s)' % (k, coq_q(v)) for k, v in d.items()]
    lines, cur = [], '  ['
    for i, it in enumerate(items):
        piece = it + ('; ' if i + 1 < len(items) else '')
        if len(cur) + len(piece) > 116:
            lines.append(cur.rstrip()); cur = '   '
        cur += piece
    lines.append(cur.rstrip() + '].')
    return 'Definition %s : list (string * Q) :=\n%s\n' % (name, '\n'.join(lines))

a1, a2, th = F('0.6'), F('0.4'), F('0.2')
out = ''
# SIM: G = 20, H_1 = 15  ->  Y = 50
G_, H1 = F(20), F(15)
Y = (G_ + a2 * H1) / (1 - a1 * (1 - th))
prev = {'HH__F': H1, 'GOV__F': -H1, 'BUS__F': F(0)}
sim = solve('SIM', {'GOV__DEM_GOOD': G_}, prev, {'GOOD__SUP_GOOD': Y})
out += table('sim_now', sim) + table('sim_prev', prev) + '\n'
# SIMEX1: G = 20, H_1 = 15, YD_1 = 16
prev = {'HH__F': H1, 'GOV__F': -H1, 'BUS__F': F(0), 'HH__AfterTax': F(16)}
C = a1 * 16 + a2 * H1
simex = solve('SIMEX1', {'GOV__DEM_GOOD': G_}, prev, {'GOOD__SUP_GOOD': C + G_})
out += table('simex_now', simex) + table('simex_prev', prev) + '\n'
# PC: G = 19.52, r = 0.03, r_1 = 0.025, V_1 = 80, B_1 = 40  ->  Y = 100
G_, r, r1, V1, B1 = F('19.52'), F('0.03'), F('0.025'), F(80), F(40)
prev = {'HH__F': V1, 'TRE__F': -V1, 'CB__F': F(0), 'BUS__F': F(0), 'HH__DEM_DEP': B1, 'CB__DEM_DEP': F(40),
        'TRE__SUP_DEP': F(80), 'DEP__r': r1}
Y = (G_ + a2 * V1 + a1 * (1 - th) * r1 * B1) / (1 - a1 * (1 - th))
T = th * (Y + r1 * B1); YD = Y - T + r1 * B1; C = a1 * YD + a2 * V1; V = V1 + YD - C
seed = {'GOOD__SUP_GOOD': Y, 'HH__F': V, 'HH__AfterTax': YD}
# CB: DEM_DEP = F + SUP_MON with SUP_MON = MON__DEM_MON depending on HH DEM_MON and BUS F; fine (no cycle through seeds)
pc = solve('PC', {'TRE__DEM_GOOD': G_, 'DEP__r': r}, prev, seed)
out += table('pc_now', pc) + table('pc_prev', prev)
print(out)
