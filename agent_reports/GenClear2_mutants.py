"""Mutants of the market code (sfc_models/sector.py, sector_definitions.py) used to validate harness/gen_clear2.py.
    /venv/bin/python /verif/agent_reports/GenClear2_mutants.py [--full] [name-prefix ...]

Scratch worktree of /repo, 221-test suite (1 pre-existing failure expected), then with SFC_REPO:
  new      harness/gen_clear2_selftest.py --no-proof --seed 1
  existing harness/gen_main2_selftest.py --no-proof --seed 1   (whole-program correspondence, C01 C04 C05 C07)
  existing (with --full) ./check C04 --seed 1
Breaking mutants must be reported by the new check, harmless rewrites must stay silent.
"""
import os
import subprocess
import sys

WT = '/tmp/gc2_mutant_wt'

MUTANTS = [
    ('M1 a market aggregates the demands of every sector of the MODEL (wrong zone)', True, 'sfc_models/sector.py',
     """        term_list = []
        for s in self.CurrencyZone.GetSectors():
            if s.ID == self.ID:
                continue
            if self.ShareParent(s):""",
     """        term_list = []
        for s in self.GetModel().GetSectors():
            if s.ID == self.ID:
                continue
            if self.ShareParent(s):"""),
    ('M2 cross rate of a foreign supplier the wrong way round (arguments of _ReceiveMoney swapped)', True, 'sfc_models/sector.py',
     """                term = model.ExternalSector._ReceiveMoney(supplier, self, full_local_name)""",
     """                term = model.ExternalSector._ReceiveMoney(self, supplier, full_local_name)"""),
    ('M3 the residual supplier ignores the last AddSupplier rule (a supplier dropped from the allocation)', True, 'sfc_models/sector.py',
     """        for supplier, _ in sector_list:
            term = '-SUP_' + supplier.FullCode""",
     """        for supplier, _ in sector_list[:-1]:
            term = '-SUP_' + supplier.FullCode"""),
    ('M4 a demander in another country of the zone is summed but not charged', True, 'sfc_models/sector.py',
     """                s.AddCashFlow('-' + var_name, '', long_desc)""",
     """                if self.ShareParent(s):
                    s.AddCashFlow('-' + var_name, '', long_desc)"""),
    ('M5 the money market collects the holders of the whole model instead of its currency zone', True, 'sfc_models/sector_definitions.py',
     """        for s in self.SearchListSource.GetSectors():
            if not s.HasF:
                continue""",
     """        for s in self.GetModel().GetSectors():
            if not s.HasF:
                continue"""),
    ('M6 a foreign supplier\'s own supply variable holds the home-currency amount (cash flow still converted)', True, 'sfc_models/sector.py',
     """                supplier.AddTermToEquation(supply_name, term)
                supplier.AddCashFlow(term)""",
     """                supplier.AddTermToEquation(supply_name, full_local_name)
                supplier.AddCashFlow(term)"""),
    ('H1 _GenerateTermsLowLevel: renamed locals, conditional expression, other log text', False, 'sfc_models/sector.py',
     """            if self.ShareParent(s):
                var_name = short_name
            else:
                var_name = long_name
            try:
                term = s.GetVariableName(var_name)
            except KeyError:
                Logger('Variable {0} does not exist in {1}', priority=10,
                       data_to_format=(var_name, s.FullCode))
                continue""",
     """            var_name = short_name if self.ShareParent(s) else long_name
            if var_name not in s.EquationBlock.Equations:
                Logger('no {0} in {1}', priority=10, data_to_format=(var_name, s.FullCode))
                continue
            term = s.GetVariableName(var_name)"""),
    ('H2 _GenerateMultiSupply: membership test on the dict, other description, zone test spelled out', False, 'sfc_models/sector.py',
     """            if supply_name not in supplier.EquationBlock:
                supplier.AddVariable(supply_name, 'Supply to {0}'.format(self.FullCode), '')
            if self.IsSharedCurrencyZone(supplier):""",
     """            if not (supply_name in supplier.EquationBlock.Equations):
                supplier.AddVariable(supply_name, 'supplied to market %s' % (self.FullCode,), '')
            if supplier.CurrencyZone.ID == self.CurrencyZone.ID:"""),
]


def sh(cmd, **kw):
    return subprocess.run(cmd, shell=True, capture_output=True, text=True, **kw)


def main():
    args = sys.argv[1:]
    full = '--full' in args
    only = [a for a in args if not a.startswith('--')]
    results = []
    for name, breaking, path, old, new in MUTANTS:
        if only and not any(name.startswith(o) for o in only):
            continue
        sh('git -C /repo worktree remove --force %s' % WT)
        r = sh('git -C /repo worktree add --detach %s HEAD' % WT)
        assert r.returncode == 0, r.stderr
        f = os.path.join(WT, path)
        src = open(f).read()
        assert src.count(old) == 1, (name, src.count(old))
        open(f, 'w').write(src.replace(old, new))
        t = sh('cd %s && /venv/bin/python -m pytest -q -p no:cacheprovider --timeout=900 2>&1 | tail -1' % WT)
        tests = t.stdout.strip()
        c = sh('cd /verif && SFC_REPO=%s /venv/bin/python harness/gen_clear2_selftest.py --no-proof --seed 1 2>&1 | '
               'grep "evaluations=\\|RESULT\\|failure keys"' % WT)
        new_out = c.stdout.strip().replace('\n', ' | ')
        c2 = sh('cd /verif && SFC_REPO=%s /venv/bin/python harness/gen_main2_selftest.py --no-proof --seed 1 2>&1 | '
                'grep "evaluations=\\|RESULT"' % WT)
        old_out = c2.stdout.strip().replace('\n', ' | ')
        c04 = ''
        if full:
            c3 = sh('cd /verif && SFC_REPO=%s VERIF_EVIDENCE_DIR=/tmp/gc2_evidence ./check C04 --seed 1 2>&1 | grep "property=" | head -3' % WT)
            c04 = c3.stdout.strip().replace('\n', ' | ')
        reported = 'RESULT: FAIL' in new_out
        verdict = 'as expected' if reported == breaking else 'UNEXPECTED'
        results.append((name, tests, new_out, verdict))
        print('%s\n    tests: %s\n    gen_clear2 (new): %s\n    gen_main2 (existing): %s%s\n    -> %s' % (
            name, tests, new_out, old_out, ('\n    ./check C04 (existing): ' + c04) if full else '', verdict))
        sys.stdout.flush()
    sh('git -C /repo worktree remove --force %s' % WT)
    return 0 if all(r[3] == 'as expected' for r in results) else 1


if __name__ == '__main__':
    sys.exit(main())
