import sys, os, warnings
warnings.simplefilter('ignore')
sys.path.insert(0, os.environ.get('SFC_REPO', '/repo'))
from sfc_models.models import Model, Country
from sfc_models.sector import Market
from sfc_models.sector_definitions import ConsolidatedGovernment, Household, FixedMarginBusiness, TaxFlow
from sfc_models.utils import Logger
mod = Model()
ca = Country(mod, 'CA')
gov = ConsolidatedGovernment(ca, 'GOV')
gov.IsTaxable = True                 # <- the only unusual line: the tax recipient is itself taxable
hh = Household(ca, 'HH')
bus = FixedMarginBusiness(ca, 'BUS')
Market(ca, 'GOOD'); Market(ca, 'LAB')
TaxFlow(ca, 'TF', taxrate=.2)
mod.AddExogenous('GOV', 'DEM_GOOD', '[20.,] * 20')
mod.MaxTime = 5
mod.main()
for k in range(1, 5):
    tot = 0.
    for s in ('GOV', 'HH', 'BUS'):
        tot += mod.GetTimeSeries(s + '__F')[k] - mod.GetTimeSeries(s + '__F')[k - 1]
    print('k=%d  sum of changes in F over the zone = %.6f   (HH__T = %.6f)' % (k, tot, mod.GetTimeSeries('HH__T')[k]))
print([e for e in mod.FinalEquations.split('\n') if e.startswith('GOV__F ') or e.startswith('GOV__T ') or e.startswith('HH__F ')])
