"""Mutants of sfc_models/models.py and sector_definitions.py used to validate harness/gen_main.py.

    /venv/bin/python /verif/agent_reports/GenMain_mutants.py

For each mutant: a scratch worktree of /repo is patched, the 221-test suite is run (1 pre-existing failure
`test_main` expected), then `gen_main_selftest.py --no-proof` runs against the tree (SFC_REPO).  Breaking
mutants must be reported (RESULT: FAIL with disagreements), harmless rewrites must stay silent.
"""
import os
import subprocess
import sys

WT = '/tmp/gm_mutant_wt'

MUTANTS = [
    # (name, breaking?, file, old, new)
    ('M1 countries generated in reverse order', True, 'sfc_models/models.py',
     """        Logger('Model._GenerateEquations()', priority=1)
        for cntry in self.CountryList:""",
     """        Logger('Model._GenerateEquations()', priority=1)
        for cntry in reversed(self.CountryList):"""),
    ('M2 first country gets no country prefix', True, 'sfc_models/models.py',
     """                if add_country_code:
                    sector.FullCode = cntry.Code + '_' + sector.Code""",
     """                if add_country_code and cntry is not self.CountryList[0]:
                    sector.FullCode = cntry.Code + '_' + sector.Code"""),
    ('M3 central bank remittance registered twice', True, 'sfc_models/sector_definitions.py',
     """        self.GetModel().RegisterCashFlow(self, self.Treasury, 'INTDEP')
""",
     """        self.GetModel().RegisterCashFlow(self, self.Treasury, 'INTDEP')
        self.GetModel().RegisterCashFlow(self, self.Treasury, 'INTDEP')
"""),
    ('M4 multi-output firm: wage bill uses the profit margin', True, 'sfc_models/sector_definitions.py',
     """            self.SetEquationRightHandSide(demand_labour, '%0.3f * SUP' % (wage_share,))""",
     """            self.SetEquationRightHandSide(demand_labour, '%0.3f * SUP' % (self.ProfitMargin,))"""),
    ('M5 exogenous variables processed before the registered cash flows are booked (harmless: independent steps)', False,
     'sfc_models/models.py',
     """            self._GenerateRegisteredCashFlows()
            self._ProcessExogenous()
            self.FinalEquations = self._CreateFinalEquations()""",
     """            self._ProcessExogenous()
            self._GenerateRegisteredCashFlows()
            self.FinalEquations = self._CreateFinalEquations()"""),
    ('M6 registered flow credited to the source and debited from the target', True, 'sfc_models/models.py',
     """            source_sector.AddCashFlow('-' + full_variable_name, eqn=None,
                                      is_income=is_income_source)""",
     """            source_sector.AddCashFlow('+' + full_variable_name, eqn=None,
                                      is_income=is_income_source)"""),
    ('M7 full code prefixed with the currency instead of the country code', True, 'sfc_models/models.py',
     """                    sector.FullCode = cntry.Code + '_' + sector.Code""",
     """                    sector.FullCode = cntry.Currency + '_' + sector.Code"""),
    ('M8 central bank remittance is not income of the treasury', True, 'sfc_models/sector_definitions.py',
     """        self.GetModel().RegisterCashFlow(self, self.Treasury, 'INTDEP')
""",
     """        self.GetModel().RegisterCashFlow(self, self.Treasury, 'INTDEP', is_income_dest=False)
"""),
    ('M9 household: AlphaFin reset from the income propensity', True, 'sfc_models/sector_definitions.py',
     """        self.SetEquationRightHandSide('AlphaFin', '%0.4f' % (self.AlphaFin,))""",
     """        self.SetEquationRightHandSide('AlphaFin', '%0.4f' % (self.AlphaIncome,))"""),
    ('H1 full codes: renamed locals, flag computed per country, other log text', False, 'sfc_models/models.py',
     """        Logger('Generating FullSector codes (Model._GenerateFullSectorCodes()', priority=3)
        add_country_code = len(self.CountryList) > 1
        for cntry in self.CountryList:
            for sector in cntry.SectorList:
                if add_country_code:
                    sector.FullCode = cntry.Code + '_' + sector.Code
                else:
                    sector.FullCode = sector.Code""",
     """        Logger('full codes', priority=3)
        for land in self.CountryList:
            several = not (len(self.CountryList) <= 1)
            for sec in land.SectorList:
                sec.FullCode = ('%s_%s' % (land.Code, sec.Code)) if several else sec.Code"""),
    ('H2 firm: wage share computed after the market lookup, texts built with format()', False,
     'sfc_models/sector_definitions.py',
     """        wage_share = 1.0 - self.ProfitMargin
        Logger('Searching for Market Sector with Code {0} in parent country', priority=4,
               data_to_format=(self.OutputName,))
        try:
            market_sup_good = self.Parent.LookupSector(self.OutputName).GetVariableName('SUP_' + self.OutputName)
        except KeyError:
            raise Warning('Business {0} Cannot Find Market for {1}'.format(self.Code, self.OutputName))
        if self.ProfitMargin == 0:
            self.SetEquationRightHandSide('DEM_' + self.LabourInputName, market_sup_good)
            # self.Equations['PROF'] = ''
        else:
            self.SetEquationRightHandSide('DEM_' + self.LabourInputName,
                                          '%0.3f * %s' % (wage_share, market_sup_good))
            self.SetEquationRightHandSide('PROF', '%0.3f * %s' % (self.ProfitMargin, market_sup_good))""",
     """        try:
            mkt = self.Parent.LookupSector(self.OutputName)
            market_sup_good = mkt.GetVariableName('SUP_' + self.OutputName)
        except KeyError:
            raise Warning('no market for ' + self.OutputName)
        labour = 'DEM_' + self.LabourInputName
        if not self.ProfitMargin:
            self.SetEquationRightHandSide(labour, market_sup_good)
        else:
            wage_share = 1.0 - self.ProfitMargin
            self.SetEquationRightHandSide('PROF', '{0:0.3f}*{1}'.format(self.ProfitMargin, market_sup_good))
            self.SetEquationRightHandSide(labour, '{0:0.3f} * {1}'.format(wage_share, market_sup_good))"""),
]


def sh(cmd, **kw):
    return subprocess.run(cmd, shell=True, capture_output=True, text=True, **kw)


def main():
    only = sys.argv[1:]
    results = []
    for name, breaking, path, old, new in MUTANTS:
        if only and not any(name.startswith(o) for o in only):
            continue
        sh('git -C /repo worktree remove --force %s' % WT)
        r = sh('git -C /repo worktree add --detach %s HEAD' % WT)
        assert r.returncode == 0, r.stderr
        f = os.path.join(WT, path)
        src = open(f).read()
        assert src.count(old) == 1, (name, src.count(old))
        open(f, 'w').write(src.replace(old, new))
        t = sh('cd %s && /venv/bin/python -m pytest -q -p no:cacheprovider --timeout=900 2>&1 | tail -1' % WT)
        tests = t.stdout.strip()
        c = sh('cd /verif && SFC_REPO=%s /venv/bin/python harness/gen_main_selftest.py --no-proof --seed 1 2>&1 | '
               'grep "evaluations=\\|RESULT"' % WT)
        out = c.stdout.strip().replace('\n', ' | ')
        reported = 'RESULT: FAIL' in out
        verdict = 'as expected' if reported == breaking else 'UNEXPECTED'
        results.append((name, tests, out, verdict))
        print('%s\n    tests: %s\n    check: %s\n    -> %s' % (name, tests, out, verdict))
        sys.stdout.flush()
    sh('git -C /repo worktree remove --force %s' % WT)
    return 0 if all(r[3] == 'as expected' for r in results) else 1


if __name__ == '__main__':
    sys.exit(main())
