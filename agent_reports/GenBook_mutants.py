"""Mutants of the bundled builders / sector classes used to validate harness/gen_book.py.
    /venv/bin/python /verif/agent_reports/GenBook_mutants.py [name-prefix ...]

Scratch worktree of /repo, the 221-test suite (1 pre-existing failure expected), then
`gen_book_selftest.py --no-proof --seed 1` with SFC_REPO.  Breaking mutants must be reported (builder output != E_*),
harmless rewrites must stay silent.
"""
import os
import subprocess
import sys

WT = '/tmp/genbook_mutant_wt'

MUTANTS = [
    ('M1 SIM builder passes the propensities the wrong way round', True, 'sfc_models/gl_book/chapter3.py',
     """        hh = Household(country, 'HH', 'Household', alpha_income=.6, alpha_fin=.4)""",
     """        hh = Household(country, 'HH', 'Household', alpha_income=.4, alpha_fin=.6)"""),
    ('M2 households re-emit AlphaFin where AlphaIncome belongs', True, 'sfc_models/sector_definitions.py',
     """        self.SetEquationRightHandSide('AlphaIncome',  '%0.4f' % (self.AlphaIncome,))""",
     """        self.SetEquationRightHandSide('AlphaIncome',  '%0.4f' % (self.AlphaFin,))"""),
    ('M3 expectations variant consumes out of CURRENT disposable income', True, 'sfc_models/sector_definitions.py',
     """        self.AddVariable('EXP_AfterTax', 'Expected Aftertax income', 'LAG_AfterTax')""",
     """        self.AddVariable('EXP_AfterTax', 'Expected Aftertax income', 'AfterTax')"""),
    ('M4 deposit interest received on CURRENT instead of lagged holdings', True, 'sfc_models/sector_definitions.py',
     """                          '{0}*{1}'.format(self.GetVariableName('LAG_r'), s.GetVariableName('LAG_' + dem_name)),
                          'Interest received on ' + self.LongName)""",
     """                          '{0}*{1}'.format(self.GetVariableName('LAG_r'), s.GetVariableName(dem_name)),
                          'Interest received on ' + self.LongName)"""),
    ('M5 PC portfolio rule divides income by LAGGED wealth', True, 'sfc_models/gl_book/chapter4.py',
     """        eqn = 'L0 + L1 * {0} - L2 * (AfterTax/F)'.format(r)""",
     """        eqn = 'L0 + L1 * {0} - L2 * (AfterTax/LAG_F)'.format(r)"""),
    ('M6 SIMEX1 builder creates a plain Household', True, 'sfc_models/gl_book/chapter3.py',
     """        hh = HouseholdWithExpectations(country, 'HH', 'Household', alpha_income=.6, alpha_fin=.4)""",
     """        hh = Household(country, 'HH', 'Household', alpha_income=.6, alpha_fin=.4)"""),
    ('M7 TaxFlow emits its rate with three decimals instead of four', True, 'sfc_models/sector_definitions.py',
     """        self.SetEquationRightHandSide('TaxRate', '%0.4f' % (self.TaxRate,))""",
     """        self.SetEquationRightHandSide('TaxRate', '%0.3f' % (self.TaxRate,))"""),
    ('M8 PC builder pays the taxes to the central bank', True, 'sfc_models/gl_book/chapter4.py',
     """        tax = TaxFlow(country, 'TF', 'TaxFlow', taxrate=.2, taxes_paid_to='TRE')""",
     """        tax = TaxFlow(country, 'TF', 'TaxFlow', taxrate=.2, taxes_paid_to='CB')"""),
    ('Y1 SIM builder: renamed locals, long names changed', False, 'sfc_models/gl_book/chapter3.py',
     """        country = self.Country
        gov = ConsolidatedGovernment(country, 'GOV', 'Government')
        hh = Household(country, 'HH', 'Household', alpha_income=.6, alpha_fin=.4)
        # A literally non-profit business sector
        bus = FixedMarginBusiness(country, 'BUS', 'Business Sector')
        # Create the linkages between sectors - tax flow, markets - labour ('LAB'), goods ('GOOD')
        tax = TaxFlow(country, 'TF', 'TaxFlow', taxrate=.2)
        labour = Market(country, 'LAB', 'Labour market')
        goods = Market(country, 'GOOD', 'Goods market')
        if self.UseBookExogenous:
            # Need to set the exogenous variable - Government demand for Goods ("G" in economist symbology)
            gov.SetExogenous('DEM_GOOD', '[0.,] + [20.,] * 105')
        return self.Model

    def expected_output(self):
        \"\"\"
        Expected output for the model (using default input).
        Based on Table 3.4, page 69.""",
     """        c = self.Country
        government = ConsolidatedGovernment(c, 'GOV', 'The government')
        Household(c, 'HH', 'Households', alpha_fin=.4, alpha_income=.6)
        FixedMarginBusiness(c, 'BUS', 'Firms', profit_margin=0.0)
        TaxFlow(c, 'TF', 'Taxes', taxrate=.2, taxes_paid_to='GOV')
        Market(c, 'LAB', 'Labour')
        Market(c, 'GOOD', 'Goods')
        if self.UseBookExogenous:
            government.SetExogenous('DEM_GOOD', '[0.,] + [20.,] * 105')
        return self.Model

    def expected_output(self):
        \"\"\"
        Expected output for the model (using default input).
        Based on Table 3.4, page 69."""),
    ('Y2 PC builder: treasury attached via the constructor argument, long name changed',
     False, 'sfc_models/gl_book/chapter4.py',
     """        cb = CentralBank(country, 'CB', 'Central Bank')
        cb.Treasury = tre""",
     """        cb = CentralBank(country, 'CB', 'The Central Bank', treasury=tre)"""),
    ('Y3 PC builder: weight equation assembled differently (same text)', False, 'sfc_models/gl_book/chapter4.py',
     """        eqn = 'L0 + L1 * {0} - L2 * (AfterTax/F)'.format(r)""",
     """        eqn = 'L0 + L1 * ' + r + ' - L2 * (AfterTax/F)'"""),
]


def sh(cmd, **kw):
    return subprocess.run(cmd, shell=True, capture_output=True, text=True, **kw)


def main():
    only = sys.argv[1:]
    results = []
    for name, breaking, path, old, new in MUTANTS:
        if only and not any(name.startswith(o) for o in only):
            continue
        sh('git -C /repo worktree remove --force %s' % WT)
        r = sh('git -C /repo worktree add --detach %s HEAD' % WT)
        assert r.returncode == 0, r.stderr
        f = os.path.join(WT, path)
        src = open(f).read()
        assert src.count(old) == 1, (name, src.count(old))
        open(f, 'w').write(src.replace(old, new))
        t = sh('cd %s && /venv/bin/python -m pytest -q -p no:cacheprovider --timeout=900 2>&1 | tail -1' % WT)
        tests = t.stdout.strip()
        c = sh('cd /verif && SFC_REPO=%s /venv/bin/python harness/gen_book_selftest.py --no-proof --seed 1 2>&1 | '
               'grep "evaluations=\\|RESULT"' % WT)
        out = c.stdout.strip().replace('\n', ' | ')
        reported = 'RESULT: FAIL' in out
        verdict = 'as expected' if reported == breaking else 'UNEXPECTED'
        results.append((name, tests, out, verdict))
        print('%s\n    tests: %s\n    check: %s\n    -> %s' % (name, tests, out, verdict))
        sys.stdout.flush()
    sh('git -C /repo worktree remove --force %s' % WT)
    return 0 if all(r[3] == 'as expected' for r in results) else 1


if __name__ == '__main__':
    sys.exit(main())
