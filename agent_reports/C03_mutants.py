import sys
name = sys.argv[1]
p = '/tmp/c03_mut/sfc_models/equation_parser.py'
s = open(p).read()
def rep(old, new, cnt=1):
    global s
    assert s.count(old) >= 1, (name, old)
    s = s.replace(old, new, cnt)
SUB = """                for other in self.AllEquations:
                    self.AllEquations[other] = str(replace_token(self.AllEquations[other], var, rhs).replace(' ', ''))
                    self.Tokens[other] = list_tokens(self.AllEquations[other])
"""
if name == 'M1':   # substitute only outside lag definitions
    rep(SUB, """                lagged_names = [x[0] for x in self.Lagged]
                for other in self.AllEquations:
                    if other in lagged_names:
                        continue
                    self.AllEquations[other] = str(replace_token(self.AllEquations[other], var, rhs).replace(' ', ''))
                    self.Tokens[other] = list_tokens(self.AllEquations[other])
""")
elif name == 'M2':  # a '+'-prefixed alias is dropped instead of being kept as decoration
    rep("""                self.Decoration.append((var, old_eqn))
""", """                if not (old_eqn.startswith('+') and old_eqn[1:] in self.AllEquations):
                    self.Decoration.append((var, old_eqn))
""")
elif name == 'M3':  # MoveDecorative ignores usage inside lag definitions
    rep("""            for other_var in self.Tokens:
                if var in self.Tokens[other_var]:""", """            lagged_names = [x[0] for x in self.Lagged]
            for other_var in self.Tokens:
                if other_var in lagged_names:
                    continue
                if var in self.Tokens[other_var]:""")
elif name == 'M4':  # no loop detection
    rep("""                if var == self.CleanupRightHandSide(self.AllEquations[rhs]):
                    raise ValueError('Equality loop between ' + rhs + ' and ' + var)
""", "")
elif name == 'M5':  # substring replacement
    rep("str(replace_token(self.AllEquations[other], var, rhs).replace(' ', ''))",
        "self.AllEquations[other].replace(var, rhs).replace(' ', '')")
elif name == 'M6':  # the initial-condition test looks at the target instead of the variable
    rep("""            if var in self.InitialConditions:
                # A variable""", """            if self.CleanupRightHandSide(eqn) in self.InitialConditions:
                # A variable""")
elif name == 'M7':  # a variable's own equation does not count as a use
    rep("""            for other_var in self.Tokens:
                if var in self.Tokens[other_var]:""", """            for other_var in self.Tokens:
                if other_var == var:
                    continue
                if var in self.Tokens[other_var]:""")
elif name == 'M8':  # the substitution leaves the decorative (already moved) equations alone ... and the endogenous list is rebuilt before the loop only
    rep("""        self.RebuildEquations()

    def RebuildEquations""", """
    def RebuildEquations""")
elif name == 'M9':  # substitution direction reversed for '+'-prefixed aliases
    rep("""        if s[0] == '+':
            s = s[1:]
        return s""", """        if s[0] == '+':
            s = s[1:].strip('+')
        return s""")
elif name == 'H1':  # harmless: renamed locals, explicit key list, other message, tokens refreshed in one go
    rep("""        for var, eqn in self.Endogenous:
            if var in self.InitialConditions:""", """        pairs = list(self.Endogenous)
        for var, eqn in pairs:
            if var in self.InitialConditions.keys():""")
    rep(SUB, """                for key in list(self.AllEquations.keys()):
                    new_text = replace_token(self.AllEquations[key], var, rhs)
                    self.AllEquations[key] = str(new_text.replace(' ', ''))
                self.GenerateTokenList()
""")
    rep("'Equality loop between ' + rhs + ' and ' + var", "'Loop of equalities: %s <-> %s' % (var, rhs)")
elif name == 'H2':  # harmless: MoveDecorative as a partition over a precomputed set of used names
    a = s.index("        # Create a copy of the original list.")
    b = s.index("        return num_found")
    s = s[:a] + """        used_names = set()
        for token_list in self.Tokens.values():
            used_names.update(token_list)
        moved = [pair for pair in self.Endogenous if pair[0] not in used_names]
        self.Endogenous = [pair for pair in self.Endogenous if pair[0] in used_names]
        self.Decoration.extend(moved)
        num_found = len(moved)
""" + s[b:]
elif name == 'H3':  # harmless: CleanupRightHandSide via lstrip of at most one '+', loop restructured
    rep("""        num_moved = 1
        while num_moved > 0:
            self.FindExactMatches()
            num_moved = self.MoveDecorative()""", """        while True:
            self.FindExactMatches()
            if self.MoveDecorative() == 0:
                break""")
    rep("""        if s[0] == '+':
            s = s[1:]
        return s""", """        return s[1:] if s.startswith('+') else s""")
else:
    raise SystemExit('unknown ' + name)
open(p, 'w').write(s)
