import subprocess, sys, os, re
WT=os.environ.get("GM_WT", "/tmp/gm_wt"); F=WT+"/sfc_models/sector.py"   # git -C /repo worktree add --detach /tmp/gm_wt HEAD
orig=open('/repo/sfc_models/sector.py').read()
M={}
M['M1_own_country_only']=[("            if s.ID == self.ID:\n                continue\n            if self.ShareParent(s):\n                var_name = short_name",
                           "            if s.ID == self.ID:\n                continue\n            if not self.ShareParent(s):\n                continue\n            if self.ShareParent(s):\n                var_name = short_name")]
M['M2_wrong_sign_nonresidual']=[("                supplier.AddCashFlow('+' + supply_name)\n            else:\n                model = self.GetModel()",
                                 "                supplier.AddCashFlow(('+' if supplier is residual_sector else '-') + supply_name)\n            else:\n                model = self.GetModel()")]
M['M3_residual_forgets_one']=[("        for supplier, _ in sector_list:\n            term = '-SUP_' + supplier.FullCode",
                               "        for supplier, _ in sector_list[1:]:\n            term = '-SUP_' + supplier.FullCode")]
M['M4_fx_branch_same_zone']=[("            if self.IsSharedCurrencyZone(supplier):\n                supplier.AddTermToEquation",
                              "            if self.IsSharedCurrencyZone(supplier) and self.ShareParent(supplier):\n                supplier.AddTermToEquation")]
M['M5_short_name_everywhere']=[("            else:\n                var_name = long_name\n","            else:\n                var_name = short_name\n")]
M['M6_search_first_candidate']=[("                else:\n                    raise LogicError('More than one supplier, must set SupplyAllocation: ' + self.Code)",
                                 "                else:\n                    pass")]
M['M7_demand_reset_skipped']=[("                s.AddCashFlow('-' + var_name, '', long_desc)","                s.AddCashFlow('-' + var_name)")]
M['H1_reorder_rename']=[("                supplier.AddTermToEquation(supply_name, self.GetVariableName(local_name))\n                supplier.AddCashFlow('+' + supply_name)",
                         "                inflow = '+' + supply_name\n                supplier.AddCashFlow(inflow)\n                market_side = self.GetVariableName(local_name)\n                supplier.AddTermToEquation(supply_name, market_side)"),
                        ("        Logger('Searching for demand for market {0}', priority=3, data_to_format=(self.FullCode,))","        Logger('Looking for demanders of {0}', priority=4, data_to_format=(self.FullCode,))")]
M['H2_join_rewrite']=[("            term_list.append('+ ' + term)","            term_list.append(term)"),
                      ("        eqn = create_equation_from_terms(term_list)\n        self.SetEquationRightHandSide(short_name, eqn)","        eqn = ' + '.join(term_list)\n        self.SetEquationRightHandSide(short_name, eqn)"),
                      ("            self.AddVariable(local_name, 'Supply from {0}'.format(supplier.LongName), eqn)","            self.AddVariable(local_name, 'Supplied by {0}'.format(supplier.FullCode), eqn)")]
M['H3_residual_as_terms']=[("        sector_list.append((residual_sector, residual_equation.RHS()))","        sector_list.append((residual_sector, residual_equation.RHS().replace('-', ' - ')))")]

M['M1b_no_outflow_other_country']=[("                s.AddCashFlow('-' + var_name, '', long_desc)","                if self.ShareParent(s):\n                    s.AddCashFlow('-' + var_name, '', long_desc)")]
M['M3b_residual_first_other_only']=[("        for supplier, _ in sector_list:\n            term = '-SUP_' + supplier.FullCode","        for supplier, _ in sector_list[:1]:\n            term = '-SUP_' + supplier.FullCode")]
M['M4b_fx_branch_same_zone_if_ext']=[("            if self.IsSharedCurrencyZone(supplier):\n                supplier.AddTermToEquation","            if self.IsSharedCurrencyZone(supplier) and (self.ShareParent(supplier) or self.GetModel().ExternalSector is None):\n                supplier.AddTermToEquation")]
M['M6b_search_whole_zone']=[("        for sector in self.Parent.GetSectors():\n            if sector.ID == self.ID:","        for sector in self.CurrencyZone.GetSectors():\n            if sector.ID == self.ID:")]
M['M8_no_send_money']=[("                model.ExternalSector._SendMoney(self, full_local_name)\n","                pass\n")]

M['M1c_skip_demander_that_supplies']=[("            if s.ID == self.ID:\n                continue\n            if self.ShareParent(s):\n                var_name = short_name","            if s.ID == self.ID or s is self.ResidualSupply:\n                continue\n            if self.ShareParent(s):\n                var_name = short_name")]
M['M3c_residual_forgets_foreign_other']=[("        for supplier, _ in sector_list:\n            term = '-SUP_' + supplier.FullCode","        for supplier, _ in sector_list:\n            if not self.IsSharedCurrencyZone(supplier):\n                continue\n            term = '-SUP_' + supplier.FullCode")]
which=sys.argv[1:] or list(M)
for name in which:
    src=orig
    for a,b in M[name]:
        assert src.count(a)==1,(name,a,src.count(a))
        src=src.replace(a,b)
    open(F,'w').write(src)
    t=subprocess.run(['/venv/bin/python','-m','pytest','-q','-p','no:cacheprovider','--timeout=900'],cwd=WT,capture_output=True,text=True)
    tail=[l for l in t.stdout.splitlines() if 'passed' in l or 'failed' in l][-1:]
    env=dict(os.environ,SFC_REPO=WT)
    outs=[]
    for seed in ('0','1'):
        r=subprocess.run(['/venv/bin/python','/verif/harness/gen_market_selftest.py','--no-proof','--seed',seed],env=env,capture_output=True,text=True)
        lines=[l for l in r.stdout.splitlines() if l.startswith(('evaluations','FAILURE','RESULT','DISAGREEMENT'))]
        outs.append((seed,lines))
    print('=====',name,'| tests:',tail)
    for seed,lines in outs:
        for l in lines: print('  seed',seed,l[:230])
open(F,'w').write(orig)
