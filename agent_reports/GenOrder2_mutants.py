"""Order-dependence mutants of the MULTI-CURRENCY generator code used to validate harness/gen_order2.py.
   /venv/bin/python /verif/agent_reports/GenOrder2_mutants.py [name-prefix ...]

Scratch worktree of /repo, 221-test suite (1 pre-existing failure expected), then
`gen_order2_selftest.py --no-proof --seed 1` with SFC_REPO.  Breaking mutants must be reported, harmless
rewrites must stay silent.
"""
import os
import subprocess
import sys

WT = '/tmp/go2_mutant_wt'

GOLD_GOV_ANCHOR = """        currency_balance = ext['FX'].GetVariableName('NET_' + currency)
        # A somewhat recursive definition; has ugly convergence properties.
        # In fact, will not converge without the step adaptation used.
        # An alternative is to create a special function that is run as a final step
        # before solving.
        # It would get the final net supply, remove itself, and use that to set supply.
"""

MUTANTS = [
    ('X1 GoldStandardGovernment inlines the CURRENT right-hand side of NET_<cur> (what was booked so far) instead of naming the variable',
     True, 'sfc_models/sector_definitions.py',
     [(GOLD_GOV_ANCHOR,
       GOLD_GOV_ANCHOR + """        snapshot = ext['FX'].EquationBlock['NET_' + currency].RHS()
        if snapshot not in ('', '0.0'):
            currency_balance = '(' + snapshot + ')'
""")]),
    ('X2 a market books its imports on the FX ledger only when it was created after every other sector of its country', True,
     'sfc_models/sector.py',
     [("""                model.ExternalSector._SendMoney(self, full_local_name)
""",
       """                if all(s.ID < self.ID for s in self.Parent.SectorList if s.ID != self.ID and s.HasF):
                    model.ExternalSector._SendMoney(self, full_local_name)
""")]),
    ('X3 GoldStandardGovernment sets the k=0 condition on GOLDPURCHASES only when it was created before the tax flow of its country', True,
     'sfc_models/sector_definitions.py',
     [("""        self.AddInitialCondition(purchases, 0.0)
""",
       """        if all(s.ID > self.ID for s in self.Parent.SectorList if type(s).__name__ == 'TaxFlow'):
            self.AddInitialCondition(purchases, 0.0)
""")]),
    ('X4 a cross-currency registered flow is converted at the cross rate only if its source is not the last sector created in its country', True,
     'sfc_models/models.py',
     [("""                term = fx._ReceiveMoney(target_sector=target_sector, source_sector=source_sector,
                                        variable_name=full_variable_name)
""",
       """                term = fx._ReceiveMoney(target_sector=target_sector, source_sector=source_sector,
                                        variable_name=full_variable_name)
                if all(s.ID <= source_sector.ID for s in source_sector.Parent.SectorList):
                    term = '+' + full_variable_name
""")]),
    ('Y1 Market foreign branch: locals renamed, ExternalSector looked up once', False, 'sfc_models/sector.py',
     [("""                full_local_name = self.GetVariableName(local_name)
                model.ExternalSector._SendMoney(self, full_local_name)
                term = model.ExternalSector._ReceiveMoney(supplier, self, full_local_name)
""",
       """                ext_sector = model.ExternalSector
                alloc_full = self.GetVariableName(local_name)
                ext_sector._SendMoney(self, alloc_full)
                term = ext_sector._ReceiveMoney(supplier, self, alloc_full)
""")]),
    ('Y2 GoldStandardGovernment: description text built after the balance lookup', False, 'sfc_models/sector_definitions.py',
     [("""        desc = 'Net Purchases of Gold in TK; Forces EXT_FX_NET_TK to zero'.replace('TK', currency)
        currency_balance = ext['FX'].GetVariableName('NET_' + currency)
        # A somewhat recursive definition; has ugly convergence properties.
        # In fact, will not converge without the step adaptation used.
        # An alternative is to create a special function that is run as a final step
        # before solving.
        # It would get the final net supply, remove itself, and use that to set supply.
""",
       """        currency_balance = ext['FX'].GetVariableName('NET_' + currency)
        desc = 'Net Purchases of Gold in %s; Forces EXT_FX_NET_%s to zero' % (currency, currency)
""")]),
]


def sh(cmd, **kw):
    return subprocess.run(cmd, shell=True, capture_output=True, text=True, **kw)


def main():
    only = sys.argv[1:]
    results = []
    for name, breaking, path, edits in MUTANTS:
        if only and not any(name.startswith(o) for o in only):
            continue
        sh('git -C /repo worktree remove --force %s' % WT)
        r = sh('git -C /repo worktree add --detach %s HEAD' % WT)
        assert r.returncode == 0, r.stderr
        f = os.path.join(WT, path)
        src = open(f).read()
        for old, new in edits:
            assert src.count(old) == 1, (name, old[:60], src.count(old))
            src = src.replace(old, new)
        open(f, 'w').write(src)
        t = sh('cd %s && /venv/bin/python -m pytest -q -p no:cacheprovider --timeout=900 2>&1 | tail -1' % WT)
        tests = t.stdout.strip()
        c = sh('cd /verif && SFC_REPO=%s /venv/bin/python harness/gen_order2_selftest.py --no-proof --seed 1 2>&1 | '
               'grep "evaluations=\\|RESULT\\|obligation" | cut -c1-300' % WT)
        out = c.stdout.strip().replace('\n', ' | ')
        reported = 'RESULT: FAIL' in out
        verdict = 'as expected' if reported == breaking else 'UNEXPECTED'
        results.append((name, tests, out, verdict))
        print('%s\n    tests: %s\n    check: %s\n    -> %s' % (name, tests, out[:1500], verdict))
        sys.stdout.flush()
    sh('git -C /repo worktree remove --force %s' % WT)
    sh('git -C /repo worktree prune')
    return 0 if all(r[3] == 'as expected' for r in results) else 1


if __name__ == '__main__':
    sys.exit(main())
