"""Mutants of the naming code (sfc_models/sector_definitions.py, sector.py) used to validate harness/gen_rename.py.
    /venv/bin/python /verif/agent_reports/GenRename_mutants.py [name-prefix ...]

Scratch worktree of /repo, 221-test suite (1 pre-existing failure expected), then
`gen_rename_selftest.py --no-proof --seed 1` with SFC_REPO.  Breaking mutants must be reported, harmless
rewrites must stay silent.
"""
import os
import subprocess
import sys

WT = '/tmp/grn_mutant_wt'

MUTANTS = [
    ('N1 household: the income exclusion ignores consumption_good_name', True, 'sfc_models/sector_definitions.py',
     """        self.GetModel().AddCashFlowIncomeExclusion(self, 'DEM_' + consumption_good_name)""",
     """        self.GetModel().AddCashFlowIncomeExclusion(self, 'DEM_GOOD')"""),
    ('N2 business: the profit equation ignores labour_input_name', True, 'sfc_models/sector_definitions.py',
     """        self.AddVariable('PROF', 'Profits', 'SUP_' + output_name + ' - DEM_' + labour_input_name)""",
     """        self.AddVariable('PROF', 'Profits', 'SUP_' + output_name + ' - DEM_LAB')"""),
    ('N3 tax flow ignores taxes_paid_to', True, 'sfc_models/sector_definitions.py',
     """        self.TaxingSector = taxes_paid_to""",
     """        self.TaxingSector = 'GOV'"""),
    ('N4 household with expectations: consumption rule installed under the literal name', True, 'sfc_models/sector_definitions.py',
     """        self.SetEquationRightHandSide('DEM_' + consumption_good_name,
                                      'AlphaIncome * EXP_AfterTax + AlphaFin * LAG_F')""",
     """        self.SetEquationRightHandSide('DEM_GOOD',
                                      'AlphaIncome * EXP_AfterTax + AlphaFin * LAG_F')"""),
    ('N5 business: output variable ignores output_name', True, 'sfc_models/sector_definitions.py',
     """        self.AddVariable('SUP_' + output_name, 'Supply of goods', '')""",
     """        self.AddVariable('SUP_GOOD', 'Supply of goods', '')"""),
    ('N6 household: labour supply ignores labour_name', True, 'sfc_models/sector_definitions.py',
     """        self.AddVariable('SUP_' + labour_name, 'Supply of Labour', '0.')""",
     """        self.AddVariable('SUP_LAB', 'Supply of Labour', '0.')"""),
    ('H1 household: names built once with format()', False, 'sfc_models/sector_definitions.py',
     """        self.GetModel().AddCashFlowIncomeExclusion(self, 'DEM_' + consumption_good_name)""",
     """        demand_variable = 'DEM_{0}'.format(consumption_good_name)
        self.GetModel().AddCashFlowIncomeExclusion(self, demand_variable)"""),
    ('H2 business: renamed locals, % formatting', False, 'sfc_models/sector_definitions.py',
     """        self.AddVariable('SUP_' + output_name, 'Supply of goods', '')
        self.AddVariable('PROF', 'Profits', 'SUP_' + output_name + ' - DEM_' + labour_input_name)""",
     """        out_var, lab_var = 'SUP_%s' % output_name, 'DEM_%s' % labour_input_name
        self.AddVariable(out_var, 'Supply of goods', '')
        self.AddVariable('PROF', 'Profits', '%s - %s' % (out_var, lab_var))"""),
]


def sh(cmd, **kw):
    return subprocess.run(cmd, shell=True, capture_output=True, text=True, **kw)


def main():
    sel = sys.argv[1:]
    for name, breaking, path, old, new in MUTANTS:
        if sel and not any(name.startswith(s) for s in sel):
            continue
        sh('git -C /repo worktree remove --force %s' % WT)
        r = sh('git -C /repo worktree add --detach %s HEAD' % WT)
        if r.returncode != 0:
            print('cannot create worktree:', r.stderr)
            return 1
        try:
            f = os.path.join(WT, path)
            src = open(f).read()
            if old not in src:
                print('%s: PATTERN NOT FOUND' % name)
                continue
            open(f, 'w').write(src.replace(old, new, 1))
            t = sh('cd %s && /venv/bin/python -m pytest -q -p no:cacheprovider --timeout=900 2>&1 | tail -3' % WT)
            tests = t.stdout.strip().splitlines()[-1] if t.stdout.strip() else '?'
            s = sh('cd /verif && SFC_REPO=%s /venv/bin/python harness/gen_rename_selftest.py --no-proof --seed 1 2>&1 | '
                   'grep -E "^evaluations|^RESULT"' % WT)
            lines = s.stdout.strip().splitlines()
            verdict = lines[-1] if lines else '?'
            detail = lines[0] if lines else ''
            reported = 'FAIL' in verdict
            ok = (reported == breaking)
            print('%-75s tests: %-40s check: %s  [%s]  %s' % (name, tests, verdict, 'as expected' if ok else 'UNEXPECTED', detail))
        finally:
            sh('git -C /repo worktree remove --force %s' % WT)
    return 0


if __name__ == '__main__':
    sys.exit(main())
