"""Mutants of the cross-currency code (sfc_models/external.py, models.py, sector.py) used to validate
harness/gen_main2.py.   /venv/bin/python /verif/agent_reports/GenMain2_mutants.py [name-prefix ...]

Scratch worktree of /repo, 221-test suite (1 pre-existing failure expected), then
`gen_main2_selftest.py --no-proof --seed 1` with SFC_REPO.  Breaking mutants must be reported, harmless
rewrites must stay silent.
"""
import os
import subprocess
import sys

WT = '/tmp/gm2_mutant_wt'

MUTANTS = [
    ('X1 _ReceiveMoney books the receiving currency without the cross rate', True, 'sfc_models/external.py',
     """        self.EquationBlock['NET_' + target_currency].AddTerm('-' + target_sector_term)""",
     """        self.EquationBlock['NET_' + target_currency].AddTerm('-' + variable_name)"""),
    ('X2 _SendMoney forgets the numeraire leg', True, 'sfc_models/external.py',
     """        self.EquationBlock['NET_' + currency].AddTerm('+' + variable_name)
        self.EquationBlock['NET_NUMERAIRE'].AddTerm(
            '-' + variable_name + '*' + currency_variable_name)""",
     """        self.EquationBlock['NET_' + currency].AddTerm('+' + variable_name)"""),
    ('X3 cross rate defined the other way round', True, 'sfc_models/external.py',
     """            self.AddVariable(code, desc,  '{0}/{1}'.format(local, foreign))""",
     """            self.AddVariable(code, desc,  '{0}/{1}'.format(foreign, local))"""),
    ('X4 cross-currency registered flow skips _SendMoney', True, 'sfc_models/models.py',
     """                fx._SendMoney(source_sector, full_variable_name)
""", ""),
    ('X5 a zone created after the ExternalSector is not registered', True, 'sfc_models/models.py',
     """        if model.ExternalSector is not None:
            model.ExternalSector.RegisterCurrency(currency)""",
     """        if model.ExternalSector is not None and False:
            model.ExternalSector.RegisterCurrency(currency)"""),
    ('X6 gold purchases are not taken out of the buyer\'s financial assets', True, 'sfc_models/external.py',
     """        sector.AddCashFlow('-' + flow_variable_name, is_income=False)
""", ""),
    ('X7 foreign supplier credited the home-currency amount', True, 'sfc_models/sector.py',
     """                supplier.AddTermToEquation(supply_name, term)
                supplier.AddCashFlow(term)""",
     """                supplier.AddTermToEquation(supply_name, full_local_name)
                supplier.AddCashFlow(full_local_name)"""),
    ('X8 SetGoldPurchases forgets the initial condition of LAG_GOLD_OZ', True, 'sfc_models/external.py',
     """        sector.AddInitialCondition('LAG_GOLD_OZ', initial_stock)
""", ""),
    ('X10 gold-standard central bank does not register its remittance', True, 'sfc_models/sector_definitions.py',
     """        CentralBank._GenerateEquations(self)
        ext = self.GetModel().ExternalSector""",
     """        ext = self.GetModel().ExternalSector"""),
    ('X12 the ExternalSector does not become the default currency', True, 'sfc_models/models.py',
     """        self.DefaultCurrency = country.Currency
        czone = self._FitIntoCurrencyZone(country)""",
     """        if country.Code != 'EXT':
            self.DefaultCurrency = country.Currency
        czone = self._FitIntoCurrencyZone(country)"""),
    ('X13 gold-standard government: NETOZ booked with the local instead of the full name', True, 'sfc_models/external.py',
     """        self.AddTermToEquation('NETOZ', '{0}*{1}'.format(var_currency, full_flow_variable_name))""",
     """        self.AddTermToEquation('NETOZ', '{0}*{1}'.format(var_currency, flow_variable_name))"""),
    ('Y1 RegisterCurrency: renamed locals, one f-string-free format call per variable', False, 'sfc_models/external.py',
     """        fx = self['FX']
        fx.AddVariable('NET_' + currency, desc, '')
        fx.AddVariable('F_' + currency, 'Net Financial assets in ' + currency,
                       'LAG_F_xx + NET_xx'.replace('xx', currency))
        fx.AddVariable('LAG_F_' + currency, 'Previous period financial assets',
                       'F_{0}(k-1)'.format(currency))""",
     """        forex = self['FX']
        forex.AddVariable('NET_%s' % currency, 'net', '')
        forex.AddVariable('F_%s' % currency, 'stock', 'LAG_F_{0}+NET_{0}'.format(currency))
        forex.AddVariable('LAG_F_%s' % currency, 'lag', 'F_%s(k-1)' % currency)"""),
    ('Y2 _GenerateRegisteredCashFlows: cross-currency test computed once, branches restructured', False, 'sfc_models/models.py',
     """            if is_cross_currency:
                fx = self.ExternalSector['FX']
                fx._SendMoney(source_sector, full_variable_name)
                term = fx._ReceiveMoney(target_sector=target_sector, source_sector=source_sector,
                                        variable_name=full_variable_name)
            else:
                term = '+' + full_variable_name""",
     """            term = '+' + full_variable_name
            if is_cross_currency:
                forex = self.ExternalSector['FX']
                forex._SendMoney(source_sector, full_variable_name)
                term = forex._ReceiveMoney(target_sector, source_sector, full_variable_name)"""),
]


def sh(cmd, **kw):
    return subprocess.run(cmd, shell=True, capture_output=True, text=True, **kw)


def main():
    only = sys.argv[1:]
    results = []
    for name, breaking, path, old, new in MUTANTS:
        if only and not any(name.startswith(o) for o in only):
            continue
        sh('git -C /repo worktree remove --force %s' % WT)
        r = sh('git -C /repo worktree add --detach %s HEAD' % WT)
        assert r.returncode == 0, r.stderr
        f = os.path.join(WT, path)
        src = open(f).read()
        assert src.count(old) == 1, (name, src.count(old))
        open(f, 'w').write(src.replace(old, new))
        t = sh('cd %s && /venv/bin/python -m pytest -q -p no:cacheprovider --timeout=900 2>&1 | tail -1' % WT)
        tests = t.stdout.strip()
        c = sh('cd /verif && SFC_REPO=%s /venv/bin/python harness/gen_main2_selftest.py --no-proof --seed 1 2>&1 | '
               'grep "evaluations=\\|RESULT"' % WT)
        out = c.stdout.strip().replace('\n', ' | ')
        reported = 'RESULT: FAIL' in out
        verdict = 'as expected' if reported == breaking else 'UNEXPECTED'
        results.append((name, tests, out, verdict))
        print('%s\n    tests: %s\n    check: %s\n    -> %s' % (name, tests, out, verdict))
        sys.stdout.flush()
    sh('git -C /repo worktree remove --force %s' % WT)
    return 0 if all(r[3] == 'as expected' for r in results) else 1


if __name__ == '__main__':
    sys.exit(main())
