"""Mutants / harmless rewrites used to validate harness/gen_tax.py (see agent_reports/GenTax.md).
Before running:  git -C /repo worktree add --detach /tmp/gentax_wt HEAD
After:           git -C /repo worktree remove --force /tmp/gentax_wt
Usage: /venv/bin/python agent_reports/GenTax_mutants.py [names...]"""
import subprocess, sys, os, re
WT='/tmp/gentax_wt'
F=WT+'/sfc_models/sector_definitions.py'
orig=subprocess.run(['git','-C','/repo','show','HEAD:sfc_models/sector_definitions.py'],capture_output=True,text=True).stdout
M={}
M['M1_own_rate_ignored']=[("""                if 'TaxRate' in s.EquationBlock.Equations:
                    tax_name_used = s.GetVariableName('TaxRate')
                else:
                    tax_name_used = taxrate_name""","""                tax_name_used = taxrate_name""")]
M['M2_recipient_credited_twice']=[("""        gov.AddCashFlow('T', tax_fullname, 'Tax revenue received.')""","""        gov.AddCashFlow('T', tax_fullname, 'Tax revenue received.')
        gov.AddCashFlow('T', tax_fullname, 'Tax revenue received.')""")]
M['M3_payer_T_is_income']=[("""                s.AddCashFlow('-T', term, 'Taxes paid.', is_income=False)""","""                s.AddCashFlow('-T', term, 'Taxes paid.')""")]
M['M4_dividends_rebooked_per_payer']=[("""                if already_booked:""","""                if False and already_booked:""")]
M['M5_payer_with_own_rate_skipped']=[("""                if 'TaxRate' in s.EquationBlock.Equations:
                    tax_name_used = s.GetVariableName('TaxRate')
                else:""","""                if 'TaxRate' in s.EquationBlock.Equations:
                    continue
                else:""")]
M['M6_receiver_def_replaced']=[("""                    s.SetEquationRightHandSide('DIV', s.EquationBlock['DIV'].RHS() + ' + ' +
                                               self.GetVariableName('PROF'))""","""                    s.SetEquationRightHandSide('DIV', self.GetVariableName('PROF'))""")]
M['M7_business_can_receive']=[("""            if isinstance(s, FixedMarginBusiness):
                # Businesses pay dividends (and own a 'DIV' variable once they do); they are never
                # the recipient.
                continue
""","""            if s.ID == self.ID:
                continue
""")]
M['M8_tax_term_not_in_own_T']=[("""                terms.append(term)
                #self.AddTermToEquation""","""                if len(terms) < 2:
                    terms.append(term)
                #self.AddTermToEquation""")]
M['H1_tax_renamed_reordered']=[("""        terms = []
        # Find all sector that are taxable
        taxrate_name = self.GetVariableName('TaxRate')
        for s in self.CurrencyZone.GetSectors():
            if s.ID == self.ID:
                continue
            if s.IsTaxable:""","""        my_rate = self.GetVariableName('TaxRate')
        taxrate_name = my_rate
        terms = list()
        tax_fullname_early = self.GetVariableName('T')
        for s in list(self.CurrencyZone.GetSectors()):
            if not s.IsTaxable or s.ID == self.ID:
                continue
            if True:"""),("""                s.AddCashFlow('-T', term, 'Taxes paid.', is_income=False)
                terms.append(term)""","""                terms.append(term)
                s.AddCashFlow('-T', term, desc='Taxes paid to the government', is_income=False)"""),
("""        tax_fullname = self.GetVariableName('T')
        gov = self.CurrencyZone.LookupSector(self.TaxingSector)""","""        gov = self.CurrencyZone.LookupSector(self.TaxingSector)
        tax_fullname = tax_fullname_early""")]
M['H2_dividends_rewritten']=[("""                already_booked = any((not t.IsBlob) and t.Term == 'DIV'
                                     for t in s.EquationBlock['F'].TermList)
                if already_booked:
                    # Another business already pays dividends to this sector; the inflow is booked
                    # once, so add this business's profits to the amount received.
                    s.SetEquationRightHandSide('DIV', s.EquationBlock['DIV'].RHS() + ' + ' +
                                               self.GetVariableName('PROF'))
                else:
                    s.AddCashFlow('DIV', self.GetVariableName('PROF'), 'Dividends received', is_income=True)""","""                my_profits = self.GetVariableName('PROF')
                seen = False
                for entry in s.EquationBlock['F'].TermList:
                    if entry.IsBlob:
                        continue
                    if entry.Term == 'DIV':
                        seen = True
                if not seen:
                    s.AddCashFlow('DIV', my_profits, 'Dividend income')
                else:
                    old = s.EquationBlock['DIV'].GetRightHandSide()
                    s.SetEquationRightHandSide('DIV', '%s + %s' % (old, my_profits))""")]

M['M1b_own_rate_ignored_across_countries']=[("""                if 'TaxRate' in s.EquationBlock.Equations:
                    tax_name_used""","""                if 'TaxRate' in s.EquationBlock.Equations and s.ShareParent(self):
                    tax_name_used""")]
M['M2b_recipient_twice_other_country']=[("""        gov.AddCashFlow('T', tax_fullname, 'Tax revenue received.')""","""        gov.AddCashFlow('T', tax_fullname, 'Tax revenue received.')
        if not gov.ShareParent(self):
            gov.AddCashFlow('T', tax_fullname, 'Tax revenue received.')""")]
M['M3b_payer_T_income_when_own_rate']=[("""                s.AddCashFlow('-T', term, 'Taxes paid.', is_income=False)""","""                s.AddCashFlow('-T', term, 'Taxes paid.', is_income=(tax_name_used != taxrate_name))""")]
names = sys.argv[1:] or list(M)
for name in names:
    src=orig
    for a,b in M[name]:
        assert a in src, (name, a[:40])
        src=src.replace(a,b)
    open(F,'w').write(src)
    t=subprocess.run(['/venv/bin/python','-m','pytest','-q','-p','no:cacheprovider','--timeout=900'],cwd=WT,capture_output=True,text=True)
    tl=t.stdout.strip().splitlines()[-1]
    env=dict(os.environ); env['SFC_REPO']=WT
    r=subprocess.run(['/venv/bin/python','/verif/harness/gen_tax_selftest.py','5'],cwd='/verif',capture_output=True,text=True,env=env)
    line=[l for l in r.stdout.splitlines() if l.startswith('evaluations')]
    fails=[l for l in r.stdout.splitlines() if l.startswith('FAIL')][:2]
    rep=[l.split()[-1] for l in r.stdout.splitlines() if 'replay written to' in l][:1]
    rr=''
    if rep:
        a=subprocess.run(['/venv/bin/python','/verif/harness/gen_tax_selftest.py','--replay',rep[0]],cwd='/verif',capture_output=True,text=True,env=env)
        env2=dict(os.environ); env2['SFC_REPO']='/repo'
        b=subprocess.run(['/venv/bin/python','/verif/harness/gen_tax_selftest.py','--replay',rep[0]],cwd='/verif',capture_output=True,text=True,env=env2)
        rr='replay on mutant rc=%d, on HEAD rc=%d' % (a.returncode,b.returncode)
    print('==',name,'| tests:',tl,'| rc',r.returncode)
    print('  ',line[0] if line else r.stdout[-500:]+r.stderr[-500:])
    for f in fails: print('   ',f[:260])
    if rr: print('   ',rr)
open(F,'w').write(orig)
