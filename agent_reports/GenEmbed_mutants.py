"""Mutants of the generator code used to validate harness/gen_embed.py (C18, embedding half).
   /venv/bin/python /verif/agent_reports/GenEmbed_mutants.py [name-prefix ...]

Scratch worktree of /repo under /tmp, 221-test suite (1 pre-existing failure expected), then
`gen_embed_selftest.py --no-proof --seed 1` with SFC_REPO.  Breaking mutants must be reported, harmless
rewrites must stay silent.  The worktree is removed afterwards.
"""
import os
import subprocess
import sys

WT = '/tmp/gemb_mutant_wt'

MUTANTS = [
    ('B1 TaxFlow taxes the taxable sectors of the WHOLE MODEL instead of its currency zone', True,
     'sfc_models/sector_definitions.py',
     [("""        taxrate_name = self.GetVariableName('TaxRate')
        for s in self.CurrencyZone.GetSectors():
""",
       """        taxrate_name = self.GetVariableName('TaxRate')
        for s in self.GetModel().GetSectors():
""")]),
    ('B2 the country prefix is applied to full codes even when the model has one country', True,
     'sfc_models/models.py',
     [("""        add_country_code = len(self.CountryList) > 1
""",
       """        add_country_code = len(self.CountryList) >= 1
""")]),
    ('B3 a business looks for its dividend receiver in the whole model instead of its own country', True,
     'sfc_models/sector_definitions.py',
     [("""        for s in self.Parent.SectorList:
            if isinstance(s, FixedMarginBusiness):
""",
       """        for s in self.GetModel().GetSectors():
            if isinstance(s, FixedMarginBusiness):
""")]),
    ('B4 full codes use the code of the FIRST country for every country', True,
     'sfc_models/models.py',
     [("""                    sector.FullCode = cntry.Code + '_' + sector.Code
""",
       """                    sector.FullCode = self.CountryList[0].Code + '_' + sector.Code
""")]),
    ('H1 TaxFlow: the zone sectors are listed first, the tax flow itself filtered out up front', False,
     'sfc_models/sector_definitions.py',
     [("""        for s in self.CurrencyZone.GetSectors():
            if s.ID == self.ID:
                continue
            if s.IsTaxable:
""",
       """        zone_sectors = [x for x in self.CurrencyZone.GetSectors() if x.ID != self.ID]
        for s in zone_sectors:
            if s.IsTaxable:
""")]),
    ('H2 _GenerateFullSectorCodes: prefix computed once per country with a format string', False,
     'sfc_models/models.py',
     [("""        add_country_code = len(self.CountryList) > 1
        for cntry in self.CountryList:
            for sector in cntry.SectorList:
                if add_country_code:
                    sector.FullCode = cntry.Code + '_' + sector.Code
                else:
                    sector.FullCode = sector.Code
""",
       """        several = not (len(self.CountryList) <= 1)
        for cntry in self.CountryList:
            prefix = '{0}_'.format(cntry.Code) if several else ''
            for sector in cntry.SectorList:
                sector.FullCode = prefix + sector.Code
""")]),
]


def sh(cmd, **kw):
    return subprocess.run(cmd, shell=True, capture_output=True, text=True, **kw)


def main():
    only = sys.argv[1:]
    results = []
    for name, breaking, path, edits in MUTANTS:
        if only and not any(name.startswith(o) for o in only):
            continue
        sh('git -C /repo worktree remove --force %s' % WT)
        r = sh('git -C /repo worktree add --detach %s HEAD' % WT)
        assert r.returncode == 0, r.stderr
        f = os.path.join(WT, path)
        src = open(f).read()
        for old, new in edits:
            assert src.count(old) == 1, (name, old[:60], src.count(old))
            src = src.replace(old, new)
        open(f, 'w').write(src)
        t = sh('cd %s && /venv/bin/python -m pytest -q -p no:cacheprovider --timeout=900 2>&1 | tail -1' % WT)
        tests = t.stdout.strip()
        c = sh('cd /verif && SFC_REPO=%s /venv/bin/python harness/gen_embed_selftest.py --no-proof --seed 1 2>&1 | '
               'grep "evaluations=\\|RESULT\\|DISAGREEMENT" | cut -c1-300' % WT)
        out = c.stdout.strip().replace('\n', ' | ')
        reported = 'RESULT: FAIL' in out
        verdict = 'as expected' if reported == breaking else 'UNEXPECTED'
        results.append((name, tests, out, verdict))
        print('%s\n    tests: %s\n    check: %s\n    -> %s' % (name, tests, out[:1500], verdict))
        sys.stdout.flush()
    sh('git -C /repo worktree remove --force %s' % WT)
    sh('git -C /repo worktree prune')
    return 0 if all(r[3] == 'as expected' for r in results) else 1


if __name__ == '__main__':
    sys.exit(main())
