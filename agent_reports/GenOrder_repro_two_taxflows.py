import sys, warnings
warnings.simplefilter('ignore')
sys.path.insert(0,'/verif/harness')
import common
common.use_impl()
import gen_common as G, gen_checks as GC, c08
def prog(order):
    secs = {'HH': {'kind':'sector','id':'HH','cls':'Household','country':'c1','code':'HH','kw':{'alpha_income':0.6,'alpha_fin':0.4}},
            'GOV': {'kind':'sector','id':'GOV','cls':'ConsolidatedGovernment','country':'c1','code':'GOV','kw':{}},
            'TF': {'kind':'sector','id':'TF','cls':'TaxFlow','country':'c1','code':'TF','kw':{'taxrate':0.2,'taxes_paid_to':'GOV'}},
            'TF2': {'kind':'sector','id':'TF2','cls':'TaxFlow','country':'c1','code':'TF2','kw':{'taxrate':0.1,'taxes_paid_to':'GOV'}},
            'BUS': {'kind':'sector','id':'BUS','cls':'FixedMarginBusiness','country':'c1','code':'BUS','kw':{'profit_margin':0.0}},
            'LAB': {'kind':'sector','id':'LAB','cls':'Market','country':'c1','code':'LAB','kw':{}},
            'GOOD': {'kind':'sector','id':'GOOD','cls':'Market','country':'c1','code':'GOOD','kw':{}}}
    steps=[{'kind':'country','id':'c1','code':'CA','currency':None,'region':False}]+[secs[k] for k in order]
    steps.append({'kind':'op','op':'SetExogenous','sector':'GOV','name':'DEM_GOOD','value':'[20.0]*40'})
    return {'maxtime':5,'steps':steps,'shape':'single'}
a=prog(['GOV','HH','TF','TF2','BUS','LAB','GOOD'])
b=prog(['GOV','HH','TF2','TF','BUS','LAB','GOOD'])
print('oracle:', c08.oracle(a,b))
ts1,e1,_=GC.solve(a); ts2,e2,_=GC.solve(b)
print(e1, e2)
if ts1 and ts2:
  for v in ['HH__T','GOV__T','HH__F']:
    print(v, [round(x,3) for x in ts1[v][:4]], [round(x,3) for x in ts2[v][:4]])
