"""Order-dependence mutants of the generator code used to validate harness/gen_order.py.
   /venv/bin/python /verif/agent_reports/GenOrder_mutants.py [name-prefix ...]

Scratch worktree of /repo, 221-test suite (1 pre-existing failure expected), then
`gen_order_selftest.py --no-proof --seed 1` with SFC_REPO.  Breaking mutants must be reported, harmless
rewrites must stay silent.
"""
import os
import subprocess
import sys

WT = '/tmp/go_mutant_wt'

MUTANTS = [
    ('O1 FixedMarginBusiness creates its labour demand only inside _GenerateEquations (D08 re-introduced)', True,
     'sfc_models/sector_definitions.py',
     [("""        self.AddVariable('DEM_' + labour_input_name, 'Demand for labour', '')
""", ""),
      ("""            self.SetEquationRightHandSide('DEM_' + self.LabourInputName, market_sup_good)""",
       """            self.AddVariable('DEM_' + self.LabourInputName, 'Demand for labour', market_sup_good)"""),
      ("""            self.SetEquationRightHandSide('DEM_' + self.LabourInputName,
                                          '%0.3f * %s' % (wage_share, market_sup_good))""",
       """            self.AddVariable('DEM_' + self.LabourInputName, 'Demand for labour',
                             '%0.3f * %s' % (wage_share, market_sup_good))""")]),
    ('O2 a market only sees the demand of sectors created before it', True, 'sfc_models/sector.py',
     [("""            if s.ID == self.ID:
                continue
            if self.ShareParent(s):
                var_name = short_name""",
       """            if s.ID == self.ID:
                continue
            if self.ShareParent(s) and s.ID > self.ID:
                continue
            if self.ShareParent(s):
                var_name = short_name""")]),
    ('O3 the tax flow taxes only the sectors declared before it', True, 'sfc_models/sector_definitions.py',
     [("""            if s.IsTaxable:""", """            if s.IsTaxable and not (s.Parent is self.Parent and s.ID > self.ID):""")]),
    ('O4 the money market gives a default money demand only to sectors created before it', True, 'sfc_models/sector_definitions.py',
     [("""        for s in self.SearchListSource.GetSectors():
            if not s.HasF:
                continue""",
       """        for s in self.SearchListSource.GetSectors():
            if not s.HasF:
                continue
            if s.Parent is self.Parent and s.ID > self.ID and s.Code != self.IssuerShortCode and 'DEM_' + self.Code not in s.EquationBlock.Equations:
                continue""")]),
    ('O5 the deposit market pays interest only to holders created before it', True, 'sfc_models/sector_definitions.py',
     [("""        for s in self.SearchListSource.GetSectors():
            if isinstance(s, Market):
                continue""",
       """        for s in self.SearchListSource.GetSectors():
            if isinstance(s, Market):
                continue
            if s.Parent is self.Parent and s.ID > self.ID and s.Code != self.IssuerShortCode:
                continue""")]),
    ('H1 Market._GenerateTermsLowLevel: renamed locals, loop restructured', False, 'sfc_models/sector.py',
     [("""            if s.ID == self.ID:
                continue
            if self.ShareParent(s):
                var_name = short_name
            else:
                var_name = long_name""",
       """            if s.ID == self.ID:
                continue
            var_name = short_name if self.ShareParent(s) else long_name""")]),
    ('H2 FixedMarginBusiness: wage share computed after the market lookup', False, 'sfc_models/sector_definitions.py',
     [("""        wage_share = 1.0 - self.ProfitMargin
        Logger('Searching for Market Sector with Code {0} in parent country', priority=4,
               data_to_format=(self.OutputName,))""",
       """        Logger('Searching for Market Sector with Code {0} in parent country', priority=4,
               data_to_format=(self.OutputName,))
        wage_share = 1.0 - self.ProfitMargin""")]),
]


def sh(cmd, **kw):
    return subprocess.run(cmd, shell=True, capture_output=True, text=True, **kw)


def main():
    only = sys.argv[1:]
    results = []
    for name, breaking, path, edits in MUTANTS:
        if edits is None:
            continue
        if only and not any(name.startswith(o) for o in only):
            continue
        sh('git -C /repo worktree remove --force %s' % WT)
        r = sh('git -C /repo worktree add --detach %s HEAD' % WT)
        assert r.returncode == 0, r.stderr
        f = os.path.join(WT, path)
        src = open(f).read()
        for old, new in edits:
            assert src.count(old) == 1, (name, old[:40], src.count(old))
            src = src.replace(old, new)
        open(f, 'w').write(src)
        t = sh('cd %s && /venv/bin/python -m pytest -q -p no:cacheprovider --timeout=900 2>&1 | tail -1' % WT)
        tests = t.stdout.strip()
        c = sh('cd /verif && SFC_REPO=%s /venv/bin/python harness/gen_order_selftest.py --no-proof --seed 1 2>&1 | '
               'grep "evaluations=\\|RESULT\\|obligation" | cut -c1-300' % WT)
        out = c.stdout.strip().replace('\n', ' | ')
        reported = 'RESULT: FAIL' in out
        verdict = 'as expected' if reported == breaking else 'UNEXPECTED'
        results.append((name, tests, out, verdict))
        print('%s\n    tests: %s\n    check: %s\n    -> %s' % (name, tests, out[:1200], verdict))
        sys.stdout.flush()
    sh('git -C /repo worktree remove --force %s' % WT)
    return 0 if all(r[3] == 'as expected' for r in results) else 1


if __name__ == '__main__':
    sys.exit(main())
