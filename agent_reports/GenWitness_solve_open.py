"""Throw-away helper that produced the tables open_v0 / open_v1 / open_v2 of coq/GenWitness/OpenTables.v and dep_v0 / dep_v1 / dep_v2 /
dep_bad0 / dep_bad1 of coq/GenWitness/DepTables.v.

Run with a Python that has sympy (python3-vt):   python3-vt agent_reports/GenWitness_solve_open.py
It asks Coq for the emitted rows of p_OPEN (coq/GenMain2/Witness2.v; the family coq/GenWitness must be built), reads every
endogenous row `lhs = text` as arithmetic, fixes the exogenous values (government spending 20 / 25, EXT_XR__CA = 6/5, as in
the program's own exogenous texts) and the opening stocks, solves period 1 and period 2 EXACTLY (rationals) and prints
the Coq tables.  Not part of any check: Coq re-verifies `sat` row by row on the printed numbers.
"""
import os, re, subprocess, sys, tempfile
from fractions import Fraction as Fr
import sympy as sp

COQ = os.path.join(os.path.dirname(os.path.abspath(__file__)), '..', 'coq')
PROBE = r'''
From Coq Require Import List String Bool ZArith Arith Reals.
From SFC.Base Require Import Res Str.
From SFC.Gen Require Import Fx Zone.
From SFC.GenMain2 Require Import Program Classes Main Conflict Balance Witness Program2 Main2 Conflict2 Zones Witness2.
From SFC.GenWitness Require Import %s.
Import ListNotations.
Local Open Scope string_scope.
Eval vm_compute in (map (fun r => (r_lhs r, r_kind r)) (fs_rows (q_final %s))).
'''


def rows_from_coq(module, run):
    flags = [l.split() for l in open(os.path.join(COQ, 'GenWitness', '_CoqProject')) if l.startswith('-Q')]
    args = []
    for f in flags:
        args += ['-Q', os.path.join(COQ, 'GenWitness', f[1]), f[2]]
    with tempfile.TemporaryDirectory() as d:
        p = os.path.join(d, 'probe.v')
        open(p, 'w').write(PROBE % (module, run))
        out = subprocess.run(['coqc'] + args + [p], capture_output=True, text=True, timeout=300).stdout
    txt = re.sub(r'\s+', ' ', out.split(': list (string * kind)')[0])
    return re.findall(r'\("([A-Za-z_0-9]+)", (KDef|KLag|KExo) "([^"]*)"\)', txt)


rows, names = [], []


def solve_period(prev, exo, extra):
    syms = {n: sp.Symbol(n) for n in names}
    known, eqs = {}, []
    for n, k, t in rows:
        if k == 'KExo':
            known[n] = exo[n]
        elif k == 'KLag':
            known[n] = prev[t]
        else:
            t2 = re.sub(r'(?<![A-Za-z_0-9.])(\d+\.\d*|\.\d+|\d+)(?![A-Za-z_0-9.])', lambda m: 'R("%s")' % m.group(1), t)
            eqs.append((n, sp.sympify(t2, locals=dict(syms, R=lambda s: sp.Rational(s.rstrip('.'))))))
    sub = {syms[n]: sp.Rational(v.numerator, v.denominator) for n, v in known.items()}
    pending, changed = eqs, True
    while changed:                                   # rows whose right-hand side is already a number
        changed, rest = False, []
        for n, e in pending:
            e2 = e.subs(sub)
            if not e2.free_symbols:
                sub[syms[n]] = sp.nsimplify(e2, rational=True)
                changed = True
            else:
                rest.append((n, e))
        pending = rest
    sol = sp.solve([sp.expand(syms[n] - e.subs(sub)) for n, e in pending], [syms[n] for n, _ in pending], dict=True)
    assert len(sol) == 1, sol                        # linear once the parameters and rates are numbers
    sub.update(sol[0])
    out = {n: Fr(int(sp.Rational(sub[syms[n]]).p), int(sp.Rational(sub[syms[n]]).q)) for n in names}
    for n, e in eqs:                                 # exact re-check of every row
        val = e.subs({syms[m]: sp.Rational(out[m].numerator, out[m].denominator) for m in names})
        assert sp.Rational(val) == sp.Rational(out[n].numerator, out[n].denominator), (n, val, out[n])
    out.update(extra(out))
    return out


def extra(o):                                        # cross rates that are no rows of the system (rates_ok2 reads them)
    ca, us = o['EXT_XR__CA'], o['EXT_XR__US']
    return {'EXT_XR__US_CA': us / ca, 'EXT_XR__NUMERAIRE_CA': 1 / ca, 'EXT_XR__NUMERAIRE_US': 1 / us}


def coq_table(name, d):
    parts = ['("%s", (%s # %d))' % (k, ('(%d)' % v.numerator) if v.numerator < 0 else str(v.numerator), v.denominator)
             for k, v in d.items()]
    lines, cur = [], '  ['
    for i, p in enumerate(parts):
        piece = p + ('; ' if i < len(parts) - 1 else '].')
        if len(cur) + len(piece) > 118:
            lines.append(cur.rstrip())
            cur = '   '
        cur += piece
    lines.append(cur)
    return 'Definition %s : list (string * Q) :=\n%s\n' % (name, '\n'.join(lines))


def use(module, run):
    global rows, names
    rows = rows_from_coq(module, run)
    names = [r[0] for r in rows]
    print(run, len(rows), 'rows', file=sys.stderr)


v0 = {'CA_GOV__F': Fr(-60), 'CA_HH__F': Fr(45), 'CA_BUS__F': Fr(15), 'US_GOV__F': Fr(-70), 'US_HH__F': Fr(70),
      'US_BUS__F': Fr(0), 'EXT_FX__F_CA': Fr(0), 'EXT_FX__F_US': Fr(0), 'EXT_FX__F_NUMERAIRE': Fr(0)}
exo = {'CA_GOV__DEM_GOOD': Fr(20), 'US_GOV__DEM_GOOD': Fr(25), 'EXT_XR__CA': Fr(6, 5)}
use('OpenTables', 'R_OPEN')
v1 = solve_period(v0, exo, extra)
v2 = solve_period(v1, exo, extra)
print(coq_table('open_v0', v0))
print(coq_table('open_v1', v1))
print(coq_table('open_v2', v2))

# p_OPEN_DEP: deposit market in CA, r = 0.04, previous supply = previous demand = 20; the "bad" variant: previous supply 0
use('DepTables', 'R_DEP')
d0 = dict(v0, CA_GOV__SUP_DEP=Fr(20), CA_HH__DEM_DEP=Fr(20), CA_DEP__r=Fr(1, 25))
dexo = dict(exo, CA_DEP__r=Fr(1, 25))
d1 = solve_period(d0, dexo, extra)
d2 = solve_period(d1, dexo, extra)
b0 = dict(d0, CA_GOV__SUP_DEP=Fr(0))
b1 = solve_period(b0, dexo, extra)
for nm, t in (('dep_v0', d0), ('dep_v1', d1), ('dep_v2', d2), ('dep_bad0', b0), ('dep_bad1', b1)):
    print(coq_table(nm, t))
