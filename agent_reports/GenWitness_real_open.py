"""Cross-check (not part of any check): the REAL library model corresponding to coq/GenMain2/Witness2.v p_OPEN, built with the public
API, opening stocks of open_v0 as initial conditions, solved by Model.main(); periods 1 and 2 are compared with the exact tables
open_v1 / open_v2 of coq/GenWitness/OpenTables.v.  Run: /venv/bin/python agent_reports/GenWitness_real_open.py
(observed: 76 of 76 emitted variables agree in both periods, largest difference 9.5e-07 = solver tolerance)."""
import sys, re
sys.path.insert(0, '/repo')
from fractions import Fraction as Fr
from sfc_models.models import Model, Country
from sfc_models.external import ExternalSector
from sfc_models.sector import Market
from sfc_models.sector_definitions import ConsolidatedGovernment, Household, FixedMarginBusiness, TaxFlow
import sfc_models.utils as utils

mod = Model()
def economy(c):
    return dict(GOV=ConsolidatedGovernment(c, 'GOV'), HH=Household(c, 'HH', alpha_income=.6, alpha_fin=.4),
                BUS=FixedMarginBusiness(c, 'BUS', profit_margin=0.0), TF=TaxFlow(c, 'TF', taxrate=.2, taxes_paid_to='GOV'),
                LAB=Market(c, 'LAB'), GOOD=Market(c, 'GOOD'))
ca = Country(mod, 'CA'); A = economy(ca)
ext = ExternalSector(mod)
us = Country(mod, 'US'); U = economy(us)
A['GOV'].SetExogenous('DEM_GOOD', '[20.0]*40')
U['GOV'].SetExogenous('DEM_GOOD', '[25.0]*40')
ext['XR'].SetExogenous('CA', '[1.2]*3 + [0.9]*40')
A['HH'].AddVariable('REMIT', '', '1.5')
mod.RegisterCashFlow(A['HH'], U['HH'], 'REMIT', is_income_source=True, is_income_dest=False)
A['GOOD'].AddSupplier(U['BUS'], '0.1*DEM_GOOD')
for s, v in ((A['GOV'], -60.), (A['HH'], 45.), (A['BUS'], 15.), (U['GOV'], -70.), (U['HH'], 70.), (U['BUS'], 0.)):
    s.AddInitialCondition('F', v)
mod.MaxTime = 3
mod.EquationSolver.ParameterSolveInitialSteadyState = False
mod.main()
res = mod.EquationSolver.TimeSeries
# tables
txt = open('/verif/coq/GenWitness/OpenTables.v').read()
def table(name):
    body = txt.split('Definition %s ' % name)[1].split('].')[0]
    return {k: Fr(int(n), int(d)) for k, n, d in re.findall(r'\("(\w+)", \(\(?(-?\d+)\)? # (\d+)\)\)', body)}
worst = 0.0
for t, name in ((1, 'open_v1'), (2, 'open_v2')):
    tab = table(name)
    n = 0
    for k, q in tab.items():
        if k in res:
            d = abs(res[k][t] - float(q)); worst = max(worst, d); n += 1
            if d > 1e-4: print('MISMATCH', t, k, res[k][t], float(q))
    print(name, 'compared', n, 'variables of', len(tab))
print('largest difference', worst)
