#!/bin/bash
# MANIFEST.setup_cmd: build every Coq family from the files on disk (offline, full .vo builds).
here="$(cd "$(dirname "$0")" && pwd)"
cd "$here"
rc=0
for d in coq/*/; do
  fam="$(basename "$d")"
  ls "$d"*.v >/dev/null 2>&1 || continue
  echo "== building Coq family $fam"
  COQ_JOBS=16 coq/build.sh "$fam" > "coq/$fam/.setup.log" 2>&1 || { echo "family $fam FAILED (log: coq/$fam/.setup.log)"; tail -20 "coq/$fam/.setup.log"; rc=1; }
done
exit $rc
