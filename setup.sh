#!/bin/bash
# MANIFEST.setup_cmd: build the Coq families the registered checks use (offline, full .vo builds).
# coq/FAMILIES lists them; other directories under coq/ are work in progress and are not built here.
here="$(cd "$(dirname "$0")" && pwd)"
cd "$here"
rc=0
for fam in $(grep -v '^#' coq/FAMILIES); do
  echo "== building Coq family $fam"
  COQ_JOBS=16 coq/build.sh "$fam" > "coq/$fam/.setup.log" 2>&1 || { echo "family $fam FAILED (log: coq/$fam/.setup.log)"; tail -20 "coq/$fam/.setup.log"; rc=1; }
done
exit $rc
