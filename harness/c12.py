"""C12 — equation-building arithmetic preserves value.

Proof: coq/Eqn/PropC12.v (merge / signs / rendering read-back / join / opaque leading expression).
Correspondence: Term(s), Term(s, is_blob=True); histories Equation(lhs, desc, rhs) + AddTerm(...) with
str(eq) after every call; create_equation_from_terms on random lists (result, exception class and the
caller's list after the call) -- implementation against the model of coq/Eqn.
Oracle (implementation only): the rendered right-hand side, evaluated by Python over exact rationals
(fractions.Fraction, numeric literals converted exactly), equals the value of the leading expression
plus the running signed sum of the added terms (sign and body of every term determined by the
oracle's own reading of the spelling); the joined text evaluates to the sum of its elements and the
argument list is unchanged.
"""
import ast
import io
import json
import random
import tokenize
from fractions import Fraction

import common
from common import coq_string, coq_list, coq_Z, coq_bool

PID = 'C12'
FAMILY = 'Eqn'
PROPFILE = 'PropC12.v'
LEVEL = 'proof'
REQUIRES = ['From SFC.Base Require Import Res.', 'From SFC.Eqn Require Import Lexer Term Equation Ledger CaseDefs.']

NAMES = ['a', 'b', 'c', 'x', 'y', 'LAG_F', 'F', 'T', 'DEM_GOOD', 'x1', '_u', 'SUP_LAB', 'W']
NUMS = ['2', '0.5', '1.', '.25', '1e2', '10', '3.0', '7', '0.1', '1.5e1']
ODD_NUMS = ['0', '0.0', '01', '1_0', '0x1f', '1j', '1e', '1_', '0xg', '0b12', '0o7', '1__0', '1.e5', '0_0', '.5e1',
            '1e5j', '00', '0b1', '0o78', '1.5.2', '1..2', '0x', '1E3', '0e0', '1if']
KEYWORDS = ['if', 'None', 'else', 'not', 'in', 'lambda', 'abs']
# characters the Coq tokenizer model covers (printable ASCII without quotes and backslash)
ALPHABET = 'abcxyEe_j019.*/()[]{}+- ,<>=!%^&|~:;@#$?`'
FORMS = ['%s', '+%s', '-%s', '(%s)', '(-%s)', '-(%s)', '-(-%s)', '+(-%s)', '(+%s)', '+(+%s)', '-(+%s)', '+(%s)']
FIXED_MALFORMED = ['a+b', '--a', '1e-5', '((a))', '(a)*b', 'a*b*c', 'f(x)', 'a**b', '(a', 'a(', 'a)', '', ' ', '()',
                   '-', '(-)', '+', 'a b', '1 0', 'a//b', 'a*', '*a', 'a.b', '(a]', 'a)(', 'a#b', '#', 'a(#', 'a#(',
                   '-(a', '(a)b', 'a*(b)', '(a)(b)', '-(a)-(b)', '(a)+(b)', '(a+b)', '(-a+b)', '- - a', '+-a',
                   '-(-(-a))', '(-(a))', '((-a))', 'a*-b', 'a/-b', 'a - b', 'a=b', 'x<y', '...', 'a...b', '.', 'a..b',
                   '[a]', 'a[', '}a{', 'a*=b', 'a/=b', 'a**=b', 'a//=b', '\ta', 'a\n', ' ( a ) ', '( - a )']
WS_BLOBS = ['a if b else c', 'not a', 'a in b', 'a and b', 'a or b', 'lambda: a', 'a is b', 'not a if b else c']
LOOSE_BLOBS = ['a<b', 'a==b', 'a>=b', 'a|b', 'a&b', 'a^b', 'a<<b', 'a>>b', 'a,b', 'a!=b']


# ---------------------------------------------------------------- generation
def gen_atom(rng, names=NAMES):
    return rng.choice(names) if rng.random() < 0.75 else rng.choice(NUMS)


def gen_core(rng, names=NAMES):
    r = rng.random()
    if r < 0.6:
        return gen_atom(rng, names)
    return gen_atom(rng, names) + rng.choice(['*', '/']) + gen_atom(rng, names)


def sprinkle(rng, s, p=0.15):
    out = []
    prev = ''
    for ch in s:
        # mostly between tokens; now and then inside a name or number ('a b' is read as 'ab')
        between = not ((prev.isalnum() or prev in '_.') and (ch.isalnum() or ch in '_.'))
        if rng.random() < (p if between else p / 12):
            out.append(' ')
        out.append(ch)
        prev = ch
    if rng.random() < p:
        out.append(rng.choice([' ', '  ', '\t', '\n']))
    if rng.random() < p:
        out.insert(0, rng.choice([' ', '\t ']))
    return ''.join(out)


def gen_term_string(rng, names=NAMES, p_bad=0.15):
    r = rng.random()
    if r < 1 - p_bad:
        s = rng.choice(FORMS) % gen_core(rng, names)
        return sprinkle(rng, s) if rng.random() < 0.4 else s
    k = rng.random()
    if k < 0.35:
        return rng.choice(FIXED_MALFORMED)
    if k < 0.55:
        a = rng.choice(ODD_NUMS + KEYWORDS)
        return rng.choice(FORMS[:6]) % (a if rng.random() < 0.5 else a + rng.choice(['*', '/']) + gen_atom(rng))
    if k < 0.8:
        s = list(rng.choice(FORMS) % gen_core(rng, names))
        for _ in range(rng.randint(1, 2)):
            m = rng.random()
            pos = rng.randint(0, len(s))
            if m < 0.5:
                s.insert(pos, rng.choice(ALPHABET))
            elif s:
                del s[min(pos, len(s) - 1)]
        return ''.join(s)
    return ''.join(rng.choice(ALPHABET) for _ in range(rng.randint(1, 7)))


def gen_expr(rng, depth=0):
    """arithmetic grammar of DESIGN.md section 6"""
    r = rng.random()
    if depth >= 3 or r < 0.3:
        return gen_atom(rng)
    if r < 0.75:
        op = rng.choice(['+', '-', '*', '/', ' + ', ' - ', ' * '])
        return gen_expr(rng, depth + 1) + op + gen_expr(rng, depth + 1)
    if r < 0.85:
        return '(' + gen_expr(rng, depth + 1) + ')'
    if r < 0.92:
        return '-' + gen_expr(rng, depth + 1)
    f = rng.choice(['abs', 'max', 'min'])
    if f == 'abs':
        return 'abs(' + gen_expr(rng, depth + 1) + ')'
    return '%s(%s, %s)' % (f, gen_expr(rng, depth + 1), gen_expr(rng, depth + 1))


def gen_leading(rng):
    r = rng.random()
    if r < 0.55:
        return gen_expr(rng)
    if r < 0.75:
        return gen_core(rng)                      # spelled like a term
    if r < 0.8:
        return rng.choice(['', ' ', '0.', '0.0', '1.0', 'F(k-1)'])
    if r < 0.87:
        return rng.choice(WS_BLOBS)
    if r < 0.94:
        return rng.choice(LOOSE_BLOBS)
    return gen_term_string(rng, p_bad=1.0)


def gen_targ(rng, names, blob_ok=False):
    r = rng.random()
    if r < 0.7:
        return ['str', gen_term_string(rng, names)]
    if r < 0.95 or not blob_ok:
        c = rng.choice([None, None, 1, -1, 2, -2, 3, 0, -3, 12, -10])
        return ['obj', rng.choice(FORMS[:5]) % gen_core(rng, names), False, c]
    return ['obj', gen_leading(rng), True, None]


def gen_history(rng):
    names = rng.sample(NAMES, rng.randint(1, 4))          # few names: merges and cancellations happen
    lhs = rng.choice(['x', 'x', 'x', 'HH__F', ' y ', 'F'])
    desc = rng.choice(['', '', 'a variable', 'd # e'])
    r = rng.random()
    if r < 0.15:
        rhs = ['none']
    elif r < 0.5:
        rhs = ['str', gen_leading(rng)]
    elif r < 0.7:
        # opaque first term, as Sector.AddVariable builds it; often spelled like a later term
        src = gen_core(rng, names) if rng.random() < 0.6 else gen_leading(rng)
        rhs = ['list', [['obj', src, True, None]] + [gen_targ(rng, names) for _ in range(rng.randint(0, 2))]]
    elif r < 0.85:
        rhs = ['list', [gen_targ(rng, names, blob_ok=True) for _ in range(rng.randint(0, 4))]]
    else:
        k = rng.random()
        if k < 0.5:
            lhs = 'x = ' + gen_leading(rng)
        elif k < 0.8:
            lhs = 'x=' + gen_leading(rng) + ' # ' + rng.choice(['note', 'a=b', ''])
        else:
            lhs = rng.choice(['x # only a comment', 'x=', '=a', 'x = a = b', '#', 'x#y#z'])
        rhs = rng.choice([['none'], ['str', 'ignored']])
    ops = []
    blobtext = None
    if rhs[0] == 'str':
        blobtext = rhs[1]
    elif rhs[0] == 'list' and rhs[1] and rhs[1][0][0] == 'obj' and rhs[1][0][2]:
        blobtext = rhs[1][0][1]
    for _ in range(rng.choice([0, 1, 2, 3, 4, 6, 9])):
        prev_objs = [i for i, o in enumerate(ops) if o[0] == 'obj' and not o[2] and len(o) == 4]
        if prev_objs and rng.random() < 0.2:
            # the caller passes the very same Term object again (AddTerm must have copied it)
            k = rng.choice(prev_objs)
            ops.append(list(ops[k]) + ['same', k])
        elif blobtext is not None and rng.random() < 0.2:
            ops.append(['str', rng.choice(FORMS[:6]) % blobtext.strip()])
        else:
            ops.append(gen_targ(rng, names, blob_ok=rng.random() < 0.3))
    return {'lhs': lhs, 'desc': desc, 'rhs': rhs, 'ops': ops}


def gen_join(rng):
    n = rng.choice([0, 1, 1, 2, 3, 4, 6])
    out = []
    if rng.random() < 0.25:
        # the same element several times and with both signs, in unequal numbers (x, x, -x sums to x)
        cores = [gen_core(rng) for _ in range(rng.choice([1, 2]))]
        if rng.random() < 0.3:
            cores.append(gen_core(rng) + rng.choice(['+', ' + ']) + gen_core(rng))
        for _ in range(rng.choice([2, 3, 3, 4, 5])):
            out.append(rng.choice(['+', '-', '+', '-', '']) + rng.choice(cores))
        return {'terms': out}
    for i in range(n):
        r = rng.random()
        if r < 0.6:
            body = gen_core(rng)
        elif r < 0.85:
            body = gen_core(rng) + rng.choice(['+', '-', ' + ', ' - ']) + gen_core(rng)    # D12b shape
        elif r < 0.93:
            body = '(' + gen_expr(rng, 1) + ')'
        else:
            body = rng.choice(['', ' ', '+', '-', ' + a', 'a +', '(a', '\t'])
        sign = rng.choice(['', '', '+', '-', '+ ', '- '])
        s = sign + body
        if rng.random() < 0.25:
            s = rng.choice([' ', '  ']) + s + rng.choice(['', ' '])
        out.append(s)
    return {'terms': out}


# ---------------------------------------------------------------- implementation drivers
def make_targ(t):
    """-> (python argument, description of the Term object or None)"""
    from sfc_models.equation import Term
    if t[0] == 'str':
        return t[1], None
    try:
        obj = Term(t[1], is_blob=t[2])
    except Exception:  # noqa  -- cannot build the object: pass the string instead
        return t[1], None
    if t[3] is not None and not t[2]:
        obj.Constant = float(t[3])
    return obj, [obj.Constant, obj.Term, obj.IsBlob]


def run_term(c):
    from sfc_models.equation import Term
    try:
        t = Term(c['s'], is_blob=c['blob'])
        return ['ok', t.Constant, t.Term, t.IsBlob]
    except Exception as e:  # noqa
        return ['err', common.exc_class(e)]


def run_history(h):
    from sfc_models.equation import Equation
    res = {'targs': [], 'init': None, 'trace': [], 'rhs': []}
    if h['rhs'][0] == 'none':
        args, descr = None, None
    elif h['rhs'][0] == 'str':
        args, descr = h['rhs'][1], None
    else:
        pairs = [make_targ(t) for t in h['rhs'][1]]
        args, descr = [p[0] for p in pairs], [p[1] for p in pairs]
    res['init_objs'] = descr
    try:
        eq = Equation(h['lhs'], h['desc']) if args is None else Equation(h['lhs'], h['desc'], args)
    except Exception as e:  # noqa
        res['init'] = ['err', common.exc_class(e)]
        return res
    res['init'] = ['ok', str(eq)]
    res['rhs0'] = eq.RHS()
    res['opaque'] = [any(t.IsBlob for t in eq.TermList)]
    made = {}
    for i, t in enumerate(h['ops']):
        if len(t) > 4 and t[5] in made:
            a, d = made[t[5]]
        else:
            a, d = make_targ(t)
            if d is not None:
                made[i] = (a, list(d))
        res['targs'].append(d)
        try:
            eq.AddTerm(a)
            res['trace'].append([None, str(eq)])
        except Exception as e:  # noqa
            res['trace'].append([common.exc_class(e), str(eq)])
        res['rhs'].append(eq.RHS())
        res['opaque'].append(any(t.IsBlob for t in eq.TermList))
    return res


def run_join(c):
    from sfc_models.utils import create_equation_from_terms
    arg = list(c['terms'])
    try:
        r = ['ok', create_equation_from_terms(arg)]
    except Exception as e:  # noqa
        r = ['err', common.exc_class(e)]
    return {'res': r, 'after': arg}


# ---------------------------------------------------------------- oracle helpers
class _Lit(ast.NodeTransformer):
    def visit_Constant(self, node):
        if isinstance(node.value, (int, float)) and not isinstance(node.value, bool):
            return ast.copy_location(ast.Call(func=ast.Name(id='__FR', ctx=ast.Load()), args=[node], keywords=[]), node)
        return node


class Undefined(Exception):
    pass


def eval_frac(src, env):
    """Python's value of the expression text over exact rationals; Undefined when Python cannot
    parse or evaluate it."""
    try:
        tree = ast.parse(src.strip(), mode='eval')
        tree = ast.fix_missing_locations(_Lit().visit(tree))
        g = {'__builtins__': {}, '__FR': Fraction, 'abs': abs, 'max': max, 'min': min}
        g.update(env)
        v = eval(compile(tree, '<e>', 'eval'), g)
    except Exception as e:  # noqa
        raise Undefined(type(e).__name__)
    if isinstance(v, bool):
        v = Fraction(int(v))
    if not isinstance(v, (Fraction, int)):
        raise Undefined('non-numeric')
    return Fraction(v)


def names_of(src):
    try:
        return [n.id for n in ast.walk(ast.parse(src.strip(), mode='eval')) if isinstance(n, ast.Name)]
    except Exception:  # noqa
        import re
        return re.findall(r'[A-Za-z_][A-Za-z_0-9]*', src)


def read_sign(s):
    """The oracle's own reading of a term spelling: a sign in front of, or inside, one pair of
    enclosing parentheses.  Returns (sign, body text) -- the body keeps its spaces."""
    s = s.strip()
    sign = 1
    if s[:1] in ('+', '-'):
        sign = -1 if s[0] == '-' else 1
        s = s[1:].strip()
    if s.startswith('(') and s.endswith(')'):
        depth = 0
        closes_at_end = True
        for i, ch in enumerate(s):
            if ch == '(':
                depth += 1
            elif ch == ')':
                depth -= 1
                if depth == 0 and i != len(s) - 1:
                    closes_at_end = False
                    break
        if closes_at_end:
            s = s[1:-1].strip()
            if s[:1] in ('+', '-'):
                sign *= -1 if s[0] == '-' else 1
                s = s[1:].strip()
    return sign, s


def simple_body(body):
    """names, numbers, products/quotients of two factors -- the terms the property speaks about"""
    try:
        b = ast.parse(body.strip(), mode='eval').body
    except Exception:  # noqa
        return False

    def atom(n):
        return isinstance(n, ast.Name) or (isinstance(n, ast.Constant) and isinstance(n.value, (int, float))
                                           and not isinstance(n.value, bool))
    return atom(b) or (isinstance(b, ast.BinOp) and isinstance(b.op, (ast.Mult, ast.Div)) and atom(b.left)
                       and atom(b.right))


def toks(src):
    g = tokenize.generate_tokens(io.StringIO(src).readline)
    return [(t.type, t.string) for t in g if t.type not in (tokenize.NEWLINE, tokenize.NL, tokenize.ENDMARKER,
                                                            tokenize.INDENT, tokenize.DEDENT)]


def blob_class(src):
    """'safe' | 'whitespace-sensitive' | 'looser-than-plus' | 'not-an-expression'"""
    s = src.strip()
    if s == '':
        return 'safe'
    try:
        tree = ast.parse(s, mode='eval')
    except Exception:  # noqa
        return 'not-an-expression'
    if '#' in s:
        return 'not-an-expression'
    try:
        if toks(s) != toks(s.replace(' ', '')):
            return 'whitespace-sensitive'
    except Exception:  # noqa
        return 'whitespace-sensitive'
    try:
        t2 = ast.parse(s + '+ZZ__', mode='eval').body
        ok = isinstance(t2, ast.BinOp) and isinstance(t2.op, ast.Add) and ast.dump(t2.left) == ast.dump(tree.body)
    except Exception:  # noqa
        ok = False
    return 'safe' if ok else 'looser-than-plus'


def effective_rhs(h):
    """What the constructor is given as right-hand side after the '#' / '=' splitting of lhs."""
    lhs = h['lhs']
    if '#' in lhs:
        lhs = lhs.split('#', 1)[0].strip()
    if '=' in lhs:
        return ['str', lhs.split('=', 1)[1]]
    return h['rhs']


def make_envs(case, names, n=3):
    rng = random.Random(json.dumps(case, sort_keys=True))
    envs = []
    for _ in range(n):
        envs.append({nm: Fraction(rng.choice([-1, 1]) * rng.randint(1, 12), rng.randint(1, 7)) for nm in names})
    # a tie: every variable has the same value (distinguishes >= from >, == from != in leading expressions)
    tie = Fraction(rng.randint(1, 9), rng.randint(1, 4))
    envs.append({nm: tie for nm in names})
    return envs


def contribution(t, descr, env):
    """value an accepted AddTerm argument must contribute"""
    if descr is not None:                       # a Term object: Constant * value of its text
        const, text, isblob = descr
        if isblob:
            return eval_frac(t[1], env) if t[1].strip() != '' else Fraction(0)
        return Fraction(const) * eval_frac(text, env)
    sign, body = read_sign(t[1])
    if not simple_body(body):
        raise Undefined('not a term')
    return sign * eval_frac(body, env)


def oracle_history(h, res):
    if res['init'] is None or res['init'][0] != 'ok':
        return [], 'init-rejected'
    eff = effective_rhs(h)
    # the leading expression and every term source, to collect names
    srcs = []
    if eff[0] == 'str':
        srcs.append(eff[1])
    elif eff[0] == 'list':
        srcs += [t[1] for t in eff[1]]
    srcs += [t[1] for t in h['ops']]
    names = sorted(set(sum([names_of(s) for s in srcs], [])) - {'abs', 'max', 'min'})
    envs = make_envs(h, names)
    # classification of the opaque leading expression, if any
    lead_src, lead_kind = None, 'none'
    if eff[0] == 'str':
        lead_src = eff[1]
    elif eff[0] == 'list' and eff[1] and res['init_objs'] and res['init_objs'][0] and res['init_objs'][0][2]:
        lead_src = eff[1][0][1]
    if lead_src is not None:
        lead_kind = blob_class(lead_src)
        if lead_kind == 'not-an-expression':
            return [], 'leading-not-an-expression'
    fails = []
    for env in envs:
        try:
            # expected value of the constructor's result
            if eff[0] == 'none':
                exp = Fraction(0)
            elif eff[0] == 'str':
                exp = eval_frac(eff[1], env) if eff[1].strip() != '' else Fraction(0)
            else:
                exp = Fraction(0)
                for t, d in zip(eff[1], res['init_objs']):
                    exp += contribution(t, d, env)
        except Undefined:
            return fails, 'out-of-domain'
        steps = [(None, None, res['rhs0'], None)] + [
            (t, d, r, tr[0]) for t, d, r, tr in zip(h['ops'], res['targs'], res['rhs'], res['trace'])]
        n_added = 0
        for i, (t, d, rendered, exc) in enumerate(steps):
            if t is not None and exc is None:
                if d is not None and d[2]:
                    # an opaque Term object accepted by AddTerm (the equation was empty): it is the leading expression
                    lead_src, lead_kind = t[1], blob_class(t[1])
                    if lead_kind == 'not-an-expression':
                        return fails, 'leading-not-an-expression'
                try:
                    exp += contribution(t, d, env)
                except Undefined:
                    return fails, 'out-of-domain'
                n_added += 1
            try:
                got = eval_frac(rendered, env)
                bad = None if got == exp else 'evaluates to %s, leading expression + signed sum of added terms is %s' % (got, exp)
            except Undefined as e:
                bad = 'is not a valid expression (%s) although every piece is' % e
            if bad:
                if lead_kind == 'whitespace-sensitive':
                    key = 'blob:whitespace-sensitive'
                elif lead_kind == 'looser-than-plus' and (n_added + (len(eff[1]) - 1 if eff[0] == 'list' else 0)) > 0:
                    # D12d is about a term appended after a loosely binding leading expression
                    key = 'blob:looser-than-plus'
                elif lead_kind == 'looser-than-plus':
                    key = 'Equation:leading-expression-changed'
                elif lead_src is not None:
                    key = 'Equation.AddTerm:after-leading-expression'
                else:
                    key = 'Equation.AddTerm:value'
                fails.append({'key': key,
                              'what': 'Equation(%r, rhs=%r) after %d AddTerm calls %r renders %r which %s (env %s)' % (
                                  h['lhs'], h['rhs'], i, h['ops'][:i], rendered, bad,
                                  {k: str(v) for k, v in env.items()}),
                              'replay': {'kind': 'history', 'case': h}})
                return fails, 'checked'
    return fails, 'checked'


def oracle_combine(h, res):
    """like terms combine, cancelling terms vanish, an empty sum renders as zero: in an equation without
    opaque leading expression the rendering has exactly one signed chunk per distinct term body whose
    net coefficient is not zero ('0.0' when there is none)."""
    import re
    eff = effective_rhs(h)
    net = {}

    def book(t, d):
        if d is not None:
            if d[2]:
                return False
            net[d[1]] = net.get(d[1], 0) + Fraction(d[0])
            return True
        sign, body = read_sign(t[1])
        if not simple_body(body):
            return False
        net[body.replace(' ', '')] = net.get(body.replace(' ', ''), 0) + sign
        return True

    if eff[0] == 'str':
        if eff[1].strip() != '' and not book(['str', eff[1]], None):
            return []
    elif eff[0] == 'list':
        for t, d in zip(eff[1], res['init_objs']):
            if not book(t, d):
                return []
    steps = [(None, None, res['rhs0'], None, res['opaque'][0])] + [
        (t, d, r, tr[0], op) for t, d, r, tr, op in zip(h['ops'], res['targs'], res['rhs'], res['trace'], res['opaque'][1:])]
    for i, (t, d, rendered, exc, opaque) in enumerate(steps):
        if opaque:
            return []
        if t is not None and exc is None and not book(t, d):
            return []
        want = sum(1 for v in net.values() if v != 0)
        got = 0 if rendered == '0.0' and want == 0 else len(re.findall(r'[^+-]+', rendered))
        if got != want:
            return [{'key': 'Equation.AddTerm:like-terms-not-combined',
                     'what': 'Equation(%r, rhs=%r) after AddTerm calls %r renders %r: %d signed chunks for %d distinct term '
                             'bodies with non-zero net coefficient %r' % (h['lhs'], h['rhs'], h['ops'][:i],
                                                                          rendered, got, want, {k: str(v) for k, v in net.items()}),
                     'replay': {'kind': 'history', 'case': h}}]
    return []


def oracle_term(c, res):
    """a sign in front of or inside one pair of enclosing parentheses is honoured"""
    if res[0] != 'ok' or c['blob']:
        return []
    sign, body = read_sign(c['s'])
    if not simple_body(body):
        return []
    names = sorted(set(names_of(body)))
    for env in make_envs(c, names, 2):
        try:
            exp = sign * eval_frac(body, env)
        except Undefined:
            return []
        try:
            got = Fraction(res[1]) * eval_frac(res[2], env)
            bad = got != exp
        except Undefined:
            bad = True
        if bad:
            return [{'key': 'Term:sign', 'what': 'Term(%r) has Constant %r and text %r; the spelling means %+d * (%s)' % (
                c['s'], res[1], res[2], sign, body), 'replay': {'kind': 'term', 'case': c}}]
    return []


def oracle_join(c, res):
    fails = []
    if res['res'][0] != 'ok':
        return fails, 'rejected'
    names = sorted(set(sum([names_of(read_sign(s)[1]) for s in c['terms']], [])) - {'abs', 'max', 'min'})
    status = 'checked'
    for env in make_envs(c, names, 2):
        try:
            exp = Fraction(0)
            for s in c['terms']:
                if blob_class(s) != 'safe':
                    raise Undefined('element is not a signed term')
                exp += eval_frac(s, env)
        except Undefined:
            return fails, 'out-of-domain'
        try:
            got = eval_frac(res['res'][1], env) if c['terms'] else Fraction(0)
            bad = None if got == exp else 'evaluates to %s, the elements sum to %s' % (got, exp)
        except Undefined as e:
            bad = 'is not a valid expression (%s)' % e
        if bad:
            fails.append({'key': 'create_equation_from_terms:value',
                          'what': 'create_equation_from_terms(%r) = %r which %s' % (c['terms'], res['res'][1], bad),
                          'replay': {'kind': 'join', 'case': c}})
            break
    if res['after'] != c['terms']:
        fails.append({'key': 'create_equation_from_terms:argument-changed',
                      'what': 'create_equation_from_terms(%r) left its argument as %r' % (c['terms'], res['after']),
                      'replay': {'kind': 'join', 'case': c}})
    return fails, status


# ---------------------------------------------------------------- Coq emission
def emit_term_obj(d):
    return '(mkTerm %s %s %s)' % (coq_Z(int(d[0])), coq_string(d[1]), coq_bool(d[2]))


def emit_targ(t, d):
    if d is None:
        return '(TStr %s)' % coq_string(t[1])
    return '(TObj %s)' % emit_term_obj(d)


def emit_res_string(r):
    return '(Ok %s)' % coq_string(r[1]) if r[0] == 'ok' else '(Err %s)' % r[1]


def emit_term(c, res):
    exp = '(Ok %s)' % emit_term_obj(res[1:]) if res[0] == 'ok' else '(Err %s)' % res[1]
    return 'c12_term_case %s %s %s' % (coq_string(c['s']), coq_bool(c['blob']), exp)


def emit_history(h, res):
    if h['rhs'][0] == 'none':
        rhs = '(RList [])'
    elif h['rhs'][0] == 'str':
        rhs = '(RStr %s)' % coq_string(h['rhs'][1])
    else:
        rhs = '(RList %s)' % coq_list([emit_targ(t, d) for t, d in zip(h['rhs'][1], res['init_objs'])])
    args = coq_list([emit_targ(t, d) for t, d in zip(h['ops'], res['targs'])])
    trace = coq_list(['(%s, %s)' % ('None' if e is None else 'Some ' + e, coq_string(s)) for e, s in res['trace']])
    return 'c12_hist_case %s %s %s %s %s %s' % (coq_string(h['lhs']), coq_string(h['desc']), rhs, args,
                                                emit_res_string(res['init']), trace)


def emit_join(c, res):
    return 'c12_join_case %s %s %s' % (coq_list([coq_string(s) for s in c['terms']]), emit_res_string(res['res']),
                                       coq_list([coq_string(s) for s in res['after']]))


def integral(d):
    return d is None or float(d[0]).is_integer()


# ---------------------------------------------------------------- entry points
def corpus_cases():
    import glob
    import os
    out = []
    for p in sorted(glob.glob(os.path.join(common.VERIF, 'corpus', PID, '*.json'))):
        out.append(json.load(open(p))['replay'])
    return out


FIXED_CASES = [
    {'kind': 'history', 'case': {'lhs': 'x', 'desc': '', 'rhs': ['list', [['obj', 'c', True, None]]],
                                 'ops': [['str', 'c'], ['str', '-c'], ['str', '-c']]}},
    {'kind': 'history', 'case': {'lhs': 'x', 'desc': '', 'rhs': ['str', 'a if b else c'], 'ops': [['str', 'd']]}},
    {'kind': 'history', 'case': {'lhs': 'x', 'desc': '', 'rhs': ['str', 'a<b'], 'ops': [['str', 'c']]}},
    {'kind': 'history', 'case': {'lhs': 'x', 'desc': 'Variable x', 'rhs': ['str', 'y+2.'], 'ops': []}},
    {'kind': 'history', 'case': {'lhs': 'e = m*c^2 # Einsteins thingy', 'desc': '', 'rhs': ['none'], 'ops': []}},
    {'kind': 'join', 'case': {'terms': ['a+b', 'c']}},
    {'kind': 'join', 'case': {'terms': ['-x', 'y', '-z']}},
    {'kind': 'join', 'case': {'terms': ['x', 'y']}},
]


def run_item(it):
    """-> (coq case or None, failures, status, nontrivial)"""
    if it['kind'] == 'term':
        c = it['case']
        res = run_term(c)
        return emit_term(c, res), oracle_term(c, res), ('accepted' if res[0] == 'ok' else res[1]), \
            (res[0] == 'ok' and not c['blob'] and c['s'].strip()[:1] in '+-(')
    if it['kind'] == 'history':
        h = it['case']
        res = run_history(h)
        fails, status = oracle_history(h, res)
        if res['init'] is not None and res['init'][0] == 'ok':
            fails = fails + oracle_combine(h, res)
        n_ok = sum(1 for e, _ in res['trace'] if e is None)
        texts = [r for r in res['rhs']]
        merged = n_ok >= 2 and len(set(texts)) >= 2
        return emit_history(h, res), fails, status, (status == 'checked' and merged)
    c = it['case']
    res = run_join(c)
    fails, status = oracle_join(c, res)
    return emit_join(c, res), fails, status, (status == 'checked' and len(c['terms']) >= 2)


def run(ctx):
    out = common.Outcome()
    out.proof = common.proof_status(FAMILY, PROPFILE)
    rng = ctx.rng
    n_term, n_hist, n_join = ctx.scale(2500, 20000), ctx.scale(2500, 30000), ctx.scale(1000, 8000)
    items = list(FIXED_CASES) + corpus_cases()
    for s in FIXED_MALFORMED + ODD_NUMS + [f % 'a*b' for f in FORMS]:
        items.append({'kind': 'term', 'case': {'s': s, 'blob': False}})
    items += [{'kind': 'term', 'case': {'s': gen_term_string(rng, p_bad=0.5) if rng.random() < 0.85 else gen_leading(rng),
                                        'blob': rng.random() < 0.12}} for _ in range(n_term)]
    items += [{'kind': 'history', 'case': gen_history(rng)} for _ in range(n_hist)]
    items += [{'kind': 'join', 'case': gen_join(rng)} for _ in range(n_join)]
    cases, metas, seen = [], [], set()
    stats = {}
    for it in items:
        case, fails, status, nontrivial = run_item(it)
        out.failures.extend(fails)
        cases.append(case)
        metas.append(it)
        k = it['kind'] + ':' + str(status)
        stats[k] = stats.get(k, 0) + 1
        key = json.dumps(it, sort_keys=True)
        if nontrivial:
            seen.add(key)
    bad, errs = common.run_bool_cases(FAMILY, REQUIRES, cases, tag=PID)
    out.corr_errors = errs
    for i in bad[:20]:
        out.disagreements.append({'input': metas[i], 'case': cases[i][:700]})
    out.evaluations = len(cases)
    out.nontrivial = len(seen)
    out.rule = ('(1) Term(s): sign/bracket spellings of names, numbers, a*b, a/b with sprinkled spaces, plus a malformed '
                'stream (fixed list, odd number literals, keywords, one/two character edits, random strings over the '
                'modelled alphabet); (2) histories Equation(lhs, desc, rhs) with rhs absent / a leading expression drawn '
                'from the arithmetic grammar (also spelled like a later term, keyword or comparison expressions, empty) / a '
                'list of strings and Term objects (opaque first term as Sector.AddVariable builds it) / given through '
                '"lhs = rhs # desc", followed by 0-9 AddTerm calls over 1-4 names (strings, Term objects with integer '
                'Constant, blobs); (3) create_equation_from_terms on lists of 0-6 signed elements (products, sums, '
                'bracketed expressions, empty/blank elements). non-trivial = accepted signed/bracketed term; history '
                'inside the oracle domain with >=2 accepted additions that changed the rendering; join of >=2 elements '
                'inside the oracle domain; distinct by full input')
    out.samples = [metas[len(FIXED_CASES) + 5], metas[len(metas) // 2], metas[-1]]
    out.extra = {'input_distribution': stats, 'source_hashes': common.source_hashes(
        ['sfc_models/equation.py', 'sfc_models/utils.py'])}
    out.trusted_base = ['Coq 8.16.1 kernel + vm_compute',
                        'hand-written model coq/Eqn/Lexer.v, Term.v, Equation.v (tied by this correspondence)',
                        'Reals axioms of the standard library in the value theorems (ClassicalDedekindReals.sig_forall_dec, '
                        'FunctionalExtensionality.functional_extensionality_dep) as printed by Print Assumptions; the other theorems are closed',
                        "Python's own tokenize/ast/eval as the meaning of rendered text (oracle)",
                        'str(float(c)) of an integer-valued coefficient is its decimal digits followed by .0 (|c| < 1e16)']
    out.assumptions = ['coefficients are integer-valued floats (sums of +-1.0, or integer Constants set on Term objects)',
                       'term strings are over printable ASCII without quotes/backslash (the tokenizer model covers '
                       'names, number literals, operators, brackets, comments)',
                       'value theorems treat an opaque leading expression as an atom; leading expressions that are '
                       'whitespace-sensitive or bind looser than + are recorded findings D12c/D12d',
                       'rendered text -> value is Python eval over exact rationals (float literals converted exactly)']
    return out


def replay(path):
    obj = json.load(open(path))
    r = obj.get('replay') or {}
    if r.get('kind') not in ('term', 'history', 'join'):
        print('replay names a proof/correspondence obligation, nothing to execute:', json.dumps(obj)[:500])
        return 1
    _, fails, status, _ = run_item(r)
    for f in fails:
        print('FAILS:', f['key'], f['what'][:400])
    print('replay: %s (%s)' % ('property violated' if fails else 'property holds on this input', status))
    return common.replay_status(PID, fails)
