"""C15 — an accepted initial steady state really is steady.

Proof: coq/Hist/PropC15.v (acceptance test characterised over the reals for every sign; outcome,
frame and write-back theorems about the search for any numerical core; one-further-period bound for
L-Lipschitz one-period maps; refutations for the code before fix D15a and for expansive systems).
Correspondence: random 1-4 variable systems (stable / unstable / drifting / oscillating / decaying /
expansive / simultaneous / non-linear / malformed) run through
EquationSolver.CalculateInitialSteadyState (directly, or through SolveEquation with
ParameterSolveInitialSteadyState); the model `search`, fed with the implementation's own
TimeSeriesInitialSteadyState (the copy's series), must give the same outcome class and the same
TimeSeries afterwards, bit for bit; the copy's exogenous rows and time axis must equal the model's
`prepare_copy`.
Oracle (implementation only): after an accepted search, one more period is solved from the installed
k=0 row with exogenous inputs frozen (same settings as the search's own copy) and every non-excluded
variable is compared with its installed value under the tolerance rule; parser lists, exogenous
series, horizon and every point other than k=0 are compared before/after the call.
"""
import copy
import json
import math
import os

import common
from common import coq_string, coq_list, coq_float, coq_nat, coq_option

PID = 'C15'
FAMILY = 'Hist'
PROPFILE = 'PropC15.v'
LEVEL = 'proof'
REQUIRES = ['From SFC.Base Require Import Res.', 'From SFC.Hist Require Import Steady CaseDefs.']
NEAR = 1e-4
# development switch: compare with the model of the code BEFORE fix D15a (to validate accept_orig on a pre-fix tree)
CASEFN = 'c15_case_orig' if os.environ.get('VERIF_ORIG_MODEL') else 'c15_case'
TOLS = [1e-2, 1e-3, 1e-4, 1e-4, 1e-5, 1e-6, 3e-4]
MAGS = [0.5, 1.0, 7.3, 100.0, 1e4]


# ---------------------------------------------------------------- generation
def _r(x, n=4):
    return float(round(x, n))


def _term(c, name):
    return '%r*%s' % (c, name)


def _join(terms, const):
    s = ' + '.join(terms) if terms else ''
    if const is not None:
        s = (s + ' + ' if s else '') + repr(const)
    return s.replace('+ -', '- ')


def _matrix(rng, n, lo, hi, diag_bias=0.5):
    """n x n matrix with absolute row sums in [lo, hi]."""
    A = []
    for i in range(n):
        rho = rng.uniform(lo, hi)
        w = [rng.random() * (1.0 if j != i else 1.0 + 4 * diag_bias) for j in range(n)]
        if n > 1 and rng.random() < 0.3:
            w[rng.randrange(n)] = 0.0
        tot = sum(w) or 1.0
        row = [_r(rho * x / tot * rng.choice([1, 1, 1, -1])) for x in w]
        A.append(row)
    return A


def _lin_block(rng, kind, A, xstar, x0, extra):  # noqa (kind kept for readability of call sites)
    """Text of x = A*LAG_x + b with fixed point xstar (b computed), optional exogenous input,
    decoration and excluded trend variable.  Returns (lines, L, excluded_extra)."""
    n = len(A)
    names = ['x%d' % (i + 1) for i in range(n)]
    lines = []
    g0 = None
    ecoef = [0.0] * n
    if extra.get('exo'):
        g0 = extra['exo'][0]
        ecoef = [_r(rng.uniform(-1, 1), 3) if rng.random() < 0.6 else 0.0 for _ in range(n)]
    for i in range(n):
        b = xstar[i] - sum(A[i][j] * xstar[j] for j in range(n)) - (ecoef[i] * g0 if g0 is not None else 0.0)
        b = _r(b, 6)
        terms = [_term(A[i][j], 'LAG_' + names[j]) for j in range(n) if A[i][j] != 0.0]
        if g0 is not None and ecoef[i] != 0.0:
            terms.append(_term(ecoef[i], 'g'))
        lines.append('%s = %s' % (names[i], _join(terms, b) or '0.0'))
    for nm in names:
        lines.append('LAG_%s = %s(k-1)' % (nm, nm))
    rows = [sum(abs(a) for a in A[i]) for i in range(n)]
    L = max([1.0] + rows)
    excluded = []
    if extra.get('deco'):
        if n >= 2 and xstar[0] * xstar[1] > 0:
            lines.append('d = 0.5*x1 + 0.5*x2')
            L = max(L, 0.5 * rows[0] + 0.5 * rows[1])
        else:
            lines.append('d = 0.5*x1')
            L = max(L, 0.5 * rows[0])
    if extra.get('trend'):
        lines.append('tr = LAG_tr + 1')
        lines.append('LAG_tr = tr(k-1)')
        excluded += ['tr', 'LAG_tr']
    for i, nm in enumerate(names):
        if x0[i] is not None:
            lines.append('%s(0) = %r' % (nm, x0[i]))
            if rng.random() < 0.7:
                lines.append('LAG_%s(0) = %r' % (nm, x0[i]))
    if g0 is not None:
        lines.append('exogenous')
        g = extra['exo']
        lines.append('g = %r' % (g[0] if len(g) == 1 and rng.random() < 0.5 else list(g) + [g[-1]] * 3))
    return lines, L, excluded


def _xstar(rng, n):
    m = rng.choice(MAGS)
    pat = rng.choice(['pos', 'neg', 'mixed', 'zero'])
    if pat == 'pos':
        return [m] * n, m
    if pat == 'neg':
        return [-m] * n, m
    if pat == 'zero':
        return [0.0] * n, m
    return [m * rng.choice([1, -1]) for _ in range(n)], m


def gen_case(rng, kind=None):
    kind = kind or rng.choice(['stable'] * 6 + ['unstable'] * 2 + ['drift'] * 3 + ['oscillate'] * 3 + ['decay0'] * 2 +
                              ['expansive'] * 2 + ['mixed_scale'] + ['simul'] * 2 + ['nonlinear'] +
                              ['malformed'] * 3)
    tol = rng.choice(TOLS)
    T = rng.choice([2, 3, 5, 8, 13, 20, 40, 80, 120, 200, rng.randint(2, 200), rng.randint(2, 60)])
    mode = 'solve' if rng.random() < 0.25 else 'direct'
    excluded = ['t']
    sane = True
    L = 1.0
    extra = {}
    if kind in ('stable', 'unstable', 'oscillate', 'decay0') and rng.random() < 0.35:
        extra['exo'] = [_r(rng.uniform(-3, 3), 2) for _ in range(rng.choice([1, 3]))]
    if kind in ('stable', 'unstable') and rng.random() < 0.4:
        extra['deco'] = True
    if kind in ('stable', 'drift', 'decay0') and rng.random() < 0.25:
        extra['trend'] = True

    if kind == 'stable':
        n = rng.randint(1, 4)
        hi = rng.choice([0.5, 0.9, 0.97, 0.995])
        A = _matrix(rng, n, 0.2, hi, diag_bias=rng.random())
        xs, m = _xstar(rng, n)
        x0 = [rng.choice([None, 0.0, _r(x * (1 + rng.uniform(-0.5, 0.5)) + rng.uniform(-1, 1) * m * 0.1, 6)]) for x in xs]
        lines, L, ex = _lin_block(rng, kind, A, xs, x0, extra)
    elif kind == 'unstable':
        n = rng.randint(1, 3)
        A = _matrix(rng, n, 1.05, rng.choice([1.2, 2.0, 3.0]), diag_bias=1.0)
        xs, m = _xstar(rng, n)
        x0 = [_r(x + rng.choice([1, -1]) * rng.choice([1e-6, 1e-3, 0.1, 1.0]) * m, 9) for x in xs]
        lines, L, ex = _lin_block(rng, kind, A, xs, x0, extra)
    elif kind == 'drift':
        c = rng.choice([1.0, 0.5, 0.01, 1e-3, 1e-5, 2.5]) * rng.choice([1, -1])
        start = rng.choice([0.0, 5.0, -5.0, 1000.0, -1000.0, -3e4, 0.001, -0.001])
        lines = ['x1 = LAG_x1 + %r' % c, 'LAG_x1 = x1(k-1)', 'x1(0) = %r' % start, 'LAG_x1(0) = %r' % start]
        lines = [ln.replace('+ -', '- ') for ln in lines]
        if rng.random() < 0.25:
            # a time trend written with k: the search's time axis ends at k = -0.0, so the last value is zero
            lines = ['x1 = %r*k' % c]
            if rng.random() < 0.5:
                # x2 is driven by the trend: its step tends to 2*c, so the map (x1's step counted as an input) has L = 1.5
                lines += ['x2 = 0.5*LAG_x2 + x1', 'LAG_x2 = x2(k-1)']
                L = 1.5
        ex = []
        if extra.get('trend'):
            lines += ['tr = LAG_tr + 1', 'LAG_tr = tr(k-1)']
            ex = ['tr', 'LAG_tr']
    elif kind == 'oscillate':
        m = rng.choice(MAGS)
        u = rng.random()
        if u < 0.2:
            # period two between 0 and c: every other period the last value is exactly 0
            c = m * rng.choice([1, -1])
            A = [[-1.0]]
            xs = [c / 2.0]
            x0 = [rng.choice([0.0, c])]
            extra.pop('exo', None)
        elif u < 0.6:
            a = rng.choice([1.0, 0.999, 0.9, 0.5, 1.01])
            p = rng.choice([0.0, m, -m])
            A = [[-a]]
            xs = [p]
            x0 = [_r(p + rng.choice([1, -1]) * rng.choice([1.0, 0.01, 1e-5]) * m, 9)]
        else:
            th = rng.choice([math.pi / 2, math.pi / 3, 2.5, 0.3])
            r = rng.choice([1.0, 0.99, 0.9, 1.02])
            c, s = _r(r * math.cos(th)), _r(r * math.sin(th))
            A = [[c, -s], [s, c]]
            sg = rng.choice([0, 1, -1])
            xs = [sg * m, sg * m * rng.choice([1, -1])]
            x0 = [_r(xs[0] + rng.choice([1.0, 0.01]) * m, 9), _r(xs[1], 9)]
        lines, L, ex = _lin_block(rng, kind, A, xs, x0, extra)
    elif kind == 'decay0':
        n = rng.randint(1, 2)
        A = _matrix(rng, n, 0.1, rng.choice([0.5, 0.9, 0.97]), diag_bias=1.0)
        xs = [0.0] * n
        x0 = [rng.choice([1.0, -1.0, 50.0, -0.003, 1e-5]) for _ in range(n)]
        extra.pop('exo', None)
        lines, L, ex = _lin_block(rng, kind, A, xs, x0, extra)
    elif kind == 'expansive':
        # x = LAG_x + lam*(LAG_x - LAG2_x), seeded delta off the rest point p; T = last period whose
        # step is still accepted (finding D15b: the next period moves lam times as much)
        lam = rng.choice([1.5, 2.0, 3.0])
        p = rng.choice([1.0, -1.0, 50.0, -50.0])
        delta = rng.choice([1e-8, 1e-7, 3e-9]) * abs(p)
        x = [p, p + delta]          # x(-1) = LAG_x(0) = p ; x(0) = p + delta
        T = 0
        for k in range(1, 400):
            nxt = x[-1] + lam * (x[-1] - x[-2])
            step = abs(nxt - x[-1])
            if step > tol and step / abs(nxt) > tol:
                break
            x.append(nxt)
            T = k
        T = max(T - rng.choice([0, 0, 0, 1]), 2)
        lines = ['x = LAG_x + %r*(LAG_x - LAG2_x)' % lam, 'LAG_x = x(k-1)', 'LAG2_x = LAG_x(k-1)',
                 'x(0) = %r' % (p + delta), 'LAG_x(0) = %r' % p, 'LAG2_x(0) = %r' % p]
        L = 1.0 + 2.0 * lam
        ex = []
    elif kind == 'mixed_scale':
        # non-expansive (L = 1) rotation of two large variables by 90 degrees, scaled by r, plus a small
        # variable x2 driven by LAG_x1: steps of x1 and x3 alternate between ~0 and eps (finding D15c)
        r = rng.choice([0.99, 0.95, 0.999])
        m = rng.choice([1000.0, 5000.0])
        tol = rng.choice([1e-4, 1e-3])
        T = rng.choice([6, 8, 10, 12])
        eps = 0.85 * tol * m / (r ** (T - 1))
        det = 1.0 + r * r
        # first step d_1 = (R - I) e_0 = (0, eps) with R = [[0, -r], [r, 0]]
        e0 = (r * eps / det, -eps / det)
        sg = rng.choice([1, -1])
        c1 = _r(sg * m * (1 + r), 6)
        c3 = _r(sg * m * (1 - r), 6)
        off = _r(sg * m - sg * 1.0, 6)
        lines = ['x1 = %r*LAG_x3 + %r' % (-r, c1), 'x3 = %r*LAG_x1 + %r' % (r, c3), 'x2 = LAG_x1 - %r' % off,
                 'LAG_x1 = x1(k-1)', 'LAG_x3 = x3(k-1)',
                 'x1(0) = %r' % (sg * m + e0[0]), 'x3(0) = %r' % (sg * m + e0[1]),
                 'LAG_x1(0) = %r' % (sg * m + e0[0]), 'LAG_x3(0) = %r' % (sg * m + e0[1])]
        lines = [ln.replace('- -', '+ ').replace('+ -', '- ') for ln in lines]
        L = 1.0
        ex = []
    elif kind == 'simul':
        m = rng.choice(MAGS)
        sg = rng.choice([1, -1])
        a1, a2, c = _r(rng.uniform(-0.4, 0.4)), _r(rng.uniform(-0.25, 0.25)), _r(rng.uniform(-0.3, 0.3))
        xs = [sg * m, sg * m]
        b1 = _r(xs[0] - a1 * xs[0], 6)
        b2 = _r(xs[1] - a2 * xs[1] - c * xs[0], 6)
        lines = ['x1 = %r*LAG_x1 + %r' % (a1, b1), 'x2 = %r*x1 + %r*LAG_x2 + %r' % (c, a2, b2),
                 'LAG_x1 = x1(k-1)', 'LAG_x2 = x2(k-1)', 'x1(0) = %r' % _r(xs[0] * 1.3, 6), 'x2(0) = %r' % _r(xs[1] * 0.6, 6)]
        lines = [ln.replace('+ -', '- ') for ln in lines]
        L = 1.0
        ex = []
    elif kind == 'nonlinear':
        c = _r(rng.uniform(1, 10), 3)
        lines = ['x1 = sqrt(LAG_x1 + %r)' % c, 'LAG_x1 = x1(k-1)', 'x1(0) = %r' % _r(rng.uniform(0, 30), 3)]
        L = 1.0
        ex = []
    else:  # malformed / error stream
        sane = False
        sub = rng.choice(['zerodiv', 'nameerr', 'noconv', 'T0', 'T1', 'excl_missing', 'excl_none', 'excl_dep'])
        kind = 'malformed:' + sub
        lines = ['x1 = 0.5*LAG_x1 + 1.0', 'LAG_x1 = x1(k-1)']
        ex = []
        if sub == 'zerodiv':
            lines = ['x1 = 1.0/LAG_x1 + 0.5', 'LAG_x1 = x1(k-1)', 'x1(0) = 0.0']
        elif sub == 'nameerr':
            lines = ['x1 = 0.5*LAG_x1 + foo', 'LAG_x1 = x1(k-1)']
        elif sub == 'noconv':
            lines = ['x1 = 2.0*y1 + 1.0', 'y1 = 2.0*x1 + LAG_x1', 'LAG_x1 = x1(k-1)']
        elif sub == 'T0':
            T = 0
        elif sub == 'T1':
            T = 1
        elif sub == 'excl_missing':
            ex = ['nosuch', 'x9']
        elif sub == 'excl_none':
            excluded = []
        elif sub == 'excl_dep':
            # excluded variable that others depend on (outside the property's sensible use)
            lines = ['z = 0.5*LAG_z + 1.0', 'LAG_z = z(k-1)', 'x1 = z + 1.0']
            ex = ['z']
    excluded = excluded + ex
    maxtime = 0 if mode == 'solve' else rng.choice([0, 2, 3])
    block = '\n'.join(lines + ['MaxTime = %d' % maxtime])
    return {'kind': kind, 'block': block, 'T': T, 'tol': tol, 'excluded': excluded, 'mode': mode, 'L': L, 'sane': sane}


# ---------------------------------------------------------------- implementation driver
def _f(v):
    return float(v)


def snapshot(s):
    p = s.Parser
    return {
        'parser': {'Endogenous': [list(x) for x in p.Endogenous], 'Lagged': [list(x) for x in p.Lagged],
                   'Exogenous': [[x[0], x[1] if isinstance(x[1], str) else [_f(v) for v in x[1]]] for x in p.Exogenous],
                   'Decoration': [list(x) for x in p.Decoration],
                   'InitialConditions': dict(p.InitialConditions), 'AllEquations': dict(p.AllEquations),
                   'MaxTime': p.MaxTime, 'Err_Tolerance': str(p.Err_Tolerance)},
        'solver': {'MaxTime': s.MaxTime, 'MaxIterations': s.MaxIterations, 'TraceStep': s.TraceStep,
                   'ParameterErrorTolerance': s.ParameterErrorTolerance, 'EquationString': s.EquationString,
                   'VariableList': list(s.VariableList), 'Functions': sorted(s.Functions.keys()),
                   'T': s.ParameterInitialSteadyStateMaxTime, 'tol': s.ParameterInitialSteadyStateErrorToler,
                   'excluded': list(s.ParameterInitialSteadyStateExcludedVariables)},
        'series': [[k, [_f(x).hex() for x in v]] for k, v in s.TimeSeries.items()],
    }


def make_solver(case):
    from sfc_models.equation_solver import EquationSolver
    s = EquationSolver()
    s.ParseString(case['block'])
    s.ParameterInitialSteadyStateMaxTime = case['T']
    s.ParameterInitialSteadyStateErrorToler = case['tol']
    s.ParameterInitialSteadyStateExcludedVariables = list(case['excluded'])
    return s


def run_impl(case):
    s = make_solver(case)
    if case['mode'] == 'direct':
        s.ExtractVariableList()
        s.SetInitialConditions()
        before = snapshot(s)
        try:
            s.CalculateInitialSteadyState()
            res = 'ok'
        except Exception as e:  # noqa
            res = common.exc_class(e)
    else:
        s0 = make_solver(case)
        s0.ExtractVariableList()
        s0.SetInitialConditions()
        before = snapshot(s0)
        s.ParameterSolveInitialSteadyState = True
        try:
            s.SolveEquation()
            res = 'ok'
        except Exception as e:  # noqa
            res = common.exc_class(e)
    after = snapshot(s)
    holder = [[k, [_f(x).hex() for x in v]] for k, v in s.TimeSeriesInitialSteadyState.items()]
    T = case['T']
    complete = bool(holder) and all(len(v) == T + 1 for _, v in holder)
    if res in ('ok', 'NoEquilibrium') or complete:
        cerr = None
    else:
        cerr = res
    return {'res': res, 'before': before, 'after': after, 'holder': holder, 'cerr': cerr, 'solver': s}


# ---------------------------------------------------------------- oracle (implementation only)
def steady_rule(new, old, tol):
    d = abs(new - old)
    if d <= tol:
        return True
    big = max(abs(new), abs(old))
    if big < NEAR:
        return True
    return d <= tol * big


def oracle(case, r):
    fails = []
    rep = {'case': {k: case[k] for k in ('kind', 'block', 'T', 'tol', 'excluded', 'mode', 'L', 'sane')}}
    b, a = r['before'], r['after']
    # ---- frame: equations, exogenous paths, horizon, everything but k=0 of the series
    if case['mode'] == 'direct':
        if b['parser'] != a['parser'] or b['solver'] != a['solver']:
            diff = [k for k in b['parser'] if b['parser'][k] != a['parser'][k]] + \
                   [k for k in b['solver'] if b['solver'][k] != a['solver'][k]]
            fails.append({'key': 'steady:frame-changed', 'replay': rep,
                          'what': 'the search changed the solver it initialises: %s differ before/after (block %r)' % (
                              diff, case['block'])})
        bs, as_ = dict((k, v) for k, v in b['series']), dict((k, v) for k, v in a['series'])
        exo = [x[0] for x in b['parser']['Exogenous']]
        bad = []
        if list(bs) != list(as_):
            bad.append('names')
        else:
            for k in bs:
                if len(bs[k]) != len(as_[k]) or bs[k][1:] != as_[k][1:]:
                    bad.append(k)
                elif (k in exo or k == 'k' or k in case['excluded']) and bs[k] != as_[k]:
                    bad.append(k)
        if bad:
            fails.append({'key': 'steady:frame-changed', 'replay': rep,
                          'what': 'the search changed series other than at k=0 (or exogenous/excluded series): %s (block %r)' % (
                              bad, case['block'])})
    # ---- outcome class
    if case['sane'] and r['res'] not in ('ok', 'NoEquilibrium', 'ValueError'):
        fails.append({'key': 'steady:unexpected-exception', 'replay': rep,
                      'what': 'search on a well-formed system raised %s (block %r)' % (r['res'], case['block'])})
    # ---- accepted => steady
    if r['res'] == 'ok' and case['sane']:
        fails.extend(check_steady(case, r, rep))
    return fails


def check_steady(case, r, rep):
    from sfc_models.equation_solver import EquationSolver  # noqa
    s = r['solver']
    tol, T = case['tol'], case['T']
    s2 = copy.deepcopy(s)
    s2.TraceStep = None
    s2.MaxIterations = 1000
    s2.Parser.Err_Tolerance = tol
    s2.Parser.MaxTime = 1
    row = {k: v[0] for k, v in s2.TimeSeries.items()}
    for var, _ in s2.Parser.Exogenous:
        s2.TimeSeries[var] = [row[var], row[var]]
    s2.TimeSeries['k'] = [0.0, 1.0]
    # non-exogenous series must hold exactly the k=0 point
    exo = set(x[0] for x in s2.Parser.Exogenous)
    for var in s2.TimeSeries:
        if var not in exo and var != 'k':
            s2.TimeSeries[var] = [row[var]]
    try:
        s2.SolveStep(1)
    except Exception as e:  # noqa
        return [{'key': 'steady:accepted-not-steady', 'replay': rep,
                 'what': 'accepted steady state, but one more period raises %s (block %r)' % (type(e).__name__, case['block'])}]
    excluded = set(['k'] + list(case['excluded']))
    holder = dict(r['holder'])
    worst = None
    vals = [float(row[v]) for v in row if v not in excluded]
    if not all(math.isfinite(x) for x in vals):
        return []
    M = max([abs(x) for x in vals] + [0.0])
    for var in s2.TimeSeries:
        if var in excluded:
            continue
        old, new = float(s2.TimeSeries[var][0]), float(s2.TimeSeries[var][1])
        if not (math.isfinite(old) and math.isfinite(new)):
            return []
        if not steady_rule(new, old, tol):
            mv = abs(new - old)
            if worst is None or mv > worst[1]:
                worst = (var, mv, old, new)
    if worst is None:
        return []
    var, mv, old, new = worst
    bound = case['L'] * max(tol, tol * M, 2 * NEAR)
    what = ('accepted as steady (T=%d, tol=%g) but one more period moves %s from %r to %r (|change| %.3g); '
            'block %r' % (T, tol, var, old, new, mv, case['block']))
    if mv <= bound * (1 + 1e-6):
        key = 'steady:expansive-system-accepted' if case['L'] > 1.0 else 'steady:mixed-scale-accepted'
        what += ' [within the proven bound L*max(tol, tol*max|x|, 2e-4) = %.3g, L = %g]' % (bound, case['L'])
    else:
        key = 'steady:accepted-not-steady'
    return [{'key': key, 'what': what, 'replay': rep}]


# ---------------------------------------------------------------- Coq emission
ERRS = {'LogicError', 'KeyError', 'ValueError', 'ConvergenceError', 'NoEquilibrium', 'NameError', 'ZeroDiv',
        'TokenError', 'NotImplemented', 'TypeError', 'SyntaxError', 'IndexError', 'Warning_', 'OverflowError',
        'OtherError'}


def cerr_name(n):
    return n if n in ERRS else 'OtherError'


def fser(pairs, tail=None):
    out = []
    for k, v in pairs:
        vs = v if tail is None or len(v) <= tail else v[-tail:]
        out.append('(%s, %s)' % (coq_string(k), coq_list([coq_float(float.fromhex(x)) for x in vs])))
    return coq_list(out)


def emit(case, r):
    T = case['T']
    tail = 3 if T >= 3 else None
    res = 'Ok tt' if r['res'] == 'ok' else 'Err %s' % cerr_name(r['res'])
    cerr = coq_option(None if r['cerr'] is None else cerr_name(r['cerr']))
    return CASEFN + ' %s %s %s %s %s (%s) %s' % (
        coq_float(case['tol']), coq_list([coq_string(x) for x in case['excluded']]),
        fser(r['before']['series']), fser(r['holder'], tail), cerr, res, fser(r['after']['series']))


def emit_prep(case, r):
    exo = [x[0] for x in r['before']['parser']['Exogenous'] if x[0] != 'k']
    return 'c15_prep_case %s %s %s %s' % (coq_nat(case['T']), coq_list([coq_string(x) for x in exo]),
                                          fser(r['before']['series']), fser([kv for kv in r['holder'] if kv[0] in exo or kv[0] == 'k']))


# ---------------------------------------------------------------- entry points
def corpus_cases():
    import glob
    import os
    out = []
    for p in sorted(glob.glob(os.path.join(common.VERIF, 'corpus', PID, '*.json'))):
        out.append(json.load(open(p))['replay']['case'])
    return out


FIXED = [
    # D15a witness (accepted on /repo HEAD, rejected after the fix)
    {'kind': 'drift', 'block': 'x = LAG_x - 1\nLAG_x = x(k-1)\nMaxTime = 3', 'T': 200, 'tol': 1e-4, 'excluded': ['t'],
     'mode': 'direct', 'L': 1.0, 'sane': True},
    {'kind': 'drift', 'block': 'x = LAG_x - 1\nLAG_x = x(k-1)\nMaxTime = 0', 'T': 200, 'tol': 1e-4, 'excluded': ['t'],
     'mode': 'solve', 'L': 1.0, 'sane': True},
    # D15b witness of DESIGN.md section 7
    {'kind': 'expansive', 'block': 'x = LAG_x + 3*(LAG_x - LAG2_x)\nLAG_x = x(k-1)\nLAG2_x = LAG_x(k-1)\nx(0) = 1.00000001\n'
                                   'LAG_x(0) = 1.\nLAG2_x(0) = 1.\nMaxTime = 3', 'T': 8, 'tol': 1e-4, 'excluded': ['t'],
     'mode': 'direct', 'L': 7.0, 'sane': True},
    # the unit test's system
    {'kind': 'stable', 'block': 'x=t\nz=x+1\nw=z(k-1)\nz(0) = 2.\nexogenous\nt=[10.]*20\nMaxTime=3', 'T': 3, 'tol': 1e-4,
     'excluded': ['t'], 'mode': 'direct', 'L': 1.0, 'sane': True},
]


def run(ctx):
    out = common.Outcome()
    out.proof = common.proof_status(FAMILY, PROPFILE)
    common.use_impl()
    n = ctx.scale(1500, 9000)
    items = list(FIXED) + corpus_cases() + [gen_case(ctx.rng) for _ in range(n)]
    cases, metas, seen = [], [], set()
    stats = {'kinds': {}, 'outcomes': {}, 'modes': {}, 'accepted_checked': 0, 'negative_fixed_point': 0,
             'prep_cases': 0, 'copy_errors': 0}
    for c in items:
        try:
            r = run_impl(c)
        except Exception as e:  # noqa  (block does not parse: generator bug, not a verdict)
            out.notes.append('case skipped, driver raised %s on %r' % (type(e).__name__, c['block'][:80]))
            continue
        out.failures.extend(oracle(c, r))
        k0 = c['kind'].split(':')[0]
        stats['kinds'][c['kind']] = stats['kinds'].get(c['kind'], 0) + 1
        stats['outcomes'][r['res']] = stats['outcomes'].get(r['res'], 0) + 1
        stats['modes'][c['mode']] = stats['modes'].get(c['mode'], 0) + 1
        if r['res'] == 'ok':
            stats['accepted_checked'] += 1
        if r['cerr'] is not None:
            stats['copy_errors'] += 1
        if any(float.fromhex(v[-1]) < 0 for k, v in r['holder'] if k not in ('k', 't') and v):
            stats['negative_fixed_point'] += 1
        cases.append(emit(c, r))
        metas.append({'case': {k: c[k] for k in c}, 'res': r['res']})
        if c['T'] <= 40 or ctx.rng.random() < 0.15:
            if r['holder'] and all(len(v) == c['T'] + 1 for k, v in r['holder'] if k == 'k'):
                cases.append(emit_prep(c, r))
                metas.append({'case': {k: c[k] for k in c}, 'res': 'prepare_copy'})
                stats['prep_cases'] += 1
        if r['res'] in ('ok', 'NoEquilibrium') and k0 != 'malformed':
            seen.add(json.dumps([c['block'], c['T'], c['tol'], c['excluded']]))
    bad, errs = common.run_bool_cases(FAMILY, REQUIRES, cases, tag=PID, shard=60)
    out.corr_errors = errs
    for i in bad[:20]:
        out.disagreements.append({'input': metas[i], 'case': cases[i][:800]})
    out.evaluations = len(cases)
    out.nontrivial = len(seen)
    out.rule = ('random linear systems x = A*LAG_x + b (1-4 variables, fixed point of one magnitude with all-positive / '
                'all-negative / mixed / zero signs, optional exogenous input frozen at k=0, decoration, excluded trend '
                'variable) of kinds stable / unstable / drifting / oscillating (sign flip, rotations) / decaying to zero / '
                'expansive-just-under-tolerance (D15b) / mixed-scale rotation / simultaneous / sqrt, plus a malformed stream '
                '(division by zero, unknown name, divergent sweep, T=0/1, odd exclusion lists); horizons 2-200, tolerances '
                '1e-2..1e-6; direct call or through SolveEquation; non-trivial = the search reached its verdict '
                '(accepted or no-equilibrium) on a well-formed system; distinct by (block, T, tol, exclusions)')
    out.samples = [metas[0], metas[len(metas) // 2], metas[-1]]
    out.extra = {'input_distribution': stats, 'source_hashes': common.source_hashes(['sfc_models/equation_solver.py'])}
    out.trusted_base = [
        'Coq 8.16.1 kernel + vm_compute',
        'hand-written model coq/Hist/Steady.v (tied by this correspondence); the T periods solved inside the copy are an '
        'input of the model (the numerical core is modelled in family Solve), supplied from TimeSeriesInitialSteadyState',
        'Coq Reals axioms in C15_accept / C15_next_step (ClassicalDedekindReals.sig_forall_dec, '
        'FunctionalExtensionality.functional_extensionality_dep); primitive float operations (kernel primitives) in the '
        'float examples',
        "Python's copy.deepcopy, dict order and float arithmetic as rendered by harness/c15.py",
    ]
    out.assumptions = [
        'exclusion lists are dependency-closed (no non-excluded variable depends on an excluded one), as with the default '
        "['t']; the malformed stream has one open list and only the frame is checked there",
        '"one more period" is solved like the periods of the search itself (exogenous frozen at k=0, step tolerance = the '
        'steady-state tolerance, cap 1000), starting from the installed k=0 row',
        'a change is within tolerance when |new-old| <= tol, or <= tol*max(|new|,|old|), or both are below 1e-4 in size',
        'non-finite installed values (inf/nan from an overflowing system) are not judged (C02 covers them)',
        'generated coupled variables share one magnitude, so that the per-variable tolerance and the sup-norm bound of '
        'C15_next_step coincide for non-expansive systems; the mixed-scale stream probes the other case (finding D15c)',
    ]
    return out


def replay(path):
    common.use_impl()
    obj = json.load(open(path))
    r = obj.get('replay') or {}
    if 'case' not in r:
        print('replay names a proof/correspondence obligation, nothing to execute:', json.dumps(obj)[:600])
        return 1
    c = r['case']
    res = run_impl(c)
    fails = oracle(c, res)
    print('outcome of the search: %s' % res['res'])
    for f in fails:
        print('FAILS:', f['key'], f['what'][:400])
    print('replay: %s' % ('property violated' if fails else 'property holds on this input'))
    return common.replay_status(PID, fails)
