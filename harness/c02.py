"""C02 — whatever the solver returns satisfies the submitted equations.

Proof: coq/Solve/PropC02.v (exact parts, stop test, no diverged period reported, finiteness, and
the exact-arithmetic residual bound) about the model of EquationSolver.SolveEquation in
coq/Solve/{Init,Step,Run}.v.
Correspondence: random equation blocks (see solve_common.py) are parsed and solved by the
implementation; the model receives the parser state and must reproduce, bit for bit, every series
(also after an exception), the exception class, and the sweep count / error column of a traced period.
Oracle (implementation only): every returned value is finite; lagged / exogenous / decorative
equations hold exactly on every reported row; simultaneous equations of systems with a known sup-norm
Lipschitz constant hold within max(L,(L+1)/2)*tol*max(1,M); a diverging system does not return normally.
"""
import json
import math

import common
import solve_common as sc

PID = 'C02'
FAMILY = sc.FAMILY
PROPFILE = 'PropC02.v'
LEVEL = 'proof'
WEIGHTS = {'affine': 4, 'expansive': 1.5, 'oscillating': 1.5, 'overflow': 1.5, 'pole': 2, 'tree': 4, 'deco': 3,
           'reject': 0.5, 'weird': 0.7}


def _cls(var, vc):
    if var in vc['deco']:
        return 'decorative'
    if var in [v for v, _ in vc['lagged']]:
        return 'lagged'
    if var in vc['exo']:
        return 'exogenous'
    return 'endogenous'


def oracle(case, res):
    """the property on the implementation alone"""
    fails = []
    if res is None or res['parse_error'] is not None:
        return fails
    rep = {'kind': 'solve', 'case': case}
    if res.get('hang'):
        return [{'key': 'hang', 'what': 'SolveEquation did not return within %d s: %s' % (
            sc.CASE_TIMEOUT, sc.block_text(case).replace('\n', ' | ')), 'replay': rep}]
    if res['outcome'] is not None:
        return fails          # C02 speaks about normal returns
    ts = res['ts_raw']
    vc = sc.var_classes(res['solver'])
    T = res['solver'].Parser.MaxTime
    # 1. finiteness of everything reported
    for var, vals in ts.items():
        for k, v in enumerate(vals):
            if isinstance(v, float) and not math.isfinite(v):
                key = 'finite:time-zero' if k == 0 else 'finite:' + _cls(var, vc)
                fails.append({'key': key, 'what': 'solve returned normally but %s[%d] = %r (block: %s)' % (
                    var, k, v, sc.block_text(case).replace('\n', ' | ')), 'replay': rep})
                return fails
    if any(len(v) != T + 1 for v in ts.values()):
        return fails          # C10's business
    submitted = dict((l, r) for l, r in case['eqs'])
    exo_txt = dict((n, t) for n, t in case['exo'])
    Lc = case.get('info', {}).get('L')
    tol = float(res['solver'].Parser.Err_Tolerance)
    if case.get('tol') is not None and res['solver'].ParameterErrorTolerance is None:
        # "to within the stated tolerance": the tolerance the block states, not what the parser made of it
        try:
            stated = float(case['tol'])
            if 0.0 < stated < 1.0:
                tol = stated
        except ValueError:
            pass
    for k in range(1, T + 1):
        row = {v: ts[v][k] for v in ts}
        # 2. exact parts
        for lv, src in vc['lagged']:
            if src in ts and not sc.same_number(ts[lv][k], ts[src][k - 1]):
                fails.append({'key': 'exact:lagged', 'what': '%s[%d]=%r but %s[%d]=%r' % (
                    lv, k, ts[lv][k], src, k - 1, ts[src][k - 1]), 'replay': rep})
                return fails
        for x in vc['exo']:
            if x in exo_txt:
                sup = sc.supplied_exo(exo_txt[x], T)
                if sup is not None and not sc.same_number(ts[x][k], sup[k]):
                    fails.append({'key': 'exact:exogenous', 'what': '%s[%d]=%r, supplied %r' % (x, k, ts[x][k], sup[k]),
                                  'replay': rep})
                    return fails
        for d in vc['deco']:
            if d in submitted:
                try:
                    val = sc.eval_text(submitted[d], row)
                except Exception as e:  # noqa
                    fails.append({'key': 'exact:decorative', 'what': 'decorative %s = %s cannot be evaluated on the '
                                  'reported row %d: %r' % (d, submitted[d], k, e), 'replay': rep})
                    return fails
                if not sc.same_number(val, ts[d][k]):
                    fails.append({'key': 'exact:decorative', 'what': 'decorative %s = %s: row %d gives %r, reported %r' % (
                        d, submitted[d], k, val, ts[d][k]), 'replay': rep})
                    return fails
        # 3. simultaneous equations, when the generator knows the Lipschitz constant of the sweep map
        if Lc is not None and tol < 1:
            endo = [v for v in vc['endo'] if v in submitted]
            m = max([abs(float(ts[v][k])) for v in vc['endo']] + [0.0])
            c = max(Lc, (Lc + 1) / 2.0)
            bound = (c + 0.01) * tol * max(1.0, m * 1.01 + 0.01) + 1e-13 * (max(1.0, m) + 1000.0)   # + rounding of one row evaluation
            for v in endo:
                try:
                    r = abs(float(sc.eval_text(submitted[v], row)) - float(ts[v][k]))
                except Exception:  # noqa
                    r = float('nan')
                if not (r <= bound):
                    fails.append({'key': 'residual:endogenous', 'what': 'equation %s = %s at k=%d: residual %r > '
                                  'max(L,(L+1)/2)*tol*max(1,M) = %r (L=%r tol=%r M=%r)' % (
                                      v, submitted[v], k, r, bound, Lc, tol, m), 'replay': rep})
                    return fails
    if case.get('info', {}).get('expect_fail') and T >= 1:
        fails.append({'key': 'solved:diverging', 'what': 'a diverging system returned normally: %s' % (
            sc.block_text(case).replace('\n', ' | ')), 'replay': rep})
    return fails


# ---------------------------------------------------------------- user functions (implementation only)
def gen_userfn(rng):
    a = round(rng.uniform(0.1, 0.7), 2)
    b = round(rng.uniform(-20, 20), 1)
    q = round(rng.uniform(0.1, 0.9), 2)
    c0 = round(rng.uniform(-50, 50), 1)
    return {'a': a, 'b': b, 'q': q, 'c0': c0, 'T': rng.choice([1, 2, 4]), 'tol': rng.choice(['1e-4', '1e-6', '1e-8', '1e-11']),
            'reduce': rng.random() < 0.5}


def oracle_userfn(u):
    """x = f(y); y = q*x + c0; d = f(x) + y with f(v) = a*v + b registered through AddFunction."""
    from sfc_models.equation_solver import EquationSolver
    fails = []
    rep = {'kind': 'userfn', 'case': u}
    f = lambda v: u['a'] * v + u['b']   # noqa
    txt = 'x = f(y)\ny = %r*x + %r\nd = f(x) + y\nMaxTime = %d\nErr_Tolerance = %s' % (u['q'], u['c0'], u['T'], u['tol'])
    s = EquationSolver(txt, run_equation_reduction=u['reduce'])
    s.AddFunction('f', f)
    try:
        s.SolveEquation()
    except Exception as e:  # noqa
        fails.append({'key': 'userfn:not-solved', 'what': 'contraction with a user function failed: %r' % (e,), 'replay': rep})
        return fails
    ts = s.TimeSeries
    tol = float(u['tol'])
    L = max(u['a'], u['q'])
    for k in range(1, u['T'] + 1):
        x, y, d = ts['x'][k], ts['y'][k], ts['d'][k]
        m = max(abs(x), abs(y), 1.0)
        bound = (max(L, (L + 1) / 2) + 0.01) * tol * (m * 1.01 + 0.01) + 1e-13 * (m + 100.0)
        if not (abs(f(y) - x) <= bound and abs(u['q'] * x + u['c0'] - y) <= bound):
            fails.append({'key': 'userfn:residual', 'what': 'row %d: x=%r y=%r residuals %r %r > %r' % (
                k, x, y, abs(f(y) - x), abs(u['q'] * x + u['c0'] - y), bound), 'replay': rep})
            break
        is_deco = 'd' in [v for v, _ in s.Parser.Decoration]
        if is_deco and d != f(x) + y:
            fails.append({'key': 'userfn:decorative', 'what': 'row %d: d=%r, f(x)+y=%r' % (k, d, f(x) + y), 'replay': rep})
            break
    return fails


# ---------------------------------------------------------------- entry points
def nontrivial(case, res):
    if res is None or res['parse_error'] is not None or res['state'] is None:
        return False
    return res['state']['maxtime'] >= 1 and len(res['state']['endo']) >= 2


def run(ctx):
    out = common.Outcome()
    out.proof = common.proof_status(FAMILY, PROPFILE)
    n = ctx.scale(2500, 40000)
    cases = sc.corpus_cases(PID) + [sc.gen_case(ctx.rng, WEIGHTS) for _ in range(n)]
    cases = [c['case'] if 'case' in c else c for c in cases]
    stats = {}
    results, nterms = sc.run_correspondence(out, cases, stats, PID)
    seen = set()
    kinds = {}
    for case, res in zip(cases, results):
        sc.classify(case, res, stats)
        kinds[case['kind']] = kinds.get(case['kind'], 0) + 1
        out.failures.extend(oracle(case, res))
        if nontrivial(case, res):
            seen.add(sc.case_key(case))
    nfn = ctx.scale(60, 600)
    for _ in range(nfn):
        out.failures.extend(sc.guarded(oracle_userfn, gen_userfn(ctx.rng), 'userfn:hang', 'userfn'))
    out.evaluations = len(cases) + nfn
    out.nontrivial = len(seen)
    out.rule = ('random equation blocks by stream (affine contractions / expansive / oscillating systems of 1-12 equations '
                'with exogenous lists and lags, overflowing products, 1/(y-c) and sqrt poles transient or persistent, random '
                'expression trees over + - * / unary abs sqrt float max min, decorative trees moved to Parser.Decoration, '
                'malformed exogenous/initial specifications, ill-formed states), tolerances 1e-3..1e-12, caps 0..30 and 400, '
                'reduction on/off, MaxTime 0..6; plus systems using a registered user function (oracle only). Non-trivial = '
                'parsed, MaxTime >= 1 and at least two simultaneous equations; distinct by block text + configuration')
    out.samples = [sc.block_text(c) for c in (cases[0], cases[len(cases) // 2], cases[-1])]
    stats['by_stream'] = kinds
    stats['model_cases'] = nterms
    stats['user_function_cases'] = nfn
    out.extra = {'input_distribution': stats, 'source_hashes': common.source_hashes(sc.SOURCES)}
    out.trusted_base = TRUSTED
    out.assumptions = ASSUMPTIONS
    return out


TRUSTED = [
    'Coq 8.16.1 kernel + vm_compute, primitive floats / Uint63 (IEEE-754 binary64 of the host)',
    'FloatAxioms specification axioms: leb_spec, eqb_spec (C02_stop_test: an error <= tolerance is not NaN) and '
    'Leibniz.eqb_spec (C10_time_half_exact_5000); Print Assumptions also lists the kernel primitives (PrimFloat.add, leb, sqrt, '
    'PrimInt63.*, ...) that vm_compute executes',
    'Reals axioms (ClassicalDedekindReals.sig_forall_dec, FunctionalExtensionality.functional_extensionality_dep) in the '
    'exact-arithmetic theorems C02_residual_R / C11_contraction only',
    'hand-written model coq/Solve/{Init,Step,Run,Orig,Validate}.v, tied to the code by the correspondence on every run',
    "Python's parser (ast.parse), eval of exogenous / initial-condition strings, float() and float.hex as used by harness/solve_common.py",
]
ASSUMPTIONS = [
    'the model starts from the parser state (EquationParser output); parsing itself is C14 / C13',
    'expression language: names, numeric literals, unary +-, + - * /, abs sqrt float max(2) min(2); other forms are skipped by the '
    'correspondence (counted as unsupported) but still go through the oracle',
    'integer literals: a case whose result changes when the literals are written as floats is compared in its float spelling',
    'MaxTime >= 0, MaxIterations >= 0, no user functions in the model (oracle only), one solve per solver object',
    'C02_stop_test / residual need a tolerance below 1 (with Err_Tolerance >= 1 the Python loop is never entered); '
    'C02_residual_R is the exact-arithmetic (real number) instance: rounding inside the sweep map is not accounted for',
]


def replay(path):
    obj = json.load(open(path))
    r = obj.get('replay') or {}
    if r.get('kind') == 'solve':
        try:
            res = sc.drive(r['case'], want_state=False)
        except sc.Unsupported:
            res = None
        fails = oracle(r['case'], res)
    elif r.get('kind') == 'userfn':
        fails = oracle_userfn(r['case'])
    else:
        print('replay names a proof/correspondence obligation, nothing to execute:', json.dumps(obj)[:600])
        return 1
    for f in fails:
        print('FAILS:', f['key'], f['what'][:400])
    print('replay: %s' % ('property violated' if fails else 'property holds on this input'))
    return common.replay_status(PID, fails)
