"""Stand-alone driver for harness/gen_main.py (whole-pipeline model of Model.main(), coq/GenMain).

    /venv/bin/python /verif/harness/gen_main_selftest.py [--seed N] [--tier quick|thorough] [--replay FILE] [--no-proof]

Runs proof_status of coq/GenMain/PropMain.v and the whole-program correspondence on the tree
common.REPO (SFC_REPO=/path selects another tree), prints a summary and exits 1 on any failure.
"""
import argparse
import json
import sys
import os

sys.path.insert(0, os.path.dirname(os.path.abspath(__file__)))
import common

common.use_impl()
import gen_main


def main():
    ap = argparse.ArgumentParser()
    ap.add_argument('--seed', type=int, default=int(os.environ.get('VERIF_SEED', '0')))
    ap.add_argument('--tier', default='quick')
    ap.add_argument('--replay')
    ap.add_argument('--no-proof', action='store_true')
    ap.add_argument('--pid', default='C01')
    a = ap.parse_args()
    if a.replay:
        return gen_main.replay(json.load(open(a.replay)))
    ctx = common.Ctx(a.pid, a.tier, a.seed)
    out = common.Outcome()
    status = 0
    if not a.no_proof:
        for fam, pf in gen_main.PROOFS:
            st = common.proof_status(fam, pf)
            print('proof %s/%s ok=%s theorems=%d broken=%s' % (fam, pf, st['ok'], len(st['theorems']), st['broken']))
            axioms = sorted(set(x for v in st['assumptions'].values() for x in (v or [])))
            print('  axioms:', axioms)
            if not st['ok']:
                status = 1
                print((st.get('log') or '')[-1500:])
    gen_main.extra(ctx, out)
    print('evaluations=%d nontrivial=%d disagreements=%d corr_errors=%d failures=%d wall=%.1fs' % (
        out.evaluations, out.nontrivial, len(out.disagreements), len(out.corr_errors), len(out.failures), ctx.elapsed()))
    print('distribution:', json.dumps(out.extra.get('main_model'), sort_keys=True))
    for d in out.disagreements[:3]:
        print('DISAGREEMENT:', json.dumps(d['main_program'])[:3000])
        try:
            print('   model   :', gen_main.show_model(d['main_program'])[:3000])
            print('   impl    :', str(gen_main.run_impl(d['main_program']))[:3000])
        except Exception as e:
            print('   (could not show the model outcome: %r)' % (e,))
    for e in out.corr_errors[:2]:
        print('CORR ERROR:', e['output'][-1500:])
    if out.failures or out.disagreements or out.corr_errors:
        status = 1
    print('RESULT:', 'FAIL' if status else 'OK')
    return status


if __name__ == '__main__':
    sys.exit(main())
