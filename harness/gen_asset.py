"""Asset markets at booking level (part of C04 and C01): MoneyMarket, DepositMarket, GenerateAssetWeighting.

Proof: coq/GenAsset/PropAsset.v - Gallina models of MoneyMarket._GenerateEquations,
DepositMarket._GenerateEquations and Sector.GenerateAssetWeighting on a Zone.zone, with theorems for ALL zones
(membership, clearing, default money demand, portfolio adds up, what is booked on F / INC, interest entries cancel
when last period's stocks were consistent).

Correspondence (every run): random currency zones are built with the public API (1-3 countries sharing a currency,
optionally a country in another currency, plain sectors with / without F, Market instances, sectors already owning
DEM_MON / DEM_DEP / DEM_BOND, income exclusions, a MoneyMarket, 0-2 DepositMarkets with issuer codes present /
absent / carried by several sectors, GenerateAssetWeighting with 0-4 assets given as dict or as list of pairs).
Every call (one `_GenerateEquations()` or one `GenerateAssetWeighting`) is compared on its own: the state before the
call is handed to the model, the model's result must equal the state after the call, sector by sector and variable by
variable: (blob text, parsed terms).  A blob text that is really a signed sum of products of names (single full
name, LAG_r*LAG_SUP, 1.0-WGT_a-WGT_b, A+B+C) is compared by its parse, not by its spelling; lag definitions are
compared as (variable, source).

Oracle (implementation only): holders / issuers recomputed from the object model (CurrencyZone identity, HasF,
isinstance Market, Code, EquationBlock keys); identities evaluated exactly over fractions.Fraction valuations (two
periods for the interest lemma).

Used through  extra(ctx, out)  by harness/c04.py and harness/c01.py (see agent_reports/GenAsset.md).
"""
import ast
import json
import random
import re
from fractions import Fraction

import common
from common import coq_string, coq_list, coq_Z, coq_bool

import os

PROOFS = [('GenAsset', 'PropAsset.v')]
# How zones in which the number of sectors carrying the issuer code is not exactly one are treated (possible defect
# D22: the asset markets never check it; see agent_reports/GenAsset.md):
#   'hypothesis'  (now) models = /repo HEAD; such zones are outside the hypotheses of the theorems
#                 (Deposit_no_issuer_refuted / Deposit_two_issuers_refuted): counted, not judged by the oracle.
#   'known'       models = /repo HEAD; the oracle judges EVERY successful call and gives failures on such zones the key
#                 suffix ':issuer-count' so that a known_findings.json entry can match them.
#   'enforced'    once proposed fix D22 (LogicError unless exactly one issuer) is committed: correspondence against
#                 money_generate_checked / deposit_generate_checked, every successful call judged, no suffix.
ISSUER_POLICY = os.environ.get('GENASSET_ISSUER_POLICY', 'enforced')   # fix D22 (59ea4ed) is in /repo
assert ISSUER_POLICY in ('hypothesis', 'known', 'enforced')
SINGLE_ISSUER_ENFORCED = ISSUER_POLICY == 'enforced'
JUDGE_ALL = ISSUER_POLICY != 'hypothesis'

FAMILY = 'GenAsset'
REQUIRES = ['From SFC.Base Require Import Res Str.',
            'From SFC.Gen Require Import Fx Zone.',
            'From SFC.GenAsset Require Import Common Money Deposit Weighting CaseDefs.']

TRUSTED = [
    'hand-written models coq/GenAsset/{Money,Deposit,Weighting}.v on the shared state coq/Gen/Zone.v, tied to '
    'MoneyMarket/DepositMarket._GenerateEquations and Sector.GenerateAssetWeighting by the per-call correspondence',
    'definitions the implementation installs as opaque text but that are a single name, a product of names or a '
    'signed sum of such are given structured meaning in the model (empty blob + terms); the harness compares them by '
    'parsed terms (Python ast), not by blob spelling; lag definitions X(k-1) stay opaque text and their meaning '
    '(value now = value of X one period earlier) is the separate list deposit_lags, compared as (variable, source)',
    'Term parsing / whitespace squeezing of texts is the subject of C12 (coq/Eqn), taken as given here',
]
ASSUMPTIONS = [
    'asset-market theorems: full codes assigned and free of "__"; the market is in its own zone with the flags its '
    'constructor gives it (MoneyMarket HasF=False, DepositMarket a Market)',
    'interest lemma: exactly one non-market sector of the zone carries the issuer short code, participants do not '
    'already own a non-trivial INT<code>; zones with no issuer or several same-code issuers are refuted in the '
    'property file (Deposit_no_issuer_refuted, Deposit_two_issuers_refuted) and counted, not judged, by the oracle',
]


# ---------------------------------------------------------------------------------------------- generator

SEC_CODES = ['GOV', 'HH', 'BUS', 'TRE', 'CB', 'CAP']
BLOBS = ['0.5*F', 'F', '0.25*F', 'alpha*F', 'X', '', '0.0', 'F - DEM_DEP', 'LAG_F']
WEIGHTS = ['0.5', '0.25', 'alpha', '0.1 * beta', 'lam0 + lam1*r', '1', '0.3', ' 0.2 ']
ASSETS = ['DEP', 'BOND', 'EQ', 'GOLD']


def gen_case(rng):
    ncountry = rng.choice([1, 1, 2, 2, 3])
    countries = ['CA', 'ON', 'QC'][:ncountry]
    sectors = []          # dicts: country, code, kind, pre (list of [var, blob]), excl
    for cn in countries:
        codes = rng.sample(SEC_CODES, rng.randint(1, 4))
        if cn == countries[0]:
            if 'GOV' not in codes and rng.random() < 0.8:
                codes[0] = 'GOV'
        elif 'GOV' in codes and rng.random() < 0.7:
            codes.remove('GOV')          # a second same-code government in the zone is the rarer case
        if not codes:
            codes = ['HH']
        for cd in codes:
            r = rng.random()
            kind = 'F' if r < 0.8 else ('noF' if r < 0.9 else 'market')
            pre = []
            if kind != 'market' or rng.random() < 0.3:
                for v in ('DEM_MON', 'DEM_DEP', 'DEM_BOND'):
                    if rng.random() < (0.35 if kind == 'F' else 0.12):
                        pre.append([v, rng.choice(BLOBS)])
            if rng.random() < 0.06:
                pre.append([rng.choice(['INTDEP', 'INTBOND']), rng.choice(['', '0.0', '5.0', 'X'])])
            excl = [x for x in ('INTDEP', 'INTBOND') if rng.random() < 0.1]
            sectors.append({'country': cn, 'code': cd, 'kind': kind, 'pre': pre, 'excl': excl})
    other = None
    if rng.random() < 0.25:
        other = {'country': 'US', 'sectors': [
            {'country': 'US', 'code': 'GOV', 'kind': 'F', 'pre': [], 'excl': []},
            {'country': 'US', 'code': 'HH', 'kind': 'F', 'pre': [['DEM_DEP', '0.5*F'], ['DEM_MON', 'F']], 'excl': []}]}
    markets = [{'kind': 'money', 'country': rng.choice(countries), 'code': 'MON',
                'issuer': rng.choice(['GOV', 'GOV', 'GOV', 'GOV', 'GOV', 'TRE', 'NONE'])}]
    for cd in rng.sample(['DEP', 'BOND'], rng.choice([0, 1, 1, 2])):
        markets.append({'kind': 'deposit', 'country': rng.choice(countries), 'code': cd,
                        'issuer': rng.choice(['GOV', 'GOV', 'GOV', 'GOV', 'GOV', 'TRE', 'NONE'])})
    # markets are created among the sectors: position in the country's sector list
    for m in markets:
        m['pos'] = rng.randint(0, len([s for s in sectors if s['country'] == m['country']]))
    weightings = []
    fsecs = [i for i, s in enumerate(sectors) if s['kind'] != 'market']
    for _ in range(rng.choice([0, 1, 1, 2])):
        if not fsecs:
            break
        n = rng.choice([0, 1, 2, 2, 3, 4])
        codes = [rng.choice(ASSETS) for _ in range(n)] if rng.random() < 0.3 else rng.sample(ASSETS, n)
        r = rng.random()
        if r < 0.04:
            codes = codes + ['A__B']
        elif r < 0.08:
            codes = ['_X'] + codes
        pairs = [[c, rng.choice(WEIGHTS)] for c in codes]
        as_dict = rng.random() < 0.5
        if as_dict:
            seen = {}
            for c, w in pairs:
                seen[c] = w
            pairs = [[c, w] for c, w in seen.items()]
        res = 'MON' if rng.random() < 0.85 else rng.choice(ASSETS + ['M__N'])
        weightings.append({'sector': rng.choice(fsecs), 'pairs': pairs, 'as_dict': as_dict, 'residual': res,
                           'absolute': rng.random() < 0.03, 'when': rng.choice(['pre', 'post'])})
    order = list(range(len(markets)))
    rng.shuffle(order)
    return {'countries': countries, 'sectors': sectors, 'other': other, 'markets': markets,
            'weightings': weightings, 'order': order}


# ---------------------------------------------------------------------------------------------- implementation driver

def snap_eqn(eq):
    tl = eq.TermList
    blob = ''
    terms = []
    ok = True
    for i, t in enumerate(tl):
        if t.IsBlob:
            if i != 0:
                ok = False
            blob = t.Term
        else:
            c = t.Constant
            if float(int(c)) != float(c) or '/' in t.Term:
                ok = False
            terms.append([int(c), t.Term.split('*')])
    return {'blob': blob, 'terms': terms, 'ok': ok}


def snap_sector(mod, s):
    from sfc_models.sector import Market
    return {'sid': s.ID, 'code': s.Code, 'country': s.Parent.Code, 'fullcode': s.FullCode, 'hasF': bool(s.HasF),
            'taxable': bool(s.IsTaxable), 'is_market': isinstance(s, Market),
            'excl': [e for (o, e) in mod.IncomeExclusions if o.ID == s.ID],
            'vars': [[k, snap_eqn(e)] for k, e in s.EquationBlock.Equations.items()]}


def snap_zone(mod, zone):
    return [snap_sector(mod, s) for s in zone.GetSectors()]


def build(case):
    from sfc_models.models import Model, Country
    from sfc_models.sector import Sector, Market
    from sfc_models.sector_definitions import MoneyMarket, DepositMarket
    mod = Model()
    objs = []
    mobjs = [None] * len(case['markets'])
    cobjs = {}
    for cn in case['countries']:
        cobjs[cn] = Country(mod, cn, currency='CAD')
    if case['other']:
        cobjs['US'] = Country(mod, 'US', currency='USD')

    def make_markets(cn, pos):
        for j, m in enumerate(case['markets']):
            if m['country'] == cn and m['pos'] == pos and mobjs[j] is None:
                cls = MoneyMarket if m['kind'] == 'money' else DepositMarket
                mobjs[j] = cls(cobjs[cn], m['code'], issuer_short_code=m['issuer'])
    count = {cn: 0 for cn in case['countries']}
    for sd in case['sectors']:
        cn = sd['country']
        make_markets(cn, count[cn])
        if sd['kind'] == 'market':
            s = Market(cobjs[cn], sd['code'])
        else:
            s = Sector(cobjs[cn], sd['code'], has_F=(sd['kind'] == 'F'))
        for v, b in sd['pre']:
            s.AddVariable(v, '', b)
        for e in sd['excl']:
            mod.AddCashFlowIncomeExclusion(s, e)
        objs.append(s)
        count[cn] += 1
    for cn in case['countries']:
        for p in range(count[cn], count[cn] + 3):
            make_markets(cn, p)
    if case['other']:
        for sd in case['other']['sectors']:
            s = Sector(cobjs['US'], sd['code'])
            for v, b in sd['pre']:
                s.AddVariable(v, '', b)
    return mod, objs, mobjs


def run_impl(case):
    """Run the case; one record per call: before / after snapshots (or the exception class)."""
    mod, objs, mobjs = build(case)
    recs = []

    def do_weighting(w):
        s = objs[w['sector']]
        before = snap_sector(mod, s)
        arg = dict((c, t) for c, t in w['pairs']) if w['as_dict'] else [tuple(p) for p in w['pairs']]
        rec = {'kind': 'weighting', 'w': w, 'before': before}
        try:
            s.GenerateAssetWeighting(arg, w['residual'], is_absolute_weighting=w['absolute'])
            rec['after'] = snap_sector(mod, s)
        except Exception as e:     # noqa
            rec['error'] = common.exc_class(e)
        recs.append(rec)
    for w in case['weightings']:
        if w['when'] == 'pre':
            do_weighting(w)
    mod._GenerateFullSectorCodes()
    for w in case['weightings']:
        if w['when'] == 'post':
            do_weighting(w)
    for j in case['order']:
        m = mobjs[j]
        md = case['markets'][j]
        zone = m.CurrencyZone
        before = snap_zone(mod, zone)
        rec = {'kind': md['kind'], 'code': md['code'], 'issuer': md['issuer'], 'mk': m.ID, 'before': before,
               'zone_ids': [s.ID for s in mod.GetSectors() if s.CurrencyZone is zone],
               'long_name': m.LongName}
        try:
            m._GenerateEquations()
            rec['after'] = snap_zone(mod, zone)
        except Exception as e:     # noqa
            rec['error'] = common.exc_class(e)
        recs.append(rec)
    return recs


# ---------------------------------------------------------------------------------------------- blob parsing

def parse_blob(text):
    """Signed sum of products of names and integer constants -> [(coef, [names])], else None."""
    if text.strip() == '':
        return None
    try:
        tree = ast.parse(text, mode='eval').body
    except SyntaxError:
        return None

    def prod(n):
        if isinstance(n, ast.Name):
            return (1, [n.id])
        if isinstance(n, ast.Constant) and isinstance(n.value, (int, float)) and not isinstance(n.value, bool):
            if float(n.value) != int(n.value):
                return None
            return (int(n.value), [])
        if isinstance(n, ast.BinOp) and isinstance(n.op, ast.Mult):
            a, b = prod(n.left), prod(n.right)
            if a is None or b is None:
                return None
            return (a[0] * b[0], a[1] + b[1])
        return None

    def summ(n):
        if isinstance(n, ast.BinOp) and isinstance(n.op, (ast.Add, ast.Sub)):
            a, b = summ(n.left), summ(n.right)
            if a is None or b is None:
                return None
            if isinstance(n.op, ast.Sub):
                b = [(-c, f) for c, f in b]
            return a + b
        if isinstance(n, ast.UnaryOp) and isinstance(n.op, (ast.USub, ast.UAdd)):
            a = summ(n.operand)
            if a is None:
                return None
            return [(-c, f) for c, f in a] if isinstance(n.op, ast.USub) else a
        p = prod(n)
        return None if p is None else [p]
    return summ(tree)


LAG_RE = re.compile(r'^([A-Za-z_][A-Za-z_0-9]*)\(k-1\)$')


# ---------------------------------------------------------------------------------------------- Coq emission

def coq_term(c, f):
    return '(%s, %s)' % (coq_Z(c), coq_list([coq_string(x) for x in f]))


def coq_eqn(e):
    return '(mkEqn %s %s)' % (coq_string(e['blob']), coq_list([coq_term(c, f) for c, f in e['terms']]))


def coq_sector(s):
    return '(mkSector %d%%nat %s %s %s %s %s %s %s %s)' % (
        s['sid'], coq_string(s['code']), coq_string(s['country']), coq_string(s['fullcode']), coq_bool(s['hasF']),
        coq_bool(s['taxable']), coq_bool(s['is_market']), coq_list([coq_string(x) for x in s['excl']]),
        coq_list(['(%s, %s)' % (coq_string(k), coq_eqn(e)) for k, e in s['vars']]))


def coq_xeqn(e):
    p = parse_blob(e['blob'])
    ps = 'None' if p is None else '(Some %s)' % coq_list([coq_term(c, f) for c, f in p])
    return '(%s, %s, %s)' % (coq_string(e['blob']), ps, coq_list([coq_term(c, f) for c, f in e['terms']]))


def coq_xsector(s):
    return '(%d%%nat, %s)' % (s['sid'], coq_list(['(%s, %s)' % (coq_string(k), coq_xeqn(e)) for k, e in s['vars']]))


def lags_of(rec):
    """(lag variable, source) pairs the call installed, read off the after-state in zone order."""
    out = []
    before = {s['sid']: dict((k, e) for k, e in s['vars']) for s in rec['before']}
    for s in rec['after']:
        for v in ('LAG_SUP_' + rec['code'], 'LAG_DEM_' + rec['code']):
            for k, e in s['vars']:
                if k == v and before[s['sid']].get(k) != e:
                    m = LAG_RE.match(e['blob'])
                    if m and not e['terms']:
                        out.append((s['fullcode'] + '__' + k, m.group(1)))
    return out


def emit(rec):
    if rec['kind'] == 'weighting':
        w = rec['w']
        exp = ('(Err %s)' % rec['error']) if 'error' in rec else '(Ok %s)' % coq_xsector(rec['after'])
        return 'weighting_case %s %s %s %s %s' % (
            coq_sector(rec['before']), coq_list(['(%s, %s)' % (coq_string(c), coq_string(t)) for c, t in w['pairs']]),
            coq_string(w['residual']), coq_bool(w['absolute']), exp)
    z = coq_list([coq_sector(s) for s in rec['before']])
    exp = ('(Err %s)' % rec['error']) if 'error' in rec else '(Ok %s)' % coq_list([coq_xsector(s) for s in rec['after']])
    sfx = '_checked' if SINGLE_ISSUER_ENFORCED else ''
    if rec['kind'] == 'money':
        return 'money_case%s %s %s %d%%nat %s %s' % (sfx, coq_string(rec['code']), coq_string(rec['issuer']), rec['mk'], z, exp)
    lags = [] if 'error' in rec else lags_of(rec)
    return 'deposit_case%s %s %s %d%%nat %s %s %s' % (sfx, 
        coq_string(rec['code']), coq_string(rec['issuer']), rec['mk'], z, exp,
        coq_list(['(%s, %s)' % (coq_string(a), coq_string(b)) for a, b in lags]))


def well_formed(rec):
    snaps = [rec['before']] if rec['kind'] == 'weighting' else list(rec['before'])
    if 'after' in rec:
        snaps += [rec['after']] if rec['kind'] == 'weighting' else list(rec['after'])
    return all(e['ok'] for s in snaps for _, e in s['vars'])


# ---------------------------------------------------------------------------------------------- oracle

class Val(object):
    """Random rational valuation of full variable names, two periods (0 = current, 1 = previous)."""

    def __init__(self, seed):
        self.rng = random.Random(seed)
        self.v = {}

    def get(self, name, age=0):
        k = (name, age)
        if k not in self.v:
            self.v[k] = Fraction(self.rng.randint(1, 60), self.rng.randint(1, 12))
        return self.v[k]

    def put(self, name, x, age=0):
        self.v[(name, age)] = x


def ev(text, fullcode, val, age=0):
    """Value of a right-hand side: local names are qualified with the sector's full code, X(k-1) reads the
    previous period, numbers are exact."""
    tree = ast.parse(text if text.strip() else '0', mode='eval').body

    def q(n):
        return n if '__' in n else fullcode + '__' + n

    def go(n):
        if isinstance(n, ast.Name):
            return val.get(q(n.id), age)
        if isinstance(n, ast.Constant):
            return Fraction(str(n.value))
        if isinstance(n, ast.BinOp):
            a, b = go(n.left), go(n.right)
            if isinstance(n.op, ast.Add):
                return a + b
            if isinstance(n.op, ast.Sub):
                return a - b
            if isinstance(n.op, ast.Mult):
                return a * b
            if isinstance(n.op, ast.Div):
                return a / b
        if isinstance(n, ast.UnaryOp) and isinstance(n.op, ast.USub):
            return -go(n.operand)
        if isinstance(n, ast.UnaryOp) and isinstance(n.op, ast.UAdd):
            return go(n.operand)
        if isinstance(n, ast.Call) and isinstance(n.func, ast.Name):
            return val.get(q(n.func.id), age + 1)
        raise ValueError('cannot evaluate ' + text)
    return go(tree)


def rhs_text(e):
    out = e['blob']
    for c, f in e['terms']:
        out += '%+d*%s' % (c, '*'.join(f))
    return out


def vars_of(s):
    return dict((k, e) for k, e in s['vars'])


def oracle_market(rec, replay):
    """Membership, clearing, default demand, interest entries: on the implementation's before/after states."""
    fails = []
    stats = {}
    if 'error' in rec:
        return fails, {'raised': rec['error']}
    code, issuer, kind = rec['code'], rec['issuer'], rec['kind']
    dem, sup, intn = 'DEM_' + code, 'SUP_' + code, 'INT' + code
    before = {s['sid']: s for s in rec['before']}
    after = {s['sid']: s for s in rec['after']}
    m_after = after[rec['mk']]
    others = [s for s in rec['before'] if s['sid'] != rec['mk']]
    if kind == 'money':
        holders = [s for s in others if s['hasF'] and s['code'] != issuer]
        issuers = [s for s in others if s['hasF'] and s['code'] == issuer]
    else:
        holders = [s for s in others if not s['is_market'] and s['code'] != issuer and dem in vars_of(s)]
        issuers = [s for s in others if not s['is_market'] and s['code'] == issuer]
    stats['holders'] = len(holders)
    stats['issuers'] = len(issuers)
    sfx = ':issuer-count' if (ISSUER_POLICY == 'known' and len(issuers) != 1) else ''
    # the zone really is the set of sectors sharing the market's currency zone object
    if sorted(before) != sorted(rec['zone_ids']):
        fails.append({'key': kind + ':zone-mismatch', 'what': 'GetSectors() of the zone differs from the sectors whose '
                      'CurrencyZone is the market\'s', 'replay': replay})
    # --- membership: summands of the market's DEM
    mdem = vars_of(m_after).get(dem)
    want = sorted(h['fullcode'] + '__' + dem for h in holders)
    got = None
    if mdem is not None:
        p = parse_blob(mdem['blob']) if mdem['blob'] else []
        if p is not None:
            allt = [(c, f) for c, f in p] + [(c, f) for c, f in mdem['terms']]
            got = sorted(f[0] for c, f in allt for _ in range(c) if len(f) == 1 and c > 0)
            if any(len(f) != 1 or c <= 0 for c, f in allt):
                got = None
    if got != want:
        missing = sorted(set(want) - set(got or []))
        fails.append({'key': kind + ':holder-skipped',
                      'what': '%s market %s: summands of %s are %r, the zone\'s holders are %r (missing %r)' % (
                          kind, m_after['fullcode'], dem, got, want, missing), 'replay': replay})
    for h in holders:
        if dem not in vars_of(after[h['sid']]):
            fails.append({'key': kind + ':holder-skipped', 'what': 'holder %s does not own %s after the call' % (
                h['fullcode'], dem), 'replay': replay})
    # --- identities under a random valuation (both periods), evaluated in dependency order
    val = Val(json.dumps(replay, sort_keys=True, default=str))
    for age in (1, 0):
        for h in holders:
            hv = vars_of(after[h['sid']]).get(dem)
            if hv is not None and dem not in vars_of(h):
                # default money demand: defined by the call
                x = ev(rhs_text(hv), h['fullcode'], val, age)
                val.put(h['fullcode'] + '__' + dem, x, age)
                if age == 0 and x != val.get(h['fullcode'] + '__F', 0):
                    fails.append({'key': 'money:default-demand',
                                  'what': 'default money demand of %s is "%s", not its financial assets' % (
                                      h['fullcode'], rhs_text(hv)), 'replay': replay})
        if mdem is not None:
            x = ev(rhs_text(mdem), m_after['fullcode'], val, age)
            val.put(m_after['fullcode'] + '__' + dem, x, age)
            tot = sum((val.get(h['fullcode'] + '__' + dem, age) for h in holders), Fraction(0))
            if x != tot and age == 0:
                fails.append({'key': kind + ':holder-skipped',
                              'what': '%s = %s differs from the sum of the holders\' demands %s' % (
                                  m_after['fullcode'] + '__' + dem, x, tot), 'replay': replay})
        for i in issuers:
            iv = vars_of(after[i['sid']]).get(sup)
            if iv is None:
                if age == 0:
                    fails.append({'key': kind + ':not-cleared', 'what': 'issuer %s has no %s' % (i['fullcode'], sup),
                                  'replay': replay})
                continue
            x = ev(rhs_text(iv), i['fullcode'], val, age)
            val.put(i['fullcode'] + '__' + sup, x, age)
            if age == 0 and x != val.get(m_after['fullcode'] + '__' + dem, 0):
                fails.append({'key': kind + ':not-cleared', 'what': 'issuer supply %s = "%s" is not the market demand' % (
                    i['fullcode'] + '__' + sup, rhs_text(iv)), 'replay': replay})
        if issuers or JUDGE_ALL:
            mv = vars_of(m_after).get(sup)
            x = ev(rhs_text(mv), m_after['fullcode'], val, age) if mv is not None else None
            if age == 0 and x != val.get(m_after['fullcode'] + '__' + dem, 0):
                fails.append({'key': kind + ':not-cleared' + sfx, 'what': 'market supply "%s" is not the market demand' % (
                    rhs_text(mv) if mv else None), 'replay': replay})
    # --- interest entries (deposit market, hypotheses of the lemma)
    if kind == 'deposit':
        parts = issuers + holders
        fresh = all(intn not in vars_of(s) or rhs_text(vars_of(s)[intn]) in ('', '0.0') for s in parts)
        hyp = (len(issuers) == 1 or JUDGE_ALL) and fresh and all('F' in vars_of(s) for s in parts)
        stats['interest_hypotheses'] = hyp
        if hyp:
            # current-period values of every variable the call (re)defined in a participant, lag variables first
            for s in parts:
                a = after[s['sid']]
                changed = [(k, e) for k, e in a['vars'] if vars_of(s).get(k) != e and k not in ('F', 'INC', dem, sup)]
                changed.sort(key=lambda ke: 0 if LAG_RE.match(ke[1]['blob']) else 1)
                for k, e in changed:
                    val.put(a['fullcode'] + '__' + k, ev(rhs_text(e), a['fullcode'], val, 0), 0)
            total = Fraction(0)
            entries = []
            for s in rec['before']:
                a = after[s['sid']]
                fb = dict(('*'.join(f), c) for c, f in vars_of(s)['F']['terms']) if 'F' in vars_of(s) else {}
                fa = dict(('*'.join(f), c) for c, f in vars_of(a)['F']['terms']) if 'F' in vars_of(a) else {}
                for name in set(fb) | set(fa):
                    d = fa.get(name, 0) - fb.get(name, 0)
                    if d:
                        x = Fraction(d)
                        for f in name.split('*'):
                            x *= val.get(f if '__' in f else a['fullcode'] + '__' + f, 0)
                        total += x
                        entries.append('%+d*%s__%s' % (d, a['fullcode'], name))
            if total != 0:
                fails.append({'key': 'deposit:interest-does-not-cancel' + sfx,
                              'what': 'deposit market %s: entries booked on the zone\'s F equations %r sum to %s '
                                      'although last period\'s stocks were consistent' % (m_after['fullcode'], entries, total),
                              'replay': replay})
    return fails, stats


def oracle_weighting(rec, replay):
    fails = []
    if 'error' in rec:
        return fails, {'raised': rec['error']}
    w = rec['w']
    codes = list(dict((c, t) for c, t in w['pairs']).keys())
    res = w['residual']
    if res in codes:
        return fails, {'residual_listed': True}
    a = rec['after']
    fc = a['fullcode']
    val = Val(json.dumps(replay, sort_keys=True, default=str))
    av = vars_of(a)
    total = Fraction(0)
    try:
        val.put(fc + '__WGT_' + res, ev(rhs_text(av['WGT_' + res]), fc, val, 0))
        for c in codes + [res]:
            x = ev(rhs_text(av['DEM_' + c]), fc, val, 0)
            total += x
    except (KeyError, ValueError) as e:
        fails.append({'key': 'weighting:demands-do-not-add-up', 'what': 'cannot evaluate the installed definitions: %r' % (e,),
                      'replay': replay})
        return fails, {}
    if total != val.get(fc + '__F', 0):
        fails.append({'key': 'weighting:demands-do-not-add-up',
                      'what': 'demands for %r of sector %s add up to %s, financial assets are %s (residual weight "%s")' % (
                          codes + [res], a['code'], total, val.get(fc + '__F', 0), rhs_text(av['WGT_' + res])),
                      'replay': replay})
    return fails, {'assets': len(codes), 'as_dict': w['as_dict'], 'duplicates': len(codes) != len(w['pairs'])}


def oracle(case, recs):
    fails, stats = [], []
    for i, rec in enumerate(recs):
        replay = {'kind': 'asset', 'case': case, 'op': i}
        if rec['kind'] == 'weighting':
            f, st = oracle_weighting(rec, replay)
        else:
            f, st = oracle_market(rec, replay)
        st['kind'] = rec['kind']
        fails.extend(f)
        stats.append(st)
    return fails, stats


# ---------------------------------------------------------------------------------------------- entry points

# which oracle failures belong to which property (the correspondence is common to both)
KEYS = {
    'C04': ('money:', 'deposit:holder-skipped', 'deposit:not-cleared', 'deposit:zone-mismatch', 'weighting:'),
    'C01': ('deposit:interest-does-not-cancel',),
}


def extra(ctx, out, n_quick=120, n_thorough=1500, keys=None):
    """Append the asset-model correspondence and oracle to an Outcome (called by c04.run / c01.run).
    Oracle failures are kept when their key starts with one of `keys` (default: those of ctx.pid; 'all' = every key)."""
    common.use_impl()
    if keys is None:
        keys = KEYS.get(ctx.pid, 'all')
    n = ctx.scale(n_quick, n_thorough)
    cases, meta = [], []
    dist = {'cases': 0, 'calls': {'money': 0, 'deposit': 0, 'weighting': 0}, 'raised': {}, 'issuers': {}, 'holders': {},
            'countries': {}, 'other_currency_zone': 0, 'weighting_assets': {}, 'weighting_as_dict': 0,
            'weighting_duplicates': 0, 'weighting_residual_listed': 0, 'interest_checked': 0,
            'interest_outside_hypotheses': 0}
    distinct = set()
    for _ in range(n):
        case = gen_case(ctx.rng)
        recs = run_impl(case)
        fails, stats = oracle(case, recs)
        out.failures.extend(f for f in fails if keys == 'all' or f['key'].startswith(tuple(keys)))
        dist['cases'] += 1
        dist['countries'][str(len(case['countries']))] = dist['countries'].get(str(len(case['countries'])), 0) + 1
        dist['other_currency_zone'] += 1 if case['other'] else 0
        nontrivial = False
        for i, (rec, st) in enumerate(zip(recs, stats)):
            dist['calls'][rec['kind']] += 1
            if 'raised' in st:
                dist['raised'][st['raised']] = dist['raised'].get(st['raised'], 0) + 1
            if rec['kind'] != 'weighting' and 'issuers' in st:
                k = '%s:%s' % (rec['kind'], min(st['issuers'], 2))
                dist['issuers'][k] = dist['issuers'].get(k, 0) + 1
                k = '%s:%s' % (rec['kind'], min(st['holders'], 4))
                dist['holders'][k] = dist['holders'].get(k, 0) + 1
                nontrivial = nontrivial or st['holders'] > 0
                if rec['kind'] == 'deposit':
                    if st.get('interest_hypotheses'):
                        dist['interest_checked'] += 1
                    else:
                        dist['interest_outside_hypotheses'] += 1
            if rec['kind'] == 'weighting' and 'assets' in st:
                dist['weighting_assets'][str(st['assets'])] = dist['weighting_assets'].get(str(st['assets']), 0) + 1
                dist['weighting_as_dict'] += 1 if st['as_dict'] else 0
                dist['weighting_duplicates'] += 1 if st['duplicates'] else 0
                nontrivial = nontrivial or st['assets'] > 0
            if st.get('residual_listed'):
                dist['weighting_residual_listed'] += 1
            if not well_formed(rec):
                out.disagreements.append({'asset_case': case, 'op': i, 'why': 'state not representable: non-integer '
                                          'coefficient, division term or blob after the first term'})
                continue
            cases.append(emit(rec))
            meta.append((case, i))
        if nontrivial:
            distinct.add(json.dumps(case, sort_keys=True))
    bad, errs = common.run_bool_cases(FAMILY, REQUIRES, cases, tag=ctx.pid + 'asset', shard=60, jobs=12)
    out.corr_errors.extend(errs)
    for i in bad[:10]:
        case, op = meta[i]
        out.disagreements.append({'asset_case': case, 'op': op, 'coq': cases[i][:600]})
    out.evaluations += len(cases)
    out.nontrivial += len(distinct)
    out.extra['asset_model'] = dist
    if meta:
        out.samples.append({'asset_case': meta[0][0]})
    for t in TRUSTED:
        if t not in out.trusted_base:
            out.trusted_base.append(t)
    for a in ASSUMPTIONS:
        if a not in out.assumptions:
            out.assumptions.append(a)
    return out


def replay(obj):
    """Re-execute a replay object ({'kind': 'asset', 'case': ..., 'op': i}) on the implementation only."""
    common.use_impl()
    r = obj.get('replay', obj) if isinstance(obj, dict) else json.load(open(obj)).get('replay')
    if not r or r.get('kind') != 'asset':
        return 0
    recs = run_impl(r['case'])
    fails, _ = oracle(r['case'], recs)
    keys = set()
    for f in fails:
        if f['key'] not in keys:
            print('FAILS [%s]: %s' % (f['key'], f['what'][:400]))
            keys.add(f['key'])
    print('replay: %s' % ('property violated' if fails else 'property holds on this input'))
    return 1 if fails else 0
