"""Stand-alone driver for harness/gen_market.py (the part of C04 / C01 about goods/labour markets).

    /venv/bin/python /verif/harness/gen_market_selftest.py [--seed N] [--tier quick|thorough] [--replay FILE]

Runs proof_status of the GenMarket property file, the correspondence and the oracle on the tree
common.REPO (SFC_REPO=/path selects another tree), prints a summary and exits 1 on any failure.
With --replay it re-executes a {'kind': 'market', ...} replay against the implementation only.
"""
import argparse
import json
import sys
import os

sys.path.insert(0, os.path.dirname(os.path.abspath(__file__)))
import common

common.use_impl()
import gen_market


def main():
    ap = argparse.ArgumentParser()
    ap.add_argument('--seed', type=int, default=int(os.environ.get('VERIF_SEED', '0')))
    ap.add_argument('--tier', default='quick')
    ap.add_argument('--replay')
    ap.add_argument('--no-proof', action='store_true')
    a = ap.parse_args()
    if a.replay:
        return gen_market.replay(json.load(open(a.replay)))
    ctx = common.Ctx('C04', a.tier, a.seed)
    out = common.Outcome()
    status = 0
    if not a.no_proof:
        for fam, pf in gen_market.PROOFS:
            st = common.proof_status(fam, pf)
            print('proof %s/%s ok=%s theorems=%d broken=%s' % (fam, pf, st['ok'], len(st['theorems']), st['broken']))
            axioms = sorted(set(x for v in st['assumptions'].values() for x in (v or [])))
            print('  axioms:', axioms)
            if not st['ok']:
                status = 1
    gen_market.extra(ctx, out)
    print('evaluations=%d nontrivial=%d disagreements=%d corr_errors=%d failures=%d wall=%.1fs' % (
        out.evaluations, out.nontrivial, len(out.disagreements), len(out.corr_errors), len(out.failures), ctx.elapsed()))
    print('distribution:', json.dumps(out.extra.get('market_model'), sort_keys=True))
    seen = set()
    for f in out.failures:
        if f['key'] in seen:
            continue
        seen.add(f['key'])
        path = common.write_replay('GenMarket', {'property': 'C04', 'kind': 'failing-input', 'key': f['key'],
                                                 'what': f['what'], 'replay': f['replay']}, len(seen))
        print('FAILURE key=%s replay=%s\n   %s' % (f['key'], path, f['what'][:300]))
    for d in out.disagreements[:3]:
        print('DISAGREEMENT:', json.dumps(d['market_case'])[:600])
        print('   ', d['coq'][:1200])
    for e in out.corr_errors[:2]:
        print('CORR ERROR:', e['output'][-800:])
    if out.failures or out.disagreements or out.corr_errors:
        status = 1
    print('RESULT:', 'FAIL' if status else 'OK')
    return status


if __name__ == '__main__':
    sys.exit(main())
