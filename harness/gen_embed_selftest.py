"""Stand-alone driver for harness/gen_embed.py (embedding theorem, coq/GenEmbed).

    /venv/bin/python /verif/harness/gen_embed_selftest.py [--seed N] [--tier quick|thorough] [--no-proof]
"""
import argparse
import json
import sys
import os

sys.path.insert(0, os.path.dirname(os.path.abspath(__file__)))
import common

common.use_impl()
import gen_main
import gen_main2
import gen_embed


def main():
    ap = argparse.ArgumentParser()
    ap.add_argument('--seed', type=int, default=int(os.environ.get('VERIF_SEED', '0')))
    ap.add_argument('--tier', default='quick')
    ap.add_argument('--no-proof', action='store_true')
    ap.add_argument('--pid', default='C18')
    a = ap.parse_args()
    ctx = common.Ctx(a.pid, a.tier, a.seed)
    out = common.Outcome()
    status = 0
    if not a.no_proof:
        for fam, pf in gen_embed.PROOFS:
            st = common.proof_status(fam, pf)
            print('proof %s/%s ok=%s theorems=%d broken=%s' % (fam, pf, st['ok'], len(st['theorems']), st['broken']))
            print('  axioms:', sorted(set(x for v in st['assumptions'].values() for x in (v or []))))
            if not st['ok']:
                status = 1
                print((st.get('log') or '')[-1500:])
    gen_embed.extra(ctx, out)
    print('evaluations=%d nontrivial=%d disagreements=%d corr_errors=%d failures=%d wall=%.1fs' % (
        out.evaluations, out.nontrivial, len(out.disagreements), len(out.corr_errors), len(out.failures), ctx.elapsed()))
    print('distribution:', json.dumps(out.extra.get('embed_model'), sort_keys=True))
    for d in out.disagreements[:3]:
        print('DISAGREEMENT:', d.get('obligation'))
        print('   case    :', json.dumps(d.get('embed_model'))[:1500])
        print('   coq     :', (d.get('coq') or '')[:1500])
    for e in out.corr_errors[:2]:
        print('CORR ERROR:', e['output'][-1500:])
    if out.failures or out.disagreements or out.corr_errors:
        status = 1
    print('RESULT:', 'FAIL' if status else 'OK')
    return status


if __name__ == '__main__':
    sys.exit(main())
