"""Multi-currency C04 (markets clear per currency zone) and the market part of C18's third sentence:
theorems of coq/GenClear2 about the whole-pipeline model `build_run2` (coq/GenMain2), and the evaluation of the
definitions those theorems introduce on generated programs.

Integration (C04; C18 for Main2_market_zone_isolation):

    import gen_clear2
    ... proof_status_many([...] + gen_clear2.PROOFS)
    gen_clear2.extra(ctx, out)                       # appends to out.*, distribution in out.extra['clear2_model']
    ... in replay(path):  if kind == 'clear2': return gen_clear2.replay(obj)

What `extra` does, for programs of gen_common.ProgGen(rng).any() (all four shapes) and variants that exercise the
new definitions (a sector of ANOTHER zone / of another country of the SAME zone owning DEM_<market full code>, a
foreign supplier's own supply variable made exogenous, a portfolio demand overwritten, a market supplied from
two other zones), each rendered with gen_main2.render_program2:

 (1) `Side2.market_members p` — for every goods / labour / money / deposit market the demand variables the model
     says the market sums (exactly the sectors of the market's CURRENCY ZONE owning the variable) and its suppliers
     with "in the market's zone?" — is compared in Coq with the same lists read by the harness from the object
     model BEFORE Model._GenerateEquations() runs (CurrencyZone.GetSectors(), EquationBlock keys, Parent,
     OtherSuppliers, ResidualSupply, IssuerShortCode, HasF): a difference is a disagreement;
 (2) the same lists are compared, on the implementation alone, with what the market really did (parsed terms of
     the emitted rows: summands of <market>__DEM_<code>; each supplier's own supply variable = allocation, times
     EXT_XR__<market currency>_<supplier currency> for a supplier of another zone; -demand / +supply booked on F;
     no sector of another zone booked unless it is a declared supplier): a difference is an oracle failure with a
     replay (kind 'clear2');
 (3) the decidable side conditions `no_conflict2b` (incl. its recomputation checks for markets supplied from two or
     more other zones), `no_conflict2c` and `portfolio_ok2` are evaluated on every well-formed generated program
     (reported; expected false on the variants built to break them, which is checked).
"""
import copy
import json
import re

import common
from common import coq_string, coq_list, coq_bool
import gen_common
import gen_main
import gen_main2
from gen_main import OutOfLanguage

PROOFS = [('GenClear2', 'PropClear2.v')]
FAMILY = 'GenClear2'
REQUIRES = ['From SFC.Base Require Import Res Str.', 'From SFC.Gen Require Import Fx Zone.',
            'From SFC.GenMain2 Require Import Program Classes Main Program2 Main2 Conflict Conflict2.',
            'From SFC.GenClear2 Require Import Side2 CaseDefs3.']

TRUSTED = [
    'coq/GenClear2 is about the hand-written pipeline model coq/GenMain2/Main2.v (tied to the code by the whole-program '
    'correspondence of harness/gen_main2.py); its own readings (Side2.market_members: zone of a market, demanders, '
    'suppliers) are compared with the object model by harness/gen_clear2.py; demanders / suppliers / holders are read '
    'from public attributes before _GenerateEquations (CurrencyZone.GetSectors, EquationBlock, Parent, OtherSuppliers, '
    'ResidualSupply, IssuerShortCode, HasF)',
]
ASSUMPTIONS = [
    'multi-currency C04 theorems hold under the decidable side conditions no_conflict2b (implied by no_conflict2) / '
    'no_conflict2c / portfolio_ok2 (evaluated on every generated program; shown necessary by _refuted theorems); for a '
    'market supplied from two or more OTHER currency zones no_conflict2b contains evaluated (not proved) recomputation '
    'checks: the single-foreign-zone group model re-run per supplier currency gives the same states of the market\'s '
    'zone and of that currency\'s zone as the real step',
]


# ----------------------------------------------------------------------------------------------
# implementation side

def snapshot_members(mod):
    """Per market, in Model.GetSectors() order: (full code, demand variables it must sum, suppliers as
    (full code, same zone?)) — from public attributes, before _GenerateEquations."""
    from sfc_models.sector import Market
    from sfc_models.sector_definitions import MoneyMarket, DepositMarket
    out = []
    for m in mod.GetSectors():
        if not isinstance(m, Market):
            continue
        code = m.Code
        zone = m.CurrencyZone.GetSectors()
        if isinstance(m, MoneyMarket):
            dem = [s.FullCode + '__DEM_' + code for s in zone if s.HasF and s.Code != m.IssuerShortCode]
            sup = [(s.FullCode, True) for s in zone if s.HasF and s.Code == m.IssuerShortCode]
            kind = 'money'
        elif isinstance(m, DepositMarket):
            dem = [s.FullCode + '__DEM_' + code for s in zone
                   if not isinstance(s, Market) and s.Code != m.IssuerShortCode and ('DEM_' + code) in s.EquationBlock.Equations]
            sup = [(s.FullCode, True) for s in zone if not isinstance(s, Market) and s.Code == m.IssuerShortCode]
            kind = 'deposit'
        else:
            dem = []
            for s in zone:
                if s.ID == m.ID:
                    continue
                vn = ('DEM_' + code) if s.Parent == m.Parent else ('DEM_' + m.FullCode)
                if vn in s.EquationBlock.Equations:
                    dem.append(s.FullCode + '__' + vn)
            sups = [s for s, _ in m.OtherSuppliers]
            if m.ResidualSupply is not None:
                sups.append(m.ResidualSupply)
            else:
                cand = [s for s in m.Parent.GetSectors() if s.ID != m.ID and ('SUP_' + code) in s.EquationBlock.Equations]
                if len(cand) == 1:
                    sups.append(cand[0])
            sup = [(s.FullCode, s.CurrencyZone.ID == m.CurrencyZone.ID) for s in sups]
            kind = 'goods'
        out.append({'market': m.FullCode, 'kind': kind, 'demand': dem, 'supply': sup, 'id': m.ID,
                    'currency': m.CurrencyZone.Currency,
                    'foreign_currencies': sorted(set(s.CurrencyZone.Currency for s in sups
                                                     if s.CurrencyZone.ID != m.CurrencyZone.ID)) if kind == 'goods' else []})
    return out


def _terms(rhs):
    """Signed products of an emitted right-hand side: [(sign, sorted factors)] (blanks removed; '0.0' / '' -> [])."""
    t = rhs.replace(' ', '')
    if t in ('', '0.0'):
        return []
    out = []
    for m in re.finditer(r'([+-]?)([^+-]+)', t):
        out.append(('-' if m.group(1) == '-' else '+', tuple(sorted(m.group(2).split('*')))))
    return out


def run_impl(prog):
    """('err', class) or ('ok', members snapshot, {row name: rhs}, problems found by the implementation-only checks)."""
    from sfc_models.sector import Market
    try:
        mod, objs = gen_common.build(prog)
        mod._GenerateFullSectorCodes()
        snap = snapshot_members(mod)
        zones = {}
        for s in mod.GetSectors():
            zones[s.FullCode] = s.CurrencyZone.Currency
        before = {s.FullCode: set(s.EquationBlock.Equations) for s in mod.GetSectors()}
        mod._GenerateEquations()
        mod._FixAliases()
        mod._GenerateRegisteredCashFlows()
        mod._ProcessExogenous()
        text = mod._CreateFinalEquations()
    except Exception as e:                                  # noqa: the class is the observable
        return ('err', common.exc_class(e))
    raw, _parser = gen_common.parse_final(text)
    rows = {v: x.replace(' ', '') for v, (k, x) in raw if k == 'def'}
    kinds = {v: k for v, (k, x) in raw}
    problems = []
    by_full = {s.FullCode: s for s in mod.GetSectors()}
    for e in snap:
        m = by_full[e['market']]
        code = m.Code
        mdem = e['market'] + '__DEM_' + code
        if kinds.get(mdem) != 'def':
            continue                                        # total demand overwritten / exogenous: nothing to compare
        got = _terms(rows.get(mdem, ''))
        want = [('+', (d,)) for d in e['demand']]
        if sorted(got) != sorted(want):
            problems.append(('demand-members', '%s sums %s, the zone declares %s' % (mdem, got, want)))
        if e['kind'] != 'goods':
            continue
        msup = e['market'] + '__SUP_' + code
        if kinds.get(msup) == 'def' and _terms(rows.get(msup, '')) != [('+', (mdem,))]:
            problems.append(('clears', '%s = %s, not total demand' % (msup, rows.get(msup))))
        fcs = [fc for fc, _ in e['supply']]
        if fcs and len(set(fcs)) == len(fcs):
            res_row = e['market'] + '__SUP_' + fcs[-1]
            want_res = [('+', (msup,))] + [('-', (e['market'] + '__SUP_' + fc,)) for fc in fcs[:-1]]
            if kinds.get(res_row) == 'def' and sorted(_terms(rows.get(res_row, ''))) != sorted(want_res):
                problems.append(('allocated', '%s = %s, not total supply less the other allocations %s' %
                                 (res_row, rows.get(res_row), fcs[:-1])))
        for fc, same in e['supply']:
            s = by_full[fc]
            mv = e['market'] + '__SUP_' + fc
            own = fc + '__' + m.GetSupplierTerm(s)
            credited = (mv,) if same else tuple(sorted((mv, 'EXT_XR__%s_%s' % (e['currency'], zones[fc]))))
            if kinds.get(own) == 'def' and ('+', credited) not in _terms(rows.get(own, '')):
                problems.append(('supplier-amount', '%s = %s lacks +%s' % (own, rows.get(own), '*'.join(credited))))
            booked = (own,) if same else credited
            if kinds.get(fc + '__F') == 'def' and ('+', booked) not in _terms(rows.get(fc + '__F', '')):
                problems.append(('supplier-cash-flow', '%s__F = %s lacks +%s' % (fc, rows.get(fc + '__F'), '*'.join(booked))))
        for d in e['demand']:
            fc = d.split('__')[0]
            if kinds.get(fc + '__F') == 'def' and ('-', (d,)) not in _terms(rows.get(fc + '__F', '')):
                problems.append(('demander-cash-flow', '%s__F = %s lacks -%s' % (fc, rows.get(fc + '__F'), d)))
        # zone isolation: a sector of another zone that is not a declared supplier is not booked by this market
        declared = set(fc for fc, _ in e['supply'])
        for fc, cur in zones.items():
            if cur == e['currency'] or fc in declared or fc not in by_full or kinds.get(fc + '__F') != 'def':
                continue
            for sg, fs in _terms(rows.get(fc + '__F', '')):
                if any(f.startswith(e['market'] + '__') for f in fs) or fs == (fc + '__DEM_' + e['market'],):
                    problems.append(('zone-isolation', '%s__F = %s books a term of market %s of another zone' %
                                     (fc, rows.get(fc + '__F'), e['market'])))
    return ('ok', snap, rows, problems)


def emit_members_case(coq_prog, res):
    if res[0] == 'err':
        exp = '[]'
    else:
        exp = coq_list(['(%s, %s, %s)' % (coq_string(e['market']), coq_list([coq_string(d) for d in e['demand']]),
                                          coq_list(['(%s, %s)' % (coq_string(fc), coq_bool(same)) for fc, same in e['supply']]))
                        for e in res[1]])
    return 'members_case %s %s' % (coq_prog, exp)


# ----------------------------------------------------------------------------------------------
# variants that exercise the new definitions

def _zones(prog):
    """{country id: currency} as the constructors assign them (Country: own code; Region: the default currency)."""
    cur, default = {}, 'LOCAL'
    for st in prog['steps']:
        if st['kind'] == 'country':
            c = st.get('currency')
            if c is None:
                c = default if st.get('region') else st['code']
            cur[st['id']] = c
            default = c
        elif st['kind'] == 'external':
            cur[st['id']] = 'NUMERAIRE'
            default = 'NUMERAIRE'
    return cur


def variant(rng, prog):
    """(program, label, expectation) or None; expectation: None, 'c_false' (no_conflict2c must be false) or
    'pf_false' (portfolio_ok2 must be false)."""
    p = copy.deepcopy({'maxtime': prog['maxtime'], 'steps': prog['steps'], 'shape': prog.get('shape'),
                       'weighted': gen_common.strip_prog(prog)['weighted'] if 'maxtime' in prog else []})
    steps = p['steps']
    secs = [s for s in steps if s['kind'] == 'sector']
    cur = _zones(p)
    names = gen_main2.static_names2(p)
    ccode = {s['id']: s['code'] for s in steps if s['kind'] == 'country'}
    markets = [s for s in secs if s['cls'] == 'Market']
    holders = [s for s in secs if s['cls'] in ('Household', 'HouseholdWithExpectations', 'ConsolidatedGovernment', 'Capitalists')]
    kind = rng.choice(['foreign_dem', 'foreign_dem', 'zone_dem', 'sup_exo', 'sup_exo', 'pf_over', 'two_foreign', 'two_foreign', 'sup_prior'])
    if kind in ('foreign_dem', 'zone_dem'):
        pairs = [(m, s) for m in markets for s in holders if s['country'] != m['country'] and
                 ((cur[s['country']] != cur[m['country']]) == (kind == 'foreign_dem'))]
        if not pairs:
            return None
        m, s = rng.choice(pairs)
        steps.append({'kind': 'op', 'op': 'AddVariable', 'sector': s['id'], 'name': 'DEM_' + names[m['id']],
                      'eqn': str(gen_common._fmt(rng.uniform(0.5, 3), 2))})
        return p, kind, None
    foreign = [o for o in steps if o['kind'] == 'op' and o['op'] == 'AddSupplier' and
               cur[[s for s in secs if s['id'] == o['supplier']][0]['country']] !=
               cur[[s for s in secs if s['id'] == o['market']][0]['country']]]
    if kind in ('sup_exo', 'sup_prior'):
        if not foreign:
            return None
        o = rng.choice(foreign)
        m = [s for s in secs if s['id'] == o['market']][0]
        name = 'SUP_' + ccode[m['country']] + '_' + m['code']
        if kind == 'sup_exo':
            steps.append({'kind': 'op', 'op': 'SetExogenous', 'sector': o['supplier'], 'name': name, 'value': '[1.0]*10'})
        else:
            steps.append({'kind': 'op', 'op': 'AddVariable', 'sector': o['supplier'], 'name': name, 'eqn': '2.5'})
        return p, kind, 'c_false'
    if kind == 'pf_over':
        w = [o for o in steps if o['kind'] == 'op' and o['op'] == 'AssetWeighting']
        if not w:
            return None
        o = rng.choice(w)
        c = rng.choice([x for x, _ in o['weights']] + [o['residual']])
        steps.append({'kind': 'op', 'op': 'AddVariable', 'sector': o['sector'], 'name': 'DEM_' + c, 'eqn': '7.'})
        return p, kind, 'pf_false'
    if kind == 'two_foreign':
        zs = sorted(set(v for v in cur.values() if v != 'NUMERAIRE'))
        if len(zs) < 3:
            return None
        goods = [m for m in markets if m['code'].startswith('GOOD') or True]
        rng.shuffle(goods)
        for m in goods:
            others = [s for s in secs if s['cls'] == 'FixedMarginBusiness' and cur[s['country']] != cur[m['country']]]
            byz = {}
            for s in others:
                byz.setdefault(cur[s['country']], s)
            already = set(o['supplier'] for o in steps if o['kind'] == 'op' and o['op'] == 'AddSupplier' and o['market'] == m['id'])
            pick = [s for s in byz.values() if s['id'] not in already]
            if len(byz) >= 2 and pick:
                for s in pick:
                    steps.append({'kind': 'op', 'op': 'AddSupplier', 'market': m['id'], 'supplier': s['id'],
                                  'eqn': '%s*DEM_%s' % (gen_common._fmt(rng.uniform(0.05, 0.2), 2), m['code'])})
                return p, kind, None
        return None
    return None


def gen_programs(ctx, n):
    pg = gen_common.ProgGen(ctx.rng)
    out = []
    for _ in range(n):
        prog = pg.any()
        out.append((prog, prog.get('shape'), None))
        if ctx.rng.random() < 0.6:
            for _try in range(4):
                v = variant(ctx.rng, prog)
                if v is not None:
                    out.append(v)
                    break
        if ctx.rng.random() < 0.15:
            d = gen_main2.damage2(ctx.rng, prog)            # error paths / overwritten definitions: membership only
            if d is not None:
                out.append((d[0], 'damaged:' + str(d[1]), 'skip'))
    return out


def extra(ctx, out, quick_n=60, thorough_n=600):
    n = ctx.scale(quick_n, thorough_n)
    mcases, metas, nc_cases, nb_cases, pf_cases, exp_cases, exp_meta = [], [], [], [], [], [], []
    dist = {'programs': 0, 'shapes': {}, 'variants': {}, 'errors': {}, 'out_of_language': 0, 'markets': 0,
            'goods_markets': 0, 'money_deposit_markets': 0, 'foreign_suppliers': 0, 'markets_with_foreign_supplier': 0,
            'demand_variables': 0, 'other_zone_owner_not_counted': 0, 'same_zone_other_country_counted': 0,
            'impl_checks': 0}
    distinct = set()
    for prog, label, expect in gen_programs(ctx, n):
        try:
            try:
                names = gen_main2.final_names2(prog)
            except Exception:
                names = gen_main2.static_names2(prog)
            coq_prog = gen_main2.render_program2(prog, names)
        except (OutOfLanguage, KeyError):
            dist['out_of_language'] += 1
            continue
        res = run_impl(prog)
        meta = gen_common.strip_prog(prog) if 'infos' in prog else prog
        mcases.append(emit_members_case(coq_prog, res))
        metas.append(meta)
        dist['programs'] += 1
        if expect is None and label in ('single', 'federated', 'multizone', 'gold'):
            dist['shapes'][label] = dist['shapes'].get(label, 0) + 1
        else:
            dist['variants'][label] = dist['variants'].get(label, 0) + 1
        if res[0] == 'err':
            dist['errors'][res[1]] = dist['errors'].get(res[1], 0) + 1
            continue
        snap, rows, problems = res[1], res[2], res[3]
        if expect == 'skip':
            continue
        if expect is None:
            nc_cases.append('no_conflict2c %s' % coq_prog)
            nb_cases.append('no_conflict2b %s' % coq_prog)
            if any(s['kind'] == 'op' and s['op'] == 'AssetWeighting' for s in prog['steps']):
                pf_cases.append('portfolio_ok2 %s' % coq_prog)
        elif expect == 'c_false':
            exp_cases.append('negb (no_conflict2c %s)' % coq_prog)
            exp_meta.append((label, meta))
        elif expect == 'pf_false':
            exp_cases.append('negb (portfolio_ok2 %s)' % coq_prog)
            exp_meta.append((label, meta))
        dist['impl_checks'] += 1
        for e in snap:
            dist['markets'] += 1
            dist['goods_markets' if e['kind'] == 'goods' else 'money_deposit_markets'] += 1
            dist['demand_variables'] += len(e['demand'])
            nf = sum(1 for _, same in e['supply'] if not same)
            dist['foreign_suppliers'] += nf
            dist['markets_with_foreign_supplier'] += nf > 0
            dist['markets_supplied_from_two_other_zones'] = dist.get('markets_supplied_from_two_other_zones', 0) + (
                len(e['foreign_currencies']) > 1)
            if e['kind'] == 'goods':
                long = '__DEM_' + e['market']
                dist['same_zone_other_country_counted'] += sum(1 for d in e['demand'] if d.endswith(long))
                dist['other_zone_owner_not_counted'] += sum(1 for k in rows if k.endswith(long) and k not in e['demand'] and
                                                            k.split('__')[0] != e['market'] and long != '__DEM_' + e['market'].split('_')[-1])
        for key, what in problems[:3]:
            out.failures.append({'key': 'clear2:' + key, 'what': what, 'replay': {'kind': 'clear2', 'program': meta}})
        distinct.add(json.dumps([(e['market'], e['demand'], e['supply']) for e in snap], sort_keys=True))
    bad, errs = common.run_bool_cases(FAMILY, REQUIRES, mcases, tag='clear2m' + ctx.pid, shard=10)
    out.corr_errors.extend(errs)
    for i in bad[:10]:
        out.disagreements.append({'clear2_program': metas[i], 'coq': mcases[i][:3000]})
    nc_bad, nc_errs = common.run_bool_cases(FAMILY, REQUIRES, nc_cases, tag='clear2c' + ctx.pid, shard=10)
    nb_bad, nb_errs = common.run_bool_cases(FAMILY, REQUIRES, nb_cases, tag='clear2b' + ctx.pid, shard=10)
    pf_bad, pf_errs = common.run_bool_cases(FAMILY, REQUIRES, pf_cases, tag='clear2p' + ctx.pid, shard=10)
    ex_bad, ex_errs = common.run_bool_cases(FAMILY, REQUIRES, exp_cases, tag='clear2x' + ctx.pid, shard=10)
    out.corr_errors.extend(nc_errs + nb_errs + pf_errs + ex_errs)
    for i in ex_bad[:5]:
        out.disagreements.append({'clear2_program': exp_meta[i][1], 'coq': exp_cases[i][:3000],
                                  'what': 'side condition expected to fail on variant %s' % exp_meta[i][0]})
    dist['no_conflict2b_evaluated'] = len(nb_cases)
    dist['no_conflict2b_true'] = len(nb_cases) - len(nb_bad)
    dist['no_conflict2c_evaluated'] = len(nc_cases)
    dist['no_conflict2c_true'] = len(nc_cases) - len(nc_bad)
    dist['portfolio_ok2_evaluated'] = len(pf_cases)
    dist['portfolio_ok2_true'] = len(pf_cases) - len(pf_bad)
    dist['expected_false_evaluated'] = len(exp_cases)
    dist['expected_false_confirmed'] = len(exp_cases) - len(ex_bad)
    out.evaluations += len(mcases)
    out.nontrivial += len(distinct)
    # minimum-count guard: an empty or almost empty stream must not pass for a tie
    n_eval__ = max([v for k, v in dist.items() if isinstance(v, int) and k in ('programs', 'pairs', 'cases', 'sets', 'joints', 'evaluated')] + [0])
    if n_eval__ < 5:
        out.corr_errors.append('gen_clear2: only %d cases were evaluated (distribution %r)' % (n_eval__, {k: v for k, v in dist.items() if isinstance(v, int)}))

    out.extra['clear2_model'] = dist
    out.trusted_base = list(out.trusted_base or []) + TRUSTED
    out.assumptions = list(out.assumptions or []) + ASSUMPTIONS
    if metas:
        out.samples.append({'clear2_program': metas[0]})
    return out


def show_model(prog):
    try:
        names = gen_main2.final_names2(prog)
    except Exception:
        names = gen_main2.static_names2(prog)
    return common.coq_show(FAMILY, REQUIRES, 'show_members %s' % gen_main2.render_program2(prog, names))


def replay(obj):
    """Re-run the implementation-only checks of a recorded program; 1 if the property is violated on it."""
    r = obj.get('replay', obj) or {}
    if r.get('kind') != 'clear2':
        return 0
    res = run_impl(r['program'])
    if res[0] == 'err':
        print('clear2 replay: the implementation raises', res[1])
        return 0
    for key, what in res[3]:
        print('clear2 replay: %s: %s' % (key, what))
    return 1 if res[3] else 0
