"""Drivers of the generator-family checks that validate the implementation's *emitted equations*
with the verified checkers of coq/Gen (C01 C04 C05 C07).  One generic loop:

  for each generated program:  build with the implementation -> FinalEquations -> system
      -> targets of the property (built from public object attributes)  -> Coq: every target is
      implied to be zero by the emitted system (check_zero, kernel-evaluated, sound by theorem)
      -> numeric oracle on the solved series of the implementation (failing-input search)

A target that the checker cannot certify and the numeric oracle does not refute is a broken
obligation (`no-failing-input-found`); one the oracle refutes is a violation with a replay.
"""
import json
import math
import time

import common
import gen_common as G
from common import coq_string, coq_list, coq_nat


def analyse(prog):
    mod, objs = G.build(prog)
    declared_before = {s.ID: set(s.EquationBlock.GetEquationList()) for s in mod.GetSectors()}
    text = G.generate_equations(mod)
    system, parser = G.system_of(text)
    names = [v for v, _ in system]
    return {'mod': mod, 'objs': objs, 'text': text, 'system': system, 'parser': parser, 'names': names,
            'declared_before': declared_before}


def hints(a):
    system, mod = a['system'], a['mod']
    names = a['names']
    lag_f = [v for v in names if v.endswith('__LAG_F')]
    cut = G.choose_cut(system, avoid=G.avoid_set(mod)) + lag_f
    nz = [v for v in names if v.startswith('EXT_XR__')] + [v for v in names if v.endswith('__GOLDPRICE') or v == 'EXT_GOLD__PRICE']
    return cut, nz


def solve(prog):
    """Fresh build + Model.main(); returns the time series dict or the exception."""
    mod, objs = G.build(prog)
    # the iteration cap is a solver setting, not the generator's subject: give the fixed-point iteration room so that
    # marginally slow systems (and larger joint systems, whose summed error measure falls more slowly) still solve
    mod.EquationSolver.MaxIterations = 3000
    try:
        mod.main()
    except Exception as e:  # noqa
        return None, e, mod
    return dict(mod.EquationSolver.TimeSeries), None, mod


def eval_ast(t, env):
    k = t[0]
    if k == 'num':
        return float(t[1])
    if k == 'var':
        return env[t[1]]
    if k == 'neg':
        return -eval_ast(t[1], env)
    if k == 'pos':
        return eval_ast(t[1], env)
    if k == 'add':
        return eval_ast(t[1], env) + eval_ast(t[2], env)
    if k == 'sub':
        return eval_ast(t[1], env) - eval_ast(t[2], env)
    if k == 'mul':
        return eval_ast(t[1], env) * eval_ast(t[2], env)
    if k == 'div':
        return eval_ast(t[1], env) / eval_ast(t[2], env)
    raise ValueError(k)


def numeric_check(ts, targets, kmin=2, rel=2e-4):
    """Evaluate each target on the solved series at periods >= kmin.  Returns list of
    (target index, period, value, scale) exceeding the tolerance."""
    bad = []
    if not ts:
        return bad
    n = min(len(v) for v in ts.values())
    for i, (label, t) in enumerate(targets):
        for k in range(kmin, n):
            env = {v: s[k] for v, s in ts.items()}
            try:
                val = eval_ast(t, env)
            except ZeroDivisionError:
                continue
            except KeyError as e:
                # a variable the property talks about does not exist in the solved model
                bad.append((i, k, float('nan'), 0.0, 'variable %s is not defined by the model' % (e.args[0],)))
                break
            scale = max([1.0] + [abs(env[x]) for x in G.ast_names(t) if x in env])
            if not math.isfinite(val) or abs(val) > rel * scale:
                bad.append((i, k, val, scale, None))
                break
    return bad


def run_targets(ctx, pid, make_targets, n_quick, n_thorough, gen=None, rule='', shard=8, kmin=2, family='Gen'):
    """Generic loop.  make_targets(a) -> list of (label, ast) expected to vanish."""
    out = common.Outcome()
    pg = G.ProgGen(ctx.rng)
    n = ctx.scale(n_quick, n_thorough)
    cases, metas = [], []
    stats = {'shapes': {}, 'equations_max': 0, 'targets': 0, 'programs_solved': 0, 'programs_not_converging': 0,
             'unsupported': 0}
    seen = set()
    t_gen = time.time()
    for i in range(n):
        prog = gen(pg) if gen else pg.any()
        try:
            a = analyse(prog)
        except G.Unsupported:
            stats['unsupported'] += 1
            continue
        targets = make_targets(a, prog)
        if not targets:
            continue
        cut, nz = hints(a)
        case = 'zero_case %s %s %s %s %s' % (
            G.coq_sys(a['system']), coq_list([coq_string(c) for c in cut]), coq_list([coq_string(c) for c in nz]),
            coq_nat(len(a['system']) + 5), coq_list([G.coq_expr(t) for _, t in targets]))
        cases.append(case)
        metas.append({'prog': G.strip_prog(prog), 'targets': targets, 'cut': cut, 'nz': nz})
        stats['shapes'][prog['shape']] = stats['shapes'].get(prog['shape'], 0) + 1
        stats['equations_max'] = max(stats['equations_max'], len(a['system']))
        stats['targets'] += len(targets)
        seen.add(json.dumps(G.strip_prog(prog), sort_keys=True))
        # numeric oracle on the implementation's own solution
        ts, err, _ = solve(prog)
        if ts is None:
            stats['programs_not_converging'] += 1
        else:
            stats['programs_solved'] += 1
            for (ti, k, val, scale, note) in numeric_check(ts, targets, kmin=kmin):
                label = targets[ti][0]
                out.failures.append({
                    'key': '%s:%s' % (pid, label.split('|')[0]),
                    'what': ('%s: identity "%s": %s' % (pid, label, note)) if note else
                            '%s: identity "%s" evaluates to %.6g at period %d on the solved series (scale %.4g)' % (
                        pid, label, val, k, scale),
                    'replay': {'kind': 'program', 'prog': G.strip_prog(prog), 'target': label, 'period': k}})
    stats['generation_wall_s'] = round(time.time() - t_gen, 1)
    bad, errs = common.run_bool_cases(family, G.GEN_REQUIRES, cases, tag=pid, shard=shard, jobs=14)
    out.corr_errors = errs
    for i in bad[:10]:
        # which targets fail, and is there a numeric counterexample?
        m = metas[i]
        out.disagreements.append({'program': m['prog'], 'uncertified_targets': which_fail(cases[i]),
                                  'labels': [l for l, _ in m['targets']]})
    out.evaluations = len(cases)
    out.nontrivial = len(seen)
    out.samples = [{'program': metas[j]['prog'], 'targets': [l for l, _ in metas[j]['targets']]} for j in (0, len(metas) // 2)] if metas else []
    out.extra = {'input_distribution': stats, 'programs': len(cases), 'source_hashes': common.source_hashes(
        ['sfc_models/sector.py', 'sfc_models/models.py', 'sfc_models/sector_definitions.py', 'sfc_models/external.py',
         'sfc_models/equation.py'])}
    out.rule = rule
    return out, metas


def which_fail(case):
    term = case.replace('zero_case', 'failing 0%nat', 1)
    return common.coq_show('Gen', G.GEN_REQUIRES, term)[-200:]


def replay_program(path, make_targets, kmin=2):
    obj = json.load(open(path))
    r = obj.get('replay') or {}
    if r.get('kind') != 'program':
        print('replay names a proof/validation obligation, nothing to execute:', json.dumps(obj)[:600])
        return 1
    prog = r['prog']
    a = analyse(prog)
    targets = make_targets(a, prog)
    ts, err, _ = solve(prog)
    if ts is None:
        print('model does not solve: %r' % err)
        return 1
    bad = numeric_check(ts, targets, kmin=kmin)
    for ti, k, val, scale, note in bad:
        print('FAILS: %s = %.6g at period %d %s' % (targets[ti][0], val, k, note or ''))
    print('replay: %s' % ('property violated' if bad else 'property holds on this input'))
    return 1 if bad else 0
