"""C04 — markets clear and supply is fully allocated among suppliers.

Proof: coq/Gen/PropC04.v — soundness of the identity certificates for every emitted system, plus
the portfolio identity of GenerateAssetWeighting for every list of weights.
Validation on every run: for every market of every generated program the identities
  total demand = sum of the demands of every sector of the zone that declares one,
  total supply = total demand,  sum of supplier allocations = total supply,
  each supplier's own supply variable = its allocation (x cross rate for a foreign supplier),
  issuer/holders of money and deposit markets, portfolio demands add up to financial assets,
  default money demand = financial assets
are handed, together with the emitted equations, to the kernel-evaluated checker.  The set of
demanders / suppliers / holders is computed by the harness from the public object model
(CurrencyZone.GetSectors, EquationBlock keys, ResidualSupply / OtherSuppliers), independently of
what the market aggregated.  Oracle: the same identities on the solved series, every k >= 1.
"""
import common
import gen_common as G
import gen_checks as GC
import gen_main
import gen_main2
import gen_clear2
import gen_plumb
import gen_market
import gen_asset

PID = 'C04'
FAMILY = 'Gen'
PROPFILE = 'PropC04.v'
LEVEL = 'proof'


def V(n):
    return ('var', n)


def fullname(s, name):
    """full name of a variable the property expects the sector to have (it may be missing on a
    broken tree: the identity then fails instead of the harness)"""
    return s.FullCode + '__' + name


def make_targets(a, prog):
    from sfc_models.sector import Market
    from sfc_models.sector_definitions import MoneyMarket, DepositMarket
    mod = a['mod']
    names = set(a['names'])
    out = []
    for m in mod.GetSectors():
        if not isinstance(m, Market):
            continue
        code = m.Code
        sup = m.GetVariableName('SUP_' + code)
        dem = m.GetVariableName('DEM_' + code)
        out.append(('clears|%s' % m.FullCode, G.sum_ast([(1, V(sup)), (-1, V(dem))])))
        # demanders: every sector of the zone (other than the market) that declares DEM_<market>
        dem_terms = []
        for s in m.CurrencyZone.GetSectors():
            if s.ID == m.ID:
                continue
            if isinstance(m, DepositMarket) and isinstance(s, Market):
                continue
            # goods/labour markets name a foreign-country demand DEM_<market full code>; the financial
            # asset markets look for DEM_<code> in every sector of the zone
            if isinstance(m, (MoneyMarket, DepositMarket)) or s.Parent == m.Parent:
                vn = 'DEM_' + code
            else:
                vn = 'DEM_' + m.FullCode
            if vn in s.EquationBlock.Equations:
                dem_terms.append((-1, V(s.GetVariableName(vn))))
        out.append(('demand-members|%s' % m.FullCode, G.sum_ast([(1, V(dem))] + dem_terms)))
        if isinstance(m, (MoneyMarket, DepositMarket)):
            issuers = [s for s in m.CurrencyZone.GetSectors() if s.Code == m.IssuerShortCode and
                       ('SUP_' + code) in s.EquationBlock.Equations]
            for s in issuers:
                out.append(('issuer-supply|%s' % m.FullCode,
                            G.sum_ast([(1, V(s.GetVariableName('SUP_' + code))), (-1, V(dem))])))
            if isinstance(m, MoneyMarket):
                for s in m.CurrencyZone.GetSectors():
                    if s.HasF and s.Code != m.IssuerShortCode and ('DEM_' + code) not in a['declared_before'].get(s.ID, ()):
                        out.append(('default-money-demand|%s' % s.FullCode,
                                    G.sum_ast([(1, V(fullname(s, 'DEM_' + code))), (-1, V(fullname(s, 'F')))])))
            continue
        # goods / labour markets: suppliers
        sups = []
        for s, _ in m.OtherSuppliers:
            if s.ID not in [x.ID for x in sups]:
                sups.append(s)
        if m.ResidualSupply is not None and m.ResidualSupply.ID not in [x.ID for x in sups]:
            sups.append(m.ResidualSupply)
        alloc = [(1, V(sup))]
        for s in sups:
            mv = fullname(m, 'SUP_' + s.FullCode)
            alloc.append((-1, V(mv)))
            own = fullname(s, m.GetSupplierTerm(s))
            if s.CurrencyZone.ID == m.CurrencyZone.ID:
                t = G.sum_ast([(1, V(own)), (-1, V(mv))])
            else:
                cross = 'EXT_XR__%s_%s' % (m.CurrencyZone.Currency, s.CurrencyZone.Currency)
                t = ('sub', V(own), ('mul', V(mv), V(cross)))
            # a sector that supplies through a pre-existing constant (Household SUP_LAB = '0.') keeps it
            out.append(('supplier-amount|%s<-%s' % (m.FullCode, s.FullCode), t))
        out.append(('allocated|%s' % m.FullCode, G.sum_ast(alloc)))
    # portfolios
    weighted = list(prog.get('weighted', []))
    for info in prog.get('infos', []):
        weighted.extend(info.get('weighted', []))
    for sid, codes, residual in weighted:
        if True:
            s = a['objs'][sid]
            terms = [(-1, V(s.GetVariableName('F')))]
            for c in list(codes) + [residual]:
                terms.append((1, V(fullname(s, 'DEM_' + c))))
            out.append(('portfolio|%s' % s.FullCode, G.sum_ast(terms)))
    return out


def run(ctx):
    proofs__ = common.proof_status_async([(FAMILY, PROPFILE)] + gen_market.PROOFS + gen_asset.PROOFS + gen_main2.PROOFS + gen_clear2.PROOFS + gen_plumb.PROOFS)      # re-checked in the background while the cases run
    out, metas = GC.run_targets(
        ctx, PID, make_targets, 50, 600, kmin=1,
        rule=('same program generator as C01; targets: for every goods/labour/money/deposit market of the program '
              'the clearing, demand-membership, allocation and per-supplier identities, portfolio and default '
              'money-demand identities; non-trivial = program with at least one market; distinct by full program'))
    out.proof = None
    out.trusted_base = [
        'Coq 8.16.1 kernel + vm_compute', 'axioms: Reals (sig_forall_dec, sig_not_dec), functional_extensionality_dep',
        'harness: EquationParser + Python ast -> Coq sys; demanders/suppliers/holders read from public object '
        'attributes (CurrencyZone.GetSectors, EquationBlock, ResidualSupply, OtherSuppliers, IssuerShortCode)',
        'cut / non-zero hints untrusted']
    out.assumptions = ['topologies covered per generated program, valuations/periods by the soundness theorem',
                       'a supplier whose own supply variable pre-exists with a constant (Household SUP_LAB = 0.) '
                       'keeps that constant as a summand: the identity is stated up to that constant 0']
    # booking-group models with theorems for ALL zones (coq/GenMarket, coq/GenAsset), each with its own
    # state correspondence and oracle
    out.proof = proofs__.result()
    gen_market.extra(ctx, out)
    gen_asset.extra(ctx, out)
    # (the whole-pipeline correspondence of coq/GenMain2 runs in the C01, C05 and C07 checks; here its theorems are re-checked)
    # multi-currency clearing theorems (coq/GenClear2) for ALL programs of Main2.build2: the lists of demanders / suppliers /
    # holders the theorems name are compared with the object model, the side conditions are evaluated, and the identities are
    # tested on the emitted rows
    gen_clear2.extra(ctx, out, 40, 400)
    # every row of the same kind of programs against build2 (error classes included): a row the identities above would not miss
    gen_main2.extra(ctx, out, 30, 300)
    return out


def replay(path):
    import json
    obj = json.load(open(path))
    kind = (obj.get('replay') or {}).get('kind')
    if kind == 'main':
        return gen_main.replay(obj)
    if kind == 'main2':
        return gen_main2.replay(obj)
    if kind == 'clear2':
        return gen_clear2.replay(obj)
    if kind == 'market':
        return gen_market.replay(obj)
    if kind == 'asset':
        return gen_asset.replay(obj)
    return GC.replay_program(path, make_targets, kmin=1)
