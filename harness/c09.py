"""C09 — textbook models obey their difference equations for any parameters.

Proof: coq/Gen/PropC09.v (closed forms from the period equations; soundness of the emitted-system
certificate with symbolic parameters; exit bound of the hand-coded iterative SIM; '%0.4f' rounding).
Validation on every run: the bundled builders SIM, SIMEX1 (gl_book/chapter3.py) and PC (chapter4.py)
are called with random propensities, tax rates, portfolio parameters, spending and interest-rate
paths and initial stocks; the emitted equations are handed to the kernel-evaluated checker with the
parameters kept as atoms: it must certify every period equation of the book.
Oracle: the book's recursion evaluated independently (exact closed form, floats) against
Model.GetTimeSeries for every period; ModelSIMiterative against the same closed form.
Known finding D09: a parameter with more than four decimals is emitted rounded by '%0.4f'.
"""
import json
import math

import common
import gen_common as G
import gen_checks as GC
from common import coq_string, coq_list, coq_nat

PID = 'C09'
FAMILY = 'Gen'
PROPFILE = 'PropC09.v'
LEVEL = 'proof'


def V(n):
    return ('var', n)


def mul(a, b):
    return ('mul', a, b)


def add(a, b):
    return ('add', a, b)


def sub(a, b):
    return ('sub', a, b)


# ------------------------------------------------------------------ building the book models
def gen_params(rng, kind, extra_decimals=False):
    nd = 8 if extra_decimals else rng.choice([1, 2, 3, 4])
    p = {'kind': kind,
         'a1': round(rng.uniform(0.5, 0.9), nd), 'a2': round(rng.uniform(0.1, 0.5), nd),
         'th': round(rng.uniform(0.05, 0.4), nd), 'T': rng.choice([4, 6, 9])}
    p['book_exo'] = rng.random() < 0.3     # start from the book's exogenous series, then override them
    p['G'] = [round(rng.uniform(5, 40), 2) for _ in range(p['T'] + 2)]
    if rng.random() < 0.5:
        p['G'] = [p['G'][0]] * (p['T'] + 2)
    p['H0'] = round(rng.uniform(20, 100) if kind == 'PC' else rng.choice([0.0, rng.uniform(0, 100)]), 3)
    if kind == 'SIMEX1':
        p['YD0'] = round(rng.uniform(0, 50), 3)
    if kind == 'PC':
        p['l0'] = round(rng.uniform(0.3, 0.7), nd if extra_decimals else 3)
        p['l1'] = round(rng.uniform(1, 6), 2)
        p['l2'] = round(rng.uniform(0.0, 0.02), 4)
        r0 = round(rng.uniform(0.0, 0.05), 4)
        p['r'] = [r0] * (p['T'] // 2 + 1) + [round(rng.uniform(0.0, 0.05), 4)] * (p['T'] + 2)
        p['B0'] = round(p['H0'] * rng.uniform(0.3, 0.8), 3)
        if rng.random() < 0.25:
            # portfolio share outside [0, 1] (the book's equations put no cap on it): high bill rates, or a strong
            # transactions motive
            if rng.random() < 0.7:
                hi = round(rng.uniform(0.08, 0.14), 4)
                p['r'] = [r0] * (p['T'] // 2 + 1) + [hi] * (p['T'] + 2)
                p['l0'], p['l1'] = round(rng.uniform(0.6, 0.7), 3), round(rng.uniform(4, 6), 2)
            else:
                p['l0'], p['l2'] = round(rng.uniform(0.05, 0.15), 3), round(rng.uniform(0.3, 0.6), 4)
    return p


def build_book(p):
    from sfc_models.gl_book.chapter3 import SIM, SIMEX1
    from sfc_models.gl_book.chapter4 import PC
    cls = {'SIM': SIM, 'SIMEX1': SIMEX1, 'PC': PC}[p['kind']]
    b = cls('C', use_book_exogenous=bool(p.get('book_exo')))
    mod = b.build_model()
    c = mod['C']
    hh, tf = c['HH'], c['TF']
    hh.AlphaIncome, hh.AlphaFin, tf.TaxRate = p['a1'], p['a2'], p['th']
    mod.MaxTime = p['T']
    if p['kind'] == 'PC':
        tre, dep = c['TRE'], c['DEP']
        tre.SetExogenous('DEM_GOOD', list(p['G']))
        dep.SetExogenous('r', list(p['r']))
        hh.SetEquationRightHandSide('L0', repr(p['l0']))
        hh.SetEquationRightHandSide('L1', repr(p['l1']))
        hh.SetEquationRightHandSide('L2', repr(p['l2']))
        mod.AddInitialCondition('HH', 'F', p['H0'])
        mod.AddInitialCondition('HH', 'DEM_DEP', p['B0'])
        mod.AddInitialCondition('TRE', 'F', -p['H0'])
    else:
        gov = c['GOV']
        gov.SetExogenous('DEM_GOOD', list(p['G']))
        mod.AddInitialCondition('HH', 'F', p['H0'])
        mod.AddInitialCondition('GOV', 'F', -p['H0'])
        if p['kind'] == 'SIMEX1':
            mod.AddInitialCondition('HH', 'AfterTax', p['YD0'])
    return mod


# ------------------------------------------------------------------ the book's recursion, independently
def closed_sim(p, a1, a2, th):
    H = p['H0']
    rows = []
    for k in range(1, p['T'] + 1):
        G_ = p['G'][k]
        Y = (G_ + a2 * H) / (1 - a1 * (1 - th))
        T = th * Y
        YD = Y - T
        C = a1 * YD + a2 * H
        H = H + YD - C
        rows.append({'GOOD__SUP_GOOD': Y, 'GOV__T': T, 'HH__AfterTax': YD, 'HH__DEM_GOOD': C, 'HH__F': H})
    return rows


def closed_simex(p, a1, a2, th):
    H, YD1 = p['H0'], p['YD0']
    rows = []
    for k in range(1, p['T'] + 1):
        G_ = p['G'][k]
        C = a1 * YD1 + a2 * H
        Y = C + G_
        T = th * Y
        YD = Y - T
        H = H + YD - C
        YD1 = YD
        rows.append({'GOOD__SUP_GOOD': Y, 'GOV__T': T, 'HH__AfterTax': YD, 'HH__DEM_GOOD': C, 'HH__F': H})
    return rows


def closed_pc_step(p, a1, a2, th, l0, l1, l2, ts, k):
    """One period of PC from the model's own previous-period stocks."""
    V1, B1, r1, r = ts['HH__F'][k - 1], ts['HH__DEM_DEP'][k - 1], ts['DEP__r'][k - 1], ts['DEP__r'][k]
    G_ = ts['TRE__DEM_GOOD'][k]
    Y = (G_ + a2 * V1 + a1 * (1 - th) * r1 * B1) / (1 - a1 * (1 - th))
    YD = (1 - th) * (Y + r1 * B1)
    T = th * (Y + r1 * B1)
    C = a1 * YD + a2 * V1
    Vn = V1 + YD - C
    B = Vn * (l0 + l1 * r) - l2 * YD
    return {'GOOD__SUP_GOOD': Y, 'TRE__T': T, 'HH__AfterTax': YD, 'HH__DEM_GOOD': C, 'HH__F': Vn, 'HH__DEM_DEP': B,
            'HH__DEM_MON': Vn - B}


def rnd(x, nd):
    return float(('%0.' + str(nd) + 'f') % x)


def compare(mod, p, params):
    """Return (first mismatch text or None) of model series vs the closed form with `params`."""
    a1, a2, th = params['a1'], params['a2'], params['th']
    get = lambda name: mod.EquationSolver.TimeSeries[name]
    tol = 2e-4
    if p['kind'] in ('SIM', 'SIMEX1'):
        rows = (closed_sim if p['kind'] == 'SIM' else closed_simex)(p, a1, a2, th)
        for k, row in enumerate(rows, 1):
            for name, val in row.items():
                got = get(name)[k]
                if abs(got - val) > tol * max(1.0, abs(val)):
                    return '%s[%d] = %.8g, closed form %.8g' % (name, k, got, val)
        return None
    ts = mod.EquationSolver.TimeSeries
    for k in range(2, p['T'] + 1):
        row = closed_pc_step(p, a1, a2, th, params['l0'], params['l1'], params['l2'], ts, k)
        for name, val in row.items():
            got = ts[name][k]
            if abs(got - val) > tol * max(1.0, abs(val)):
                return '%s[%d] = %.8g, closed form %.8g' % (name, k, got, val)
    return None


def oracle(p):
    mod = build_book(p)
    try:
        mod.main()
    except Exception as e:  # noqa
        # inadmissible parameter vector (the iteration does not converge): outside the property; counted
        return [{'key': 'unsolved', 'what': '%s with %r does not solve: %r' % (p['kind'], {k: p[k] for k in ('a1', 'a2', 'th')}, e),
                 'replay': {'kind': 'book', 'params': p}}]
    exact = {k: p[k] for k in ('a1', 'a2', 'th', 'l0', 'l1', 'l2') if k in p}
    why = compare(mod, p, exact)
    if why is None:
        return []
    rounded = dict(exact)
    for k in ('a1', 'a2', 'th'):
        rounded[k] = rnd(exact[k], 4)
    if rounded != exact and compare(mod, p, rounded) is None:
        return [{'key': 'builders:parameter-rounded-to-4-decimals',
                 'what': '%s: %s — equals the closed form at the parameters rounded to 4 decimals %r' % (p['kind'], why, rounded),
                 'replay': {'kind': 'book', 'params': p}}]
    return [{'key': 'builders:closed-form-mismatch', 'what': '%s: %s (parameters %r)' % (p['kind'], why, exact),
             'replay': {'kind': 'book', 'params': p}}]


def iterative_oracle(rng):
    from sfc_models.gl_book.model_SIM_iterative import ModelSIMiterative
    fails = []
    a1, a2, th = round(rng.uniform(0.3, 0.97), 3), round(rng.uniform(0.1, 0.5), 3), round(rng.uniform(0.02, 0.4), 3)
    if rng.random() < 0.3:
        # slow contraction (a1*(1-th) up to 0.95): several hundred passes of the inner loop are needed
        a1, th = round(rng.uniform(0.93, 0.97), 3), round(rng.uniform(0.02, 0.05), 3)
    H0 = round(rng.uniform(0, 100), 2)
    Gs = [round(rng.uniform(5, 40), 2) for _ in range(8)]
    obj = ModelSIMiterative()
    obj.theta, obj.alpha1, obj.alpha2 = th, a1, a2
    obj.H = [H0]
    obj.G = list(Gs)
    obj.main()
    q = a1 * (1 - th)
    for k in range(1, len(Gs)):
        H1 = obj.H[k - 1]
        Ystar = (Gs[k] + a2 * H1) / (1 - q)
        if abs(obj.Y[k] - Ystar) > 0.001 / (1 - q) + 1e-9:
            fails.append({'key': 'iterative:income-off-closed-form', 'what': 'ModelSIMiterative Y[%d]=%r, closed form %r (a1=%r a2=%r th=%r)' % (
                k, obj.Y[k], Ystar, a1, a2, th), 'replay': {'kind': 'iterative', 'a1': a1, 'a2': a2, 'th': th, 'H0': H0, 'G': Gs}})
            break
        # remaining assignments are the closed form at that Y
        tax = th * obj.Y[k]
        YD = obj.Y[k] - tax
        C = a1 * YD + a2 * H1
        Hn = H1 + (Gs[k] - tax)
        for name, val, got in (('tax', tax, obj.tax[k]), ('YD', YD, obj.YD[k]), ('C', C, obj.C[k]), ('H', Hn, obj.H[k])):
            if abs(val - got) > 1e-9 * max(1, abs(val)):
                fails.append({'key': 'iterative:assignment-off', 'what': '%s[%d]=%r expected %r' % (name, k, got, val),
                              'replay': {'kind': 'iterative', 'a1': a1, 'a2': a2, 'th': th, 'H0': H0, 'G': Gs}})
                return fails
    return fails


# ------------------------------------------------------------------ certificates
def targets_for(kind):
    Y, G_, C = V('GOOD__SUP_GOOD'), None, V('HH__DEM_GOOD')
    a1, a2, th = V('HH__AlphaIncome'), V('HH__AlphaFin'), V('TF__TaxRate')
    YD, H, H1 = V('HH__AfterTax'), V('HH__F'), V('HH__LAG_F')
    if kind in ('SIM', 'SIMEX1'):
        G_, T = V('GOV__DEM_GOOD'), V('GOV__T')
        t = [('Y=C+G', sub(Y, add(C, G_))), ('T=th*Y', sub(T, mul(th, Y))), ('YD=Y-T', sub(YD, sub(Y, T))),
             ('H=H1+YD-C', sub(H, sub(add(H1, YD), C)))]
        if kind == 'SIM':
            t.append(('C=a1*YD+a2*H1', sub(C, add(mul(a1, YD), mul(a2, H1)))))
        else:
            t.append(('C=a1*YD1+a2*H1', sub(C, add(mul(a1, V('HH__LAG_AfterTax')), mul(a2, H1)))))
        return t
    G_, T = V('TRE__DEM_GOOD'), V('TRE__T')
    rB = mul(V('DEP__LAG_r'), V('HH__LAG_DEM_DEP'))
    B, M = V('HH__DEM_DEP'), V('HH__DEM_MON')
    return [('Y=C+G', sub(Y, add(C, G_))), ('T=th*(Y+r1*B1)', sub(T, mul(th, add(Y, rB)))),
            ('YD=Y-T+r1*B1', sub(YD, add(sub(Y, T), rB))), ('C=a1*YD+a2*V1', sub(C, add(mul(a1, YD), mul(a2, H1)))),
            ('V=V1+YD-C', sub(H, sub(add(H1, YD), C))),
            ('B*V=V*(V*(l0+l1*r)-l2*YD)', sub(mul(B, H), mul(H, sub(mul(H, add(V('HH__L0'), mul(V('HH__L1'), V('DEP__r')))), mul(V('HH__L2'), YD))))),
            ('B+H=V', sub(add(B, M), H))]


def cert_case(mod, kind):
    text = G.generate_equations(mod)
    system, parser = G.system_of(text)
    names = [v for v, _ in system]
    params = [n for n in ('HH__AlphaIncome', 'HH__AlphaFin', 'TF__TaxRate', 'HH__L0', 'HH__L1', 'HH__L2') if n in names]
    lag_f = [v for v in names if v.endswith('__LAG_F')]
    cut = sorted(set(G.choose_cut(system, avoid=G.avoid_set(mod)) + params + lag_f + ['HH__LAG_AfterTax', 'HH__LAG_DEM_DEP', 'DEP__LAG_r']) & set(names))
    defs = set(v for v, k in system if k[0] == 'def')
    certs = ['[]'] + ['[(ENum (1#1)%%Q, %s)]' % coq_string(b) for b in cut if b in defs] + \
            ['[(ENum (-1#1)%%Q, %s)]' % coq_string(b) for b in cut if b in defs]
    # certificates with a variable multiplier (needed where the target multiplies a cut equation)
    certs += ['[(EVar %s, %s)]' % (coq_string('HH__F'), coq_string(b)) for b in cut if b in defs]
    targets = targets_for(kind)
    nz = ['HH__F'] if kind == 'PC' else []

    def one(cutset, tgts):
        tl = coq_list(['(%s, %s)' % (coq_list(certs), G.coq_expr(t)) for _, t in tgts])
        return 'zero_anycert_case %s %s %s %s %s' % (G.coq_sys(system), coq_list([coq_string(c) for c in cutset]),
                                                     coq_list([coq_string(c) for c in nz]), coq_nat(len(system) + 5), tl)
    # the portfolio identities divide by wealth: there wealth itself is kept as an atom
    general = [t for t in targets if not t[0].startswith('B')]
    portfolio = [t for t in targets if t[0].startswith('B')]
    case = one(cut, general)
    if portfolio:
        case = '(%s) && (%s)' % (case, one(sorted(set(cut) | {'HH__F'}), portfolio))
    return case, [l for l, _ in targets], cut


def run(ctx):
    out = common.Outcome()
    import gen_book
    out.proof = common.proof_status_many([(FAMILY, PROPFILE)] + gen_book.PROOFS)
    n = ctx.scale(45, 900)
    cases, metas, seen = [], [], set()
    stats = {'kinds': {}, 'extra_decimal_params': 0, 'iterative_runs': 0}
    for i in range(n):
        kind = ctx.rng.choice(['SIM', 'SIMEX1', 'PC'])
        extra = ctx.rng.random() < 0.15
        p = gen_params(ctx.rng, kind, extra_decimals=extra)
        stats['kinds'][kind] = stats['kinds'].get(kind, 0) + 1
        stats['extra_decimal_params'] += 1 if extra else 0
        fs = oracle(p)
        unsolved = [f for f in fs if f['key'] == 'unsolved']
        stats.setdefault('unsolved', {})
        if unsolved:
            stats['unsolved'][kind] = stats['unsolved'].get(kind, 0) + 1
        out.failures.extend(f for f in fs if f['key'] != 'unsolved')
        if i % 3 == 0:
            case, labels, cut = cert_case(build_book(p), kind)
            cases.append(case)
            metas.append({'params': p, 'identities': labels, 'cut': cut})
        seen.add(json.dumps(p, sort_keys=True))
    for kind, cnt in stats['kinds'].items():
        if stats.get('unsolved', {}).get(kind, 0) > 0.5 * cnt:
            out.failures.append({'key': 'builders:models-do-not-solve', 'what': '%d of %d %s parameter vectors do not solve' % (
                stats['unsolved'][kind], cnt, kind), 'replay': {'kind': 'none'}})
    for _ in range(ctx.scale(40, 600)):
        stats['iterative_runs'] += 1
        out.failures.extend(iterative_oracle(ctx.rng))
    bad, errs = common.run_bool_cases(FAMILY, G.GEN_REQUIRES + ['From SFC.Gen Require Import Book.'], cases, tag=PID, shard=6, jobs=12)
    out.corr_errors = errs
    for i in bad[:10]:
        out.disagreements.append({'params': metas[i]['params'], 'obligation': 'a period equation of the book is not certified from the emitted system',
                                  'identities': metas[i]['identities']})
    out.evaluations = n + stats['iterative_runs']
    out.nontrivial = len(seen)
    out.samples = [metas[0]['params']] if metas else []
    out.rule = ('random parameter vectors (a1, a2, theta with 1-4 decimals; 15% with 8 decimals to reproduce D09; lambda0..2), '
                'random G_k and r_k paths, random initial stocks, horizons 4-9 for SIM / SIMEX1 / PC built by the bundled '
                'builders; every third vector also goes through the symbolic certificate; 40+ random ModelSIMiterative runs; '
                'distinct by parameter vector')
    out.extra = {'input_distribution': stats, 'certified_systems': len(cases), 'source_hashes': common.source_hashes(
        ['sfc_models/gl_book/chapter3.py', 'sfc_models/gl_book/chapter4.py', 'sfc_models/gl_book/model_SIM_iterative.py',
         'sfc_models/sector_definitions.py', 'sfc_models/sector.py'])}
    out.trusted_base = ['Coq 8.16.1 kernel + vm_compute', 'axioms: Reals (sig_forall_dec, sig_not_dec), functional_extensionality_dep',
                        'harness: EquationParser + Python ast -> Coq sys; the mapping from book symbols to framework variable '
                        'names (Y = GOOD__SUP_GOOD, ...) is the one in the property statement',
                        '"to within solver tolerance": the oracle compares floats with relative tolerance 2e-4']
    out.assumptions = ['PC is compared period by period from the model\'s own previous-period stocks for k>=2 (the bundled '
                       'initial conditions are partial); SIM/SIMEX1 are simulated independently from the initial stocks']
    # the builders' own programs as Coq functions of the parameter texts (coq/GenBook): build(prog_*(texts)) = E_*(texts)
    # and the book's recursions / closed forms follow from E_* for ALL texts, exogenous values and lagged stocks; here the
    # real builders' FinalEquations are compared with E_* at the generated parameter texts
    gen_book.extra(ctx, out)
    return out


def replay(path):
    obj = json.load(open(path))
    r = obj.get('replay') or {}
    if r.get('kind') == 'book_model':
        import gen_book
        return gen_book.replay(obj)
    if r.get('kind') == 'book':
        fails = oracle(r['params'])
    elif r.get('kind') == 'iterative':
        import random
        fails = []
        from sfc_models.gl_book.model_SIM_iterative import ModelSIMiterative
        o = ModelSIMiterative()
        o.theta, o.alpha1, o.alpha2, o.H, o.G = r['th'], r['a1'], r['a2'], [r['H0']], list(r['G'])
        o.main()
        q = r['a1'] * (1 - r['th'])
        for k in range(1, len(r['G'])):
            ys = (r['G'][k] + r['a2'] * o.H[k - 1]) / (1 - q)
            if abs(o.Y[k] - ys) > 0.001 / (1 - q) + 1e-9:
                fails.append({'key': 'iterative', 'what': 'Y[%d]=%r vs %r' % (k, o.Y[k], ys)})
    else:
        print('replay names a proof/validation obligation, nothing to execute:', json.dumps(obj)[:600])
        return 1
    known = common.load_known()
    real = [f for f in fails if not common.match_known(PID, f, known)]
    for f in fails:
        print('FAILS:', f['key'], f['what'][:300])
    print('replay: %s' % ('property violated' if fails else 'property holds on this input'))
    return common.replay_status(PID, fails)
