"""Multi-currency whole-pipeline model (coq/GenMain2/Main2.v, `build2`) against the implementation.

Part of C01 / C04 / C05 / C07.  Integration (family coq/GenMain2 = coq/GenMain plus the multi-currency files; PROOFS lists both property files):

    import gen_main2
    ...
    gen_main2.extra(ctx, out)           # whole-program correspondence on ProgGen.any() (all four shapes)
    ...
    if (obj.get('replay') or {}).get('kind') == 'main2':
        return gen_main2.replay(obj)

Correspondence: programs from gen_common.ProgGen(rng).any() — single economies, federations, several currency zones
with an ExternalSector at any position (cross-zone gifts, imports incl. a foreign residual supplier, exchange-rate paths),
gold standard — plus damaged variants (missing external sector, gold government without external sector, ...); rendered
1:1 into a Coq `program2`; compared exactly as in gen_main: exception class, or every row of FinalEquations in emission
order as the implementation's own parser reads them (texts with blanks removed), and the initial conditions.
"""
import copy
import json

import common
from common import coq_string, coq_list, coq_nat, coq_bool, coq_option
import gen_common
import gen_main
from gen_main import OutOfLanguage, _subst

PROOFS = [('GenMain2', 'PropMain.v'), ('GenMain2', 'PropMain2.v')]
FAMILY = 'GenMain2'
REQUIRES = ['From SFC.Base Require Import Res Str.', 'From SFC.Gen Require Import Fx Zone.',
            'From SFC.GenMain2 Require Import Program Classes Main CaseDefs Program2 Main2 CaseDefs2 Conflict Conflict2.']


def render_cls(cls, kw, sref):
    """The Coq term of type Program.cls for a sector declaration (OutOfLanguage for other classes)."""
    if cls == 'ConsolidatedGovernment':
        c = 'CGov'
    elif cls == 'Treasury':
        c = 'CTreasury'
    elif cls == 'CentralBank':
        t = kw.get('treasury')
        c = '(CCentralBank %s)' % coq_option(None if t is None else sref(t['ref']))
    elif cls in ('Household', 'HouseholdWithExpectations', 'Capitalists'):
        d_ai, d_af = (.6, .4) if cls == 'Household' else (.7, .3)
        ai = '%0.4f' % (kw.get('alpha_income', d_ai),)
        af = '%0.4f' % (kw.get('alpha_fin', d_af),)
        good = kw.get('consumption_good_name', 'GOOD')
        if cls == 'Capitalists':
            c = '(CCapitalists %s %s %s)' % (coq_string(ai), coq_string(af), coq_string(good))
        else:
            con = 'CHousehold' if cls == 'Household' else 'CHouseholdExp'
            c = '(%s %s %s %s %s)' % (con, coq_string(ai), coq_string(af), coq_string(good),
                                      coq_string(kw.get('labour_name', 'LAB')))
    elif cls == 'FixedMarginBusiness':
        m = kw.get('profit_margin', 0.0)
        c = '(CBusiness %s %s %s %s %s)' % (coq_bool(m == 0), coq_string('%0.3f' % (1.0 - m,)), coq_string('%0.3f' % (m,)),
                                            coq_string(kw.get('labour_input_name', 'LAB')),
                                            coq_string(kw.get('output_name', 'GOOD')))
    elif cls == 'FixedMarginBusinessMultiOutput':
        m = kw.get('profit_margin', 0.0)
        refs = kw.get('market_list', {'refs': []})['refs']
        c = '(CBusinessMulti %s %s %s %s)' % (coq_bool(m == 0), coq_string('%0.3f' % (1.0 - m,)),
                                              coq_string(kw.get('labour_input_name', 'LAB')),
                                              coq_list([sref(r) for r in refs]))
    elif cls == 'TaxFlow':
        c = '(CTaxFlow %s %s)' % (coq_string('%0.4f' % (kw.get('taxrate', 0.0),)), coq_string(kw.get('taxes_paid_to', 'GOV')))
    elif cls == 'Market':
        c = 'CMarket'
    elif cls == 'MoneyMarket':
        c = '(CMoneyMarket %s)' % coq_string(kw.get('issuer_short_code', 'GOV'))
    elif cls == 'DepositMarket':
        c = '(CDepositMarket %s)' % coq_string(kw.get('issuer_short_code', 'GOV'))
    else:
        raise OutOfLanguage('class ' + cls)
    return c


def render_op(st, sref, names):
    """The Coq term of type Program.uop for an operation step."""
    op = st['op']
    if op == 'AddVariable':
        o = 'OAddVariable %s %s %s' % (sref(st['sector']), coq_string(st['name']), coq_string(_subst(st['eqn'], names)))
    elif op == 'SetExogenous':
        v = st['value']
        if st.get('as') == 'list':
            v = repr(eval(v))
        elif st.get('as') == 'tuple':
            v = repr(tuple(eval(v)))
        o = 'OSetExogenous %s %s %s' % (sref(st['sector']), coq_string(st['name']), coq_string(v))
    elif op == 'AddInitialCondition':
        o = 'OAddInitialCondition %s %s %s' % (sref(st['sector']), coq_string(st['name']), coq_string(str(float(st['value']))))
    elif op == 'RegisterCashFlow':
        o = 'ORegisterCashFlow %s %s %s %s %s' % (sref(st['src']), sref(st['tgt']), coq_string(st['var']),
                                                  coq_bool(st.get('inc_src', True)), coq_bool(st.get('inc_tgt', True)))
    elif op == 'AddSupplier':
        e = st.get('eqn')
        o = 'OAddSupplier %s %s %s' % (sref(st['market']), sref(st['supplier']),
                                       coq_option(None if e is None else coq_string(_subst(e, names))))
    elif op == 'AssetWeighting':
        ws = coq_list(['(%s, %s)' % (coq_string(c_), coq_string(_subst(e_, names))) for c_, e_ in st['weights']])
        o = 'OAssetWeighting %s %s %s' % (sref(st['sector']), ws, coq_string(st['residual']))
    elif op == 'SetAttr' and st.get('attr') == 'Treasury' and 'ref' in st:
        o = 'OSetTreasury %s %s' % (sref(st['sector']), sref(st['ref']))
    else:
        raise OutOfLanguage('op ' + op)
    return o


def final_names2(prog):
    """{sector id: final FullCode} asked from the implementation (throw-away build)."""
    mod, objs = gen_common.build(prog)
    mod._GenerateFullSectorCodes()
    return {k: o.FullCode for k, o in objs.items() if hasattr(o, 'FullCode')}


def static_names2(prog):
    n = sum(1 for s in prog['steps'] if s['kind'] in ('country', 'external'))
    multi = n > 1
    ccode = {s['id']: s['code'] for s in prog['steps'] if s['kind'] == 'country'}
    out = {s['id']: (ccode[s['country']] + '_' + s['code']) if multi else s['code']
           for s in prog['steps'] if s['kind'] == 'sector'}
    for k in ('XR', 'FX', 'GOLD'):
        out[k] = ('EXT_' + k) if multi else k
    return out


def render_program2(prog, names):
    cidx, sidx = {}, {}
    steps = []
    pending = []

    def sref(i):
        if i not in sidx:
            raise OutOfLanguage('reference to an object that does not exist: %r' % (i,))
        return coq_nat(sidx[i])

    for st in prog['steps']:
        k = st['kind']
        if k == 'country':
            cidx[st['id']] = len(cidx)
            cur = st.get('currency')
            steps.append('S2Country %s %s %s' % (coq_string(st['code']), coq_option(None if cur is None else coq_string(cur)),
                                                coq_bool(bool(st.get('region')))))
        elif k == 'external':
            cidx[st['id']] = len(cidx)
            for nm in ('XR', 'FX', 'GOLD'):
                sidx[nm] = len(sidx)
            steps.append('S2External')
        elif k == 'sector':
            kw = dict(st.get('kw', {}))
            cls = st['cls']
            late = None
            for key in list(kw):
                v = kw[key]
                if isinstance(v, dict) and 'ref' in v and v.get('late_ok') and v['ref'] not in sidx:
                    late = (st['id'], v['ref'])
                    del kw[key]
            if cls == 'GoldStandardGovernment':
                c = '(CGoldGov %s)' % coq_string(str(float(kw.get('initial_gold_stock', 0.0))))
            elif cls == 'GoldStandardCentralBank':
                t = kw.get('treasury')
                c = '(CGoldCB %s %s)' % (coq_option(None if t is None else sref(t['ref'])),
                                         coq_string(str(float(kw.get('initial_gold_stock', 0.0)))))
            else:
                c = '(COld %s)' % render_cls(cls, kw, sref)
            steps.append('S2Sector %s %s %s' % (coq_nat(cidx[st['country']]), coq_string(st['code']), c))
            sidx[st['id']] = len(sidx)
            if late is not None:
                pending.append(late)
            for (cb, tre) in list(pending):
                if cb in sidx and tre in sidx:
                    steps.append('S2Op (UOld (OSetTreasury %s %s))' % (coq_nat(sidx[cb]), coq_nat(sidx[tre])))
                    pending.remove((cb, tre))
        elif k == 'op':
            if st['op'] == 'AddMarket':
                steps.append('S2Op (UAddMarket %s %s)' % (sref(st['sector']), sref(st['market'])))
            else:
                steps.append('S2Op (UOld (%s))' % render_op(st, sref, names))
        else:
            raise OutOfLanguage('step ' + k)
    return coq_list(steps)


def emit_case(coq_prog, res):
    if res[0] == 'err':
        exp = '(ExpErr %s)' % res[1]
    else:
        exp = '(ExpOk %s %s %s %s)' % tuple(gen_main._pairs(x) for x in res[1:])
    return 'main2_case %s %s' % (coq_prog, exp)


def damage2(rng, prog):
    """Variants that leave the well-formed stream of the multi-currency shapes."""
    p = copy.deepcopy({'maxtime': prog['maxtime'], 'steps': prog['steps'], 'shape': prog.get('shape')})
    steps = p['steps']
    secs = [s for s in steps if s['kind'] == 'sector']
    has_ext = any(s['kind'] == 'external' for s in steps)
    kind = rng.choice(['no_ext', 'no_ext', 'move_ext', 'two_ext', 'gold_no_ext', 'xr_missing', 'flow_same_var', 'region_after_ext',
                       'region_after_ext', 'gold_cb', 'gold_cb', 'generic', 'generic', 'exo_net', 'add_market'])
    if kind == 'no_ext':
        if not has_ext:
            return None
        p['steps'] = [s for s in steps if s['kind'] != 'external' and not (s['kind'] == 'op' and s.get('sector') in ('XR', 'FX', 'GOLD'))]
        return p, 'no_ext'
    if kind == 'move_ext':
        if not has_ext:
            return None
        ext = [s for s in steps if s['kind'] == 'external'][0]
        steps.remove(ext)
        pos = [i for i, s in enumerate(steps) if s['kind'] == 'country'] + [max(i for i, s in enumerate(steps) if s['kind'] == 'sector') + 1]
        steps.insert(rng.choice(pos), ext)
        return p, 'move_ext'
    if kind == 'two_ext':
        if not has_ext:
            return None
        i = max(i for i, s in enumerate(steps) if s['kind'] == 'sector') + 1
        steps.insert(i, {'kind': 'external', 'id': 'ext2'})
        return p, 'two_ext'
    if kind == 'gold_no_ext':
        g = [s for s in secs if s['cls'] in ('ConsolidatedGovernment',)]
        if not g:
            return None
        g[0]['cls'] = 'GoldStandardGovernment'
        g[0]['kw'] = {'initial_gold_stock': 12.5}
        if rng.random() < 0.5:
            p['steps'] = [s for s in steps if s['kind'] != 'external' and not (s['kind'] == 'op' and s.get('sector') in ('XR', 'FX', 'GOLD'))]
        return p, 'gold_variant'
    if kind == 'xr_missing':
        if not has_ext:
            return None
        steps.append({'kind': 'op', 'op': 'SetExogenous', 'sector': 'XR', 'name': 'ZZ', 'value': '[1.0]*10'})
        return p, 'xr_missing'
    if kind == 'exo_net':
        if not has_ext:
            return None
        cs = [s for s in steps if s['kind'] == 'country']
        steps.append({'kind': 'op', 'op': 'SetExogenous', 'sector': 'FX', 'name': 'NET_' + rng.choice(cs)['code'], 'value': '[0.0]*10'})
        return p, 'exo_net'
    if kind == 'flow_same_var':
        fl = [s for s in steps if s['kind'] == 'op' and s['op'] == 'RegisterCashFlow']
        if not fl:
            return None
        steps.append(copy.deepcopy(rng.choice(fl)))
        return p, 'flow_twice'
    if kind == 'region_after_ext':
        # a Region created after the ExternalSector without a currency joins the NUMERAIRE zone (Model.DefaultCurrency);
        # its household is then outside every tax flow's zone
        if not has_ext:
            return None
        i = [j for j, s in enumerate(steps) if s['kind'] == 'external'][0]
        steps.insert(i + 1, {'kind': 'country', 'id': 'clate', 'code': 'ZZ', 'currency': None, 'region': True})
        steps.insert(i + 2, {'kind': 'sector', 'id': 'clate_HH', 'cls': 'Household', 'country': 'clate', 'code': 'HX',
                             'kw': {'alpha_income': 0.61, 'alpha_fin': 0.39}})
        return p, 'late_region'
    if kind == 'gold_cb':
        cb = [s for s in secs if s['cls'] == 'CentralBank']
        if not cb:
            return None
        cb[0]['cls'] = 'GoldStandardCentralBank'
        cb[0]['kw']['initial_gold_stock'] = 7.5
        return p, 'gold_cb'
    if kind == 'add_market':
        mo = [s for s in secs if s['cls'] == 'FixedMarginBusinessMultiOutput']
        mk = [s for s in secs if s['cls'] == 'Market']
        if not mo or not mk:
            return None
        steps.append({'kind': 'op', 'op': 'AddMarket', 'sector': rng.choice(mo)['id'], 'market': rng.choice(mk)['id']})
        return p, 'add_market'
    return gen_main.damage(rng, prog)


TRUSTED = [
    'hand-written model coq/GenMain2/Main2.v (with Program2.v) of Model.main() for programs with several currency zones, '
    'the ExternalSector (XR / FX / GOLD, RegisterCurrency, lazily created cross rates, _SendMoney / _ReceiveMoney, '
    'SetGoldPurchases) and the gold-standard classes, assembling the group models of coq/GenMarket (foreign-supplier '
    'branch with the FX sector\'s NET_<currency> equations as ledger), GenTax and GenAsset applied zone by zone; tied to '
    'the code by the whole-program correspondence of harness/gen_main2.py on gen_common.ProgGen.any() (same comparison and '
    'same conventions on formatted numbers and names requested before main() as gen_main)',
]


def gen_programs(ctx, n):
    pg = gen_common.ProgGen(ctx.rng)
    out = []
    for i in range(n):
        prog = pg.any()
        out.append((prog, prog.get('shape')))
        if ctx.rng.random() < 0.4:
            d = damage2(ctx.rng, prog)
            if d is not None:
                out.append(d)
    return out


def extra(ctx, out, quick_n=80, thorough_n=1000):
    n = ctx.scale(quick_n, thorough_n)
    cases, metas, nc_cases = [], [], []
    dist = {'programs': 0, 'shapes': {}, 'damaged': {}, 'errors': {}, 'out_of_language': 0, 'rows': 0, 'max_rows': 0,
            'foreign_supplier_programs': 0, 'cross_flows': 0, 'gold': 0}
    distinct = set()
    for prog, label in gen_programs(ctx, n):
        try:
            try:
                names = final_names2(prog)
            except Exception:
                names = static_names2(prog)
            coq_prog = render_program2(prog, names)
        except (OutOfLanguage, KeyError):
            dist['out_of_language'] += 1
            continue
        res = gen_main.run_impl(prog)
        cases.append(emit_case(coq_prog, res))
        metas.append(gen_common.strip_prog(prog) if 'infos' in prog else prog)
        dist['programs'] += 1
        if label in ('single', 'federated', 'multizone', 'gold'):
            dist['shapes'][label] = dist['shapes'].get(label, 0) + 1
            if res[0] == 'ok':
                nc_cases.append('no_conflict2 %s' % coq_prog)
        else:
            dist['damaged'][label] = dist['damaged'].get(label, 0) + 1
        if res[0] == 'err':
            dist['errors'][res[1]] = dist['errors'].get(res[1], 0) + 1
        else:
            nrows = len(res[1]) + len(res[2]) + len(res[3])
            dist['rows'] += nrows
            dist['max_rows'] = max(dist['max_rows'], nrows)
            rows = dict(res[1])
            dist['cross_flows'] += any(v not in ('0.0', '') for k, v in rows.items() if k.startswith('EXT_FX__NET_'))
            dist['gold'] += any(k.endswith('__GOLDPURCHASES') for k in rows)
            dist['foreign_supplier_programs'] += any('__SUP_' in k and 'EXT_XR__' in v for k, v in rows.items())
            distinct.add(json.dumps(res[1:], sort_keys=True))
    bad, errs = common.run_bool_cases(FAMILY, REQUIRES, cases, tag='main2' + ctx.pid, shard=10)
    out.corr_errors.extend(errs)
    for i in bad[:10]:
        out.disagreements.append({'main2_program': metas[i], 'coq': cases[i][:3000]})
    # non-vacuity of the theorems' side condition on the generator's own programs
    nc_bad, nc_errs = common.run_bool_cases(FAMILY, REQUIRES, nc_cases, tag='nc2' + ctx.pid, shard=10)
    out.corr_errors.extend(nc_errs)
    dist['no_conflict2_evaluated'] = len(nc_cases)
    dist['no_conflict2_true'] = len(nc_cases) - len(nc_bad)
    # the hypotheses of Main2_defined_once (countries_wf2 on the program, names_wf on the built system)
    wf_cases = [c.replace('no_conflict2 ', 'wf_defined_once2__ ', 1) for c in nc_cases]
    wf_bad, wf_errs = common.run_bool_cases(
        FAMILY, REQUIRES + ['From SFC.GenMain2 Require Import Names Names2.'], wf_cases, tag='wf2' + ctx.pid, shard=10,
        defs='Definition wf_defined_once2__ (p : program2) : bool := countries_wf2 p && match build2 p with Ok E => names_wf E | Err _ => true end.')
    out.corr_errors.extend(wf_errs)
    dist['defined_once_hypotheses_true'] = len(wf_cases) - len(wf_bad)
    out.evaluations += len(cases)
    out.nontrivial += len(distinct)
    # minimum-count guard: an empty or almost empty stream must not pass for a tie
    n_eval__ = max([v for k, v in dist.items() if isinstance(v, int) and k in ('programs', 'pairs', 'cases', 'sets', 'joints', 'evaluated')] + [0])
    if n_eval__ < 5:
        out.corr_errors.append('gen_main2: only %d cases were evaluated (distribution %r)' % (n_eval__, {k: v for k, v in dist.items() if isinstance(v, int)}))

    out.extra['main2_model'] = dist
    out.trusted_base = list(out.trusted_base or []) + TRUSTED
    if metas:
        out.samples.append({'main2_program': metas[0]})
    return out


def show_model(prog):
    try:
        names = final_names2(prog)
    except Exception:
        names = static_names2(prog)
    return common.coq_show(FAMILY, REQUIRES, 'show2 %s' % render_program2(prog, names))


def replay(obj):
    r = obj.get('replay', obj) or {}
    if r.get('kind') != 'main2':
        return 0
    return gen_main.replay({'kind': 'main', 'program': r['program']})
