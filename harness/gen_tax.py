"""GenTax — booking-level models of TaxFlow._GenerateEquations and of the dividend logic of
FixedMarginBusiness._GenerateEquations (part of C01: every outflow has an equal inflow).

Proof: coq/GenTax/PropTax.v — for ALL zones / countries (any list of sectors with any variables), all
valuations: the summands of the tax flow's T, the tax bookings cancel given the installed definitions,
payers' INC untouched / recipient's INC gains T; for ANY sequence of paying firms the dividend bookings
cancel and the receiver's +DIV keeps coefficient 1; the pre-fix dividend loop is refuted.

Correspondence (every run): random zones / countries built with the public API; the implementation's
_GenerateEquations is run on real objects and the final state of every sector of the zone (variable order,
rendered right-hand side, blob + parsed terms of the ledger equations) or the exception class is compared
with the model evaluated by vm_compute on the state snapshot taken just before the call.

Oracle (implementation only): under random Fraction valuations, with the definitions the call installed,
the entries the call booked in the F equations of the zone sum to zero.

Used by harness/c01.py:   import gen_tax;  gen_tax.extra(ctx, out)   (and PROOFS for proof_status).
"""
import json
import os
import random as _random
from fractions import Fraction

import common
from common import coq_string, coq_list, coq_Z, coq_bool, coq_nat

PROOFS = [('GenTax', 'PropTax.v')]
FAMILY = 'GenTax'
REQUIRES = ['From SFC.Base Require Import Res Str.',
            'From SFC.Gen Require Import Fx Zone.',
            'From SFC.GenTax Require Import Tax Dividends CaseDefs.']
# GEN_TAX_ORIG=1: compare against the model of the dividend loop before commit 925b299 (used to validate
# `dividends_orig` on a tree with that fix reverted)
USE_ORIG = os.environ.get('GEN_TAX_ORIG') == '1'
# Finding (reported to the lead, see agent_reports/GenTax.md): when the tax recipient is itself taxable its own -T
# and +T merge into 0*T under one name and the other payers' outflows have no inflow.  The theorem excludes it
# (hypothesis), Tax_recipient_taxable_refuted records it.  With this flag the oracle reports such inputs under
# the key 'tax:recipient-taxable' (needs the matching known_findings.json entry); otherwise they are only counted.
REPORT_TAXABLE_RECIPIENT = os.environ.get('GEN_TAX_REPORT_TAXABLE_RECIPIENT', '1') == '1'   # recorded as known finding D23


# ------------------------------------------------------------------------------------------ snapshots
def eq_struct(eq):
    blob, terms, ok = '', [], True
    for i, t in enumerate(eq.TermList):
        if t.IsBlob:
            if i != 0:
                ok = False
            blob = t.Term
        else:
            c = t.Constant
            if float(int(c)) != c:
                ok = False
            terms.append((int(c), t.Term))
    return blob, terms, ok


def snap_sector(s, mod, ids):
    from sfc_models.sector import Market
    return {'sid': ids.setdefault(s.ID, len(ids)), 'code': s.Code, 'country': s.Parent.Code, 'full': s.FullCode,
            'hasF': bool(s.HasF), 'taxable': bool(s.IsTaxable), 'is_market': isinstance(s, Market),
            'excl': [name for obj, name in mod.IncomeExclusions if obj.ID == s.ID],
            'vars': [(k, eq_struct(e)) for k, e in s.EquationBlock.Equations.items()]}


def obs_sector(s):
    out = []
    for k, e in s.EquationBlock.Equations.items():
        blob, terms, ok = eq_struct(e)
        lone_blob = len(e.TermList) == 1 and e.TermList[0].IsBlob
        out.append((k, e.RHS(), None if lone_blob else (blob, terms)))
    return out


def emit_terms(terms):
    return coq_list(['(%s, %s)' % (coq_Z(c), coq_list([coq_string(f) for f in text.split('*')])) for c, text in terms])


def emit_sector(d):
    vs = coq_list(['(%s, mkEqn %s %s)' % (coq_string(k), coq_string(b), emit_terms(ts)) for k, (b, ts, _) in d['vars']])
    return '(mkSector %s %s %s %s %s %s %s %s %s)' % (
        coq_nat(d['sid']), coq_string(d['code']), coq_string(d['country']), coq_string(d['full']),
        coq_bool(d['hasF']), coq_bool(d['taxable']), coq_bool(d['is_market']),
        coq_list([coq_string(x) for x in d['excl']]), vs)


def emit_obs(obs):
    def one(o):
        k, r, st = o
        if st is None:
            s = 'None'
        else:
            s = '(Some (%s, %s))' % (coq_string(st[0]), coq_list(['(%s, %s)' % (coq_Z(c), coq_string(t)) for c, t in st[1]]))
        return '(%s, %s, %s)' % (coq_string(k), coq_string(r), s)
    return coq_list([coq_list([one(o) for o in sec]) for sec in obs])


def emit_expected(exp):
    if exp[0] == 'err':
        return '(Err %s)' % exp[1]
    return '(Ok %s)' % emit_obs(exp[1])


def snap_ok(snaps):
    return all(ok for d in snaps for _, (_, _, ok) in d['vars'])


# ------------------------------------------------------------------------------------------ valuations
class Valuation(object):
    """Random Fraction values for free names; names in `defs` (full name -> (sector full code, rhs text)) are
    evaluated from their right-hand side, local names qualified by the owning sector."""

    def __init__(self, seed, defs):
        self.rng = _random.Random(seed)
        self.defs = defs
        self.val = {}
        self.busy = set()
        self.cyclic = False

    def value(self, name):
        if name in self.val:
            return self.val[name]
        if name in self.defs and name not in self.busy:
            self.busy.add(name)
            full, rhs = self.defs[name]
            v = self.evaluate(full, rhs)
            self.busy.discard(name)
        else:
            if name in self.busy:
                self.cyclic = True
            v = Fraction(self.rng.randint(-30, 40), self.rng.randint(1, 9))
        self.val[name] = v
        return v

    def evaluate(self, full, text):
        outer = self

        class Env(dict):
            def __missing__(self, key):
                return outer.value(key if '__' in key else full + '__' + key)
        import re
        # numeric literals -> exact Fractions
        text = re.sub(r'(?<![\w.])(\d+\.?\d*|\.\d+)(?![\w.])', lambda m: 'Fraction("%s")' % m.group(1), text)
        env = Env()
        env['Fraction'] = Fraction
        return eval(text, {'__builtins__': {}}, env)

    def term(self, full, coef, text):
        p = Fraction(coef)
        for f in text.split('*'):
            p *= self.value(f if '__' in f else full + '__' + f)
        return p


def f_delta(before, after):
    """per term text: coefficient in F after - before (non-blob terms)"""
    out = {}
    fb = dict(before['vars']).get('F')
    fa = dict(after['vars']).get('F')
    for sign, e in ((-1, fb), (1, fa)):
        if e is None:
            continue
        for c, t in e[1]:
            out[t] = out.get(t, 0) + sign * c
    return {t: c for t, c in out.items() if c != 0}


def rhs_empty(d, var):
    e = dict(d['vars']).get(var)
    if e is None:
        return True
    blob, terms, _ = e
    return blob in ('', '0.0') and all(c == 0 for c, _ in terms)


# ------------------------------------------------------------------------------------------ tax cases
T_PREDEF = ['', '', '', '0.0', '', '0.0', '0.', '1.0', 'INC*0.5', 'X']


def gen_tax_case(rng):
    ncountry = rng.choice([1, 1, 2, 2, 3])
    recipient_mode = rng.choice(['once'] * 16 + ['absent', 'absent', 'dup', 'dup', 'self'])
    countries = []
    pool = ['HH', 'BUS', 'X', 'Y', 'W', 'CAP']
    for ci in range(ncountry):
        secs = []
        for code in rng.sample(pool, rng.randint(1, 3)):
            t = rng.random()
            secs.append({'code': code, 'hasF': rng.random() < 0.97, 'taxable': rng.random() < 0.6,
                         'own_rate': rng.random() < 0.3,
                         'T': None if t < 0.4 else rng.choice(T_PREDEF),
                         'pre_T_flow': rng.random() < 0.07, 'excl_T': rng.random() < 0.1,
                         'extra_flow': rng.random() < 0.2})
        countries.append(secs)
    govs = []
    if recipient_mode in ('once', 'dup'):
        govs.append(rng.randrange(ncountry))
        if recipient_mode == 'dup':
            govs.append(rng.randrange(ncountry))
            if ncountry > 1 and govs[0] == govs[1]:
                govs[1] = (govs[0] + 1) % ncountry
            if govs[0] == govs[1]:
                govs = govs[:1]      # one country cannot hold two GOV sectors
    for ci in set(govs):
        g = {'code': 'GOV', 'hasF': rng.random() < 0.97, 'taxable': rng.random() < 0.1,
             'own_rate': rng.random() < 0.1,
             'T': rng.choice(['0.', '0.0', '', '0.', 'X']) if rng.random() < 0.96 else None,
             'pre_T_flow': False, 'excl_T': rng.random() < 0.15, 'extra_flow': rng.random() < 0.2}
        countries[ci].insert(rng.randint(0, len(countries[ci])), g)
    tfc = rng.randrange(ncountry)
    tf = {'code': 'TF', 'tf': True, 'rate': rng.choice([0.0, 0.1, 0.2, 0.25, 0.3333]),
          'rate_later': rng.choice([None, None, 0.15, 0.5]),
          'paid_to': 'TF' if recipient_mode == 'self' else 'GOV'}
    countries[tfc].insert(rng.randint(0, len(countries[tfc])), tf)
    return {'kind': 'tax', 'countries': countries, 'mode': recipient_mode}


def build_tax(c):
    common.use_impl()
    from sfc_models.models import Model, Country
    from sfc_models.sector import Sector
    from sfc_models.sector_definitions import TaxFlow
    mod = Model()
    tf = None
    for ci, secs in enumerate(c['countries']):
        cn = Country(mod, 'C%d' % ci, currency='CAD')
        for d in secs:
            if d.get('tf'):
                tf = TaxFlow(cn, d['code'], taxrate=d['rate'], taxes_paid_to=d['paid_to'])
                if d['rate_later'] is not None:
                    tf.TaxRate = d['rate_later']
                continue
            s = Sector(cn, d['code'], has_F=d['hasF'])
            s.IsTaxable = d['taxable']
            if d['own_rate']:
                s.AddVariable('TaxRate', 'own rate', '0.1500')
            if d['T'] is not None:
                s.AddVariable('T', 'taxes', d['T'])
            if d['excl_T']:
                mod.AddCashFlowIncomeExclusion(s, 'T')
            if d['hasF'] and d['pre_T_flow']:
                s.AddCashFlow('-T')
            if d['hasF'] and d['extra_flow']:
                s.AddCashFlow('G', '1.0')
    return mod, tf


def run_tax_impl(c):
    mod, tf = build_tax(c)
    mod._GenerateFullSectorCodes()
    zone = tf.CurrencyZone.GetSectors()
    ids = {}
    before = [snap_sector(s, mod, ids) for s in zone]
    err = None
    try:
        for cn in mod.CountryList:
            for s in cn.SectorList:
                s._GenerateEquations()
    except Exception as e:      # noqa
        err = common.exc_class(e)
    after = [snap_sector(s, mod, ids) for s in zone]
    exp = ('err', err) if err else ('ok', [obs_sector(s) for s in zone])
    info = {'me': ids[tf.ID], 'rate_text': '%0.4f' % (tf.TaxRate,), 'paid_to': tf.TaxingSector}
    return before, after, exp, info


def tax_hypotheses(before, info):
    """hypotheses of Tax_bookings_cancel: payers' T absent or empty before; the recipient is not taxable
    (and is not the tax flow itself)"""
    for d in before:
        if d['sid'] != info['me'] and d['taxable'] and not rhs_empty(d, 'T'):
            return False
        if d['code'] == info['paid_to'] and (d['taxable'] or d['sid'] == info['me']):
            return False
    return True


def tax_oracle(c, before, after, exp, info):
    fails = []
    if exp[0] != 'ok':
        return fails, 'error'
    rep = {'kind': 'tax', 'case': c}
    # every taxable sector other than the tax flow pays
    for b, a in zip(before, after):
        if b['sid'] != info['me'] and b['taxable'] and b['code'] != info['paid_to']:
            if f_delta(b, a).get('T', 0) != -1:
                fails.append({'key': 'tax:payer-skipped', 'replay': rep,
                              'what': 'taxable sector %s has no -T entry booked by the tax flow (F terms added: %r)' % (
                                  b['full'], f_delta(b, a))})
            if dict(a['vars']).get('INC') != dict(b['vars']).get('INC'):
                fails.append({'key': 'tax:payer-income-changed', 'replay': rep,
                              'what': 'pre-tax income equation of payer %s changed by the tax flow: %r -> %r' % (
                                  b['full'], dict(b['vars']).get('INC'), dict(a['vars']).get('INC'))})
    # the tax flow's T: one rate*INC product per taxable sector other than itself, the sector's own TaxRate
    # variable when it has one (computed here from the snapshots, independently of the implementation)
    me = [d for d in before if d['sid'] == info['me']][0]
    if me['code'] != info['paid_to']:
        want = []
        for b in before:
            if b['sid'] != info['me'] and b['taxable']:
                rate = (b['full'] if 'TaxRate' in dict(b['vars']) else me['full']) + '__TaxRate'
                want.append('%s*%s__INC' % (rate, b['full']))
        got = render_rhs(dict([d for d in after if d['sid'] == info['me']][0]['vars'])['T'])
        if got != ('+'.join(want) if want else '0.0'):
            fails.append({'key': 'tax:members', 'replay': rep,
                          'what': "tax flow's T is %r, expected one rate*INC product per taxable sector: %r" % (
                              got, '+'.join(want))})
    status, key = 'checked', 'tax:bookings-do-not-cancel'
    if not tax_hypotheses(before, info):
        only_taxable_recipient = all(
            (d['sid'] == info['me'] or not d['taxable'] or rhs_empty(d, 'T') or d['code'] == info['paid_to'])
            and not (d['code'] == info['paid_to'] and d['sid'] == info['me']) for d in before)
        if not only_taxable_recipient:
            return fails, 'outside'
        status, key = 'outside:recipient-taxable', 'tax:recipient-taxable'
    defs = {}
    for b, a in zip(before, after):
        if b['sid'] == info['me'] or b['taxable'] or b['code'] == info['paid_to']:
            e = dict(a['vars']).get('T')
            if e is not None:
                defs[a['full'] + '__T'] = (a['full'], render_py(e))
    for trial in range(2):
        val = Valuation(json.dumps(c, sort_keys=True) + str(trial), defs)
        total = Fraction(0)
        parts = []
        for b, a in zip(before, after):
            for text, coef in sorted(f_delta(b, a).items()):
                x = val.term(a['full'], coef, text)
                total += x
                parts.append('%s: %+d*%s = %s' % (a['full'], coef, text, x))
        if total != 0:
            if key == 'tax:recipient-taxable':
                status = 'outside:recipient-taxable-imbalanced'
                if not REPORT_TAXABLE_RECIPIENT:
                    break
            fails.append({'key': key, 'replay': rep,
                          'what': 'entries booked by the tax flow sum to %s, not 0 (%s)' % (total, '; '.join(parts))})
            break
    return fails, status


def render_py(e):
    """text of (blob, terms, ok) as Equation.GetRightHandSide renders it (for evaluation only)"""
    blob, terms, _ = e
    out = blob
    for c, t in terms:
        if c == 0:
            continue
        out += ('+' if c > 0 else '-') + ('' if abs(c) == 1 else '%d*' % abs(c)) + t
    return out if out else '0'


def emit_tax(before, exp, info):
    return 'tax_case %s %s %s %s %s' % (coq_nat(info['me']), coq_string(info['rate_text']), coq_string(info['paid_to']),
                                        coq_list([emit_sector(d) for d in before]), emit_expected(exp))


# ------------------------------------------------------------------------------------------ dividend cases
def gen_div_case(rng):
    nf = rng.choice([1, 2, 2, 3])
    items = []
    for i in range(nf):
        items.append({'k': 'firm', 'code': 'F%d' % i, 'margin': rng.choice([0.0, 0.1, 0.25, 0.05, 0.5]), 'out': 'G%d' % i,
                      'pre_div': rng.choice([None] * 14 + ['1.0'])})
        items.append({'k': 'market', 'code': 'G%d' % i})
    nown = rng.choice([0, 1, 1, 1, 2, 2])
    for j in range(nown):
        if rng.random() < 0.5:
            items.append({'k': 'cap', 'code': 'CAP%d' % j, 'pre_flow': rng.random() < 0.08})
        else:
            items.append({'k': 'owner', 'code': 'OWN%d' % j, 'hasF': rng.random() < 0.92,
                          'DIV': rng.choice(['', '', '', '', '', '0.0', '0.0', '1.0', 'X-Y']),
                          'pre_flow': rng.random() < 0.1, 'excl': rng.random() < 0.15})
    if rng.random() < 0.6:
        items.append({'k': 'plain', 'code': 'HH'})
    rng.shuffle(items)
    return {'kind': 'dividends', 'items': items, 'second_country': rng.random() < 0.3}


def build_div(c):
    common.use_impl()
    from sfc_models.models import Model, Country
    from sfc_models.sector import Sector, Market
    from sfc_models.sector_definitions import FixedMarginBusiness, Capitalists
    mod = Model()
    ca = Country(mod, 'CA')
    firms = []
    for d in c['items']:
        if d['k'] == 'firm':
            f = FixedMarginBusiness(ca, d['code'], profit_margin=d['margin'], output_name=d['out'])
            if d['pre_div'] is not None:
                f.AddVariable('DIV', 'user', d['pre_div'])
            firms.append(f)
        elif d['k'] == 'market':
            Market(ca, d['code'])
        elif d['k'] == 'cap':
            s = Capitalists(ca, d['code'])
            if d['pre_flow']:
                s.AddCashFlow('DIV')
        elif d['k'] == 'owner':
            s = Sector(ca, d['code'], has_F=d['hasF'])
            s.AddVariable('DIV', 'dividends', d['DIV'])
            if d['excl']:
                mod.AddCashFlowIncomeExclusion(s, 'DIV')
            if d['hasF'] and d['pre_flow']:
                s.AddCashFlow('DIV')
        else:
            Sector(ca, d['code'])
    if c['second_country']:
        us = Country(mod, 'US', currency='CA')
        Sector(us, 'HH')
    return mod, ca, firms


def firm_resets(f):
    sup = f.Parent.LookupSector(f.OutputName).GetVariableName('SUP_' + f.OutputName)
    if f.ProfitMargin == 0:
        return [('DEM_' + f.LabourInputName, sup)]
    return [('DEM_' + f.LabourInputName, ('%0.3f * %s' % (1.0 - f.ProfitMargin, sup)).replace(' ', '')),
            ('PROF', ('%0.3f * %s' % (f.ProfitMargin, sup)).replace(' ', ''))]


def div_proj(d):
    vs = dict(d['vars'])

    def coef(var):
        e = vs.get(var)
        if e is None:
            return None
        for c, t in e[1]:
            if t == 'DIV':
                return c
        return None
    return (None if 'DIV' not in vs else render_rhs(vs['DIV']), coef('F'), coef('INC'))


def render_rhs(e):
    """Equation.GetRightHandSide on a snapshot (blob, terms, ok) — integer constants only"""
    blob, terms, _ = e
    out = blob
    for c, t in terms:
        if c == 0:
            continue
        if c == 1:
            out += '+' + t
        elif c == -1:
            out += '-' + t
        elif c > 0:
            out += '+' + str(float(c)) + '*' + t
        else:
            out += str(float(c)) + '*' + t
    if out.startswith('+'):
        out = out[1:]
    return out if out else '0.0'


def run_div_impl(c):
    from sfc_models.sector_definitions import FixedMarginBusiness
    mod, ca, firms = build_div(c)
    mod._GenerateFullSectorCodes()
    ids = {}
    country = list(ca.SectorList)
    initial = [snap_sector(s, mod, ids) for s in country]
    bizs = [ids[s.ID] for s in country if isinstance(s, FixedMarginBusiness)]
    steps, payers = [], []
    err = None
    for cn in mod.CountryList:
        for s in list(cn.SectorList):
            if isinstance(s, FixedMarginBusiness):
                before = [snap_sector(x, mod, ids) for x in country]
                pr = (ids[s.ID], firm_resets(s))
                payers.append(pr)
                try:
                    s._GenerateEquations()
                    exp = ('ok', [obs_sector(x) for x in country])
                except Exception as e:     # noqa
                    err = common.exc_class(e)
                    exp = ('err', err)
                steps.append((before, pr, exp))
            else:
                try:
                    s._GenerateEquations()
                except Exception as e:     # noqa
                    err = 'other:' + common.exc_class(e)
            if err:
                break
        if err:
            break
    final = [snap_sector(s, mod, ids) for s in country]
    return {'initial': initial, 'final': final, 'bizs': bizs, 'steps': steps, 'payers': payers, 'err': err}


def div_hypotheses(r):
    """a non-business DIV owner exists; its DIV is empty and its F has no DIV term before the first payer;
    every payer's DIV is absent or empty before"""
    init = r['initial']
    recv = None
    for d in init:
        if d['sid'] in r['bizs']:
            if not rhs_empty(d, 'DIV'):
                return None
            continue
        if recv is None and 'DIV' in dict(d['vars']):
            recv = d
    if recv is None:
        return None
    f = dict(recv['vars']).get('F')
    if f is None or any(t == 'DIV' for _, t in f[1]) or not rhs_empty(recv, 'DIV'):
        return None
    return recv


def div_oracle(c, r):
    fails = []
    if r['err']:
        return fails, 'error'
    recv = div_hypotheses(r)
    if recv is None:
        return fails, 'outside'
    rep = {'kind': 'dividends', 'case': c}
    defs = {}
    for a in r['final']:
        if a['sid'] in r['bizs'] or a['sid'] == recv['sid']:
            e = dict(a['vars']).get('DIV')
            if e is not None:
                defs[a['full'] + '__DIV'] = (a['full'], render_py(e))
    for b, a in zip(r['initial'], r['final']):
        if a['sid'] == recv['sid']:
            k = f_delta(b, a).get('DIV', 0)
            if k != 1:
                fails.append({'key': 'dividends:receiver-coefficient', 'replay': rep,
                              'what': 'receiver %s has %+d*DIV booked by %d paying firms (must be +1)' % (
                                  a['full'], k, len(r['payers']))})
    for trial in range(2):
        val = Valuation(json.dumps(c, sort_keys=True) + str(trial), defs)
        total = Fraction(0)
        parts = []
        for b, a in zip(r['initial'], r['final']):
            k = f_delta(b, a).get('DIV', 0)
            if k:
                x = val.term(a['full'], k, 'DIV')
                total += x
                parts.append('%s: %+d*DIV = %s' % (a['full'], k, x))
        if total != 0:
            fails.append({'key': 'dividends:bookings-do-not-cancel', 'replay': rep,
                          'what': 'dividend entries sum to %s, not 0 (%s)' % (total, '; '.join(parts))})
            break
    return fails, 'checked'


def emit_payer(pr):
    return '(%s, %s)' % (coq_nat(pr[0]), coq_list(['(%s, %s)' % (coq_string(k), coq_string(t)) for k, t in pr[1]]))


def emit_div_cases(r):
    cases = []
    bizs = coq_list([coq_nat(b) for b in r['bizs']])
    fn = 'firm_orig_case' if USE_ORIG else 'firm_case'
    for before, pr, exp in r['steps']:
        cases.append('%s %s %s %s %s' % (fn, bizs, emit_payer(pr), coq_list([emit_sector(d) for d in before]),
                                         emit_expected(exp)))
    if r['err'] and r['err'].startswith('other:'):
        return cases
    if r['err']:
        ex = '(Err %s)' % r['err']
    else:
        def o(x, f):
            return 'None' if x is None else '(Some %s)' % f(x)
        ex = '(Ok %s)' % coq_list(['(%s, %s, %s)' % (o(d, coq_string), o(f, coq_Z), o(i, coq_Z))
                                   for d, f, i in [div_proj(x) for x in r['final']]])
    cases.append('%s %s %s %s %s' % ('run_orig_case' if USE_ORIG else 'run_case', bizs,
                                     coq_list([emit_payer(p) for p in r['payers']]),
                                     coq_list([emit_sector(d) for d in r['initial']]), ex))
    return cases


# ------------------------------------------------------------------------------------------ entry points
def extra(ctx, out):
    """Correspondence + oracle for the tax and dividend models; appends to `out`."""
    rng = ctx.rng
    cases, meta = [], []
    dist = {'tax_cases': 0, 'tax_outcome': {}, 'tax_oracle': {}, 'tax_recipient_mode': {}, 'tax_payers': {},
            'div_cases': 0, 'div_outcome': {}, 'div_oracle': {}, 'div_firms': {}, 'div_owners': {}, 'div_step_cases': 0}
    distinct = set()

    def bump(d, k):
        d[str(k)] = d.get(str(k), 0) + 1
    for _ in range(ctx.scale(400, 5000)):
        c = gen_tax_case(rng)
        before, after, exp, info = run_tax_impl(c)
        if not (snap_ok(before) and snap_ok(after)):
            out.failures.append({'key': 'tax:non-integer-coefficient', 'what': 'non-integer coefficient in a ledger equation',
                                 'replay': {'kind': 'tax', 'case': c}})
            continue
        fails, status = tax_oracle(c, before, after, exp, info)
        out.failures.extend(fails)
        cases.append(emit_tax(before, exp, info))
        meta.append(c)
        dist['tax_cases'] += 1
        bump(dist['tax_outcome'], exp[1] if exp[0] == 'err' else 'ok')
        bump(dist['tax_oracle'], status)
        bump(dist['tax_recipient_mode'], c['mode'])
        npay = sum(1 for d in before if d['sid'] != info['me'] and d['taxable'])
        bump(dist['tax_payers'], npay)
        if exp[0] == 'ok' and npay >= 1:
            distinct.add(json.dumps(c, sort_keys=True))
    for _ in range(ctx.scale(250, 3000)):
        c = gen_div_case(rng)
        r = run_div_impl(c)
        if not (snap_ok(r['initial']) and snap_ok(r['final'])):
            out.failures.append({'key': 'dividends:non-integer-coefficient', 'what': 'non-integer coefficient in a ledger equation',
                                 'replay': {'kind': 'dividends', 'case': c}})
            continue
        fails, status = div_oracle(c, r)
        out.failures.extend(fails)
        cs = emit_div_cases(r)
        cases.extend(cs)
        meta.extend([c] * len(cs))
        dist['div_cases'] += 1
        dist['div_step_cases'] += len(r['steps'])
        bump(dist['div_outcome'], r['err'] or 'ok')
        bump(dist['div_oracle'], status)
        bump(dist['div_firms'], len(r['bizs']))
        bump(dist['div_owners'], sum(1 for d in r['initial'] if d['sid'] not in r['bizs'] and 'DIV' in dict(d['vars'])))
        if status == 'checked':
            distinct.add(json.dumps(c, sort_keys=True))
    bad, errs = common.run_bool_cases(FAMILY, REQUIRES, cases, tag='gentax', shard=150)
    out.corr_errors.extend(errs)
    for i in bad[:10]:
        out.disagreements.append({'gen_tax_case': meta[i], 'coq': cases[i][:600]})
    out.evaluations += len(cases)
    out.nontrivial += len(distinct)
    dist['coq_cases'] = len(cases)
    dist['disagreements'] = len(bad)
    dist['model'] = 'dividends_orig (pre-fix)' if USE_ORIG else 'HEAD'
    out.extra['tax_model'] = dist
    if meta:
        out.samples.append({'gen_tax_case': meta[0]})
    return out


def replay(path_obj):
    """Re-run a replay ({'kind': 'tax'|'dividends', 'case': ...}) on the implementation only.
    Accepts the path of a replay file or the loaded object; returns 1 if the property is violated,
    0 if it holds, None if the replay is not one of ours."""
    obj = json.load(open(path_obj)) if isinstance(path_obj, str) else path_obj
    r = obj.get('replay', obj) or {}
    kind = r.get('kind')
    if kind == 'tax':
        before, after, exp, info = run_tax_impl(r['case'])
        fails, status = tax_oracle(r['case'], before, after, exp, info)
    elif kind == 'dividends':
        res = run_div_impl(r['case'])
        fails, status = div_oracle(r['case'], res)
    else:
        return None
    for f in fails:
        print('FAILS:', f['what'][:400])
    print('replay: %s' % ('property violated' if fails else 'property holds on this input (%s)' % status))
    return 1 if fails else 0
