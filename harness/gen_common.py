"""Shared machinery for the generator-family properties (C01 C04 C05 C07 C08 C09 C18).

* a *program* is a JSON-able description of a model (countries, optional external sector, sector
  declarations with constructor arguments, user operations); `build(prog)` renders it 1:1 into
  public-API calls on the implementation (common.REPO);
* `emit(mod)` runs the model pipeline up to FinalEquations (no solve) and parses the emitted text
  with the implementation's own EquationParser into `[(name, ('def', ast) | ('lag', src) |
  ('exo', spec))]`;
* `coq_sys(system)` renders that as a Coq `sys` (coq/Gen/Expand.v), right-hand sides converted with
  Python's `ast` (numeric literals as exact rationals of the double the solver would use);
* `choose_cut(system)` proposes the cut set for the verified expander (untrusted hint);
* random program generators (single economy, federated zone, several currency zones with an
  external sector, gold standard) driven by one `random.Random`.
"""
import ast
import copy
import json
import re
from fractions import Fraction

import common
from common import coq_string, coq_list, coq_Q

GEN_REQUIRES = ['From SFC.Base Require Import Res Expr.', 'From SFC.Gen Require Import Poly Expand Checker Fx CaseDefs.']


# ----------------------------------------------------------------------------------------------
# programs -> implementation objects

class BuildError(Exception):
    pass


def _cls(name):
    import sfc_models.sector as sector
    import sfc_models.sector_definitions as sd
    if hasattr(sd, name):
        return getattr(sd, name)
    return getattr(sector, name)


def subst_names(text, objs):
    """Replace {sector_id:VAR} by what GetVariableName returns right now."""
    def rep(m):
        return objs[m.group(1)].GetVariableName(m.group(2))
    return re.sub(r'\{(\w+):(\w+)\}', rep, text)


_ID_BASES = (0, 7, 96, 994)


def id_base_of(prog):
    """The value the library's object counter (EconomicObject.ID) starts from for this program: a function of the
    program's own steps, so that a replay in a fresh process rebuilds the same placeholder names (`_<id>__`), and so
    that ids with 1, 2, 3 and 4 digits all occur whatever was built earlier in the process."""
    import zlib
    return _ID_BASES[zlib.crc32(json.dumps(prog['steps'], sort_keys=True, default=str).encode()) % len(_ID_BASES)]


def build(prog, after_step=None, fixed_ids=True):
    """Execute the steps of a program.  Returns (model, objects-by-id).  `after_step(i)` is called
    after step i (used to interleave the construction of several models).  With `fixed_ids` the object counter
    starts from id_base_of(prog) (not when the construction is interleaved with another one)."""
    from sfc_models.models import Model, Country, Region
    from sfc_models.external import ExternalSector
    if fixed_ids and after_step is None:
        try:
            from sfc_models.models import EconomicObject
            if isinstance(getattr(EconomicObject, 'ID', None), int):
                EconomicObject.ID = id_base_of(prog)
        except ImportError:
            pass
    mod = Model()
    mod.MaxTime = prog.get('maxtime', 5)
    objs = {'model': mod}
    pending = []
    for i_step, st in enumerate(prog['steps']):
        if after_step is not None and i_step > 0:
            after_step(i_step - 1)
        k = st['kind']
        if k == 'country':
            cls = Region if st.get('region') else Country
            objs[st['id']] = cls(mod, st['code'], currency=st.get('currency'))
        elif k == 'external':
            ext = ExternalSector(mod)
            objs[st['id']] = ext
            objs['XR'] = ext['XR']
            objs['FX'] = ext['FX']
            objs['GOLD'] = ext['GOLD']
        elif k == 'sector':
            kw = dict(st.get('kw', {}))
            for key in list(kw):
                v = kw[key]
                if isinstance(v, dict) and 'ref' in v and v.get('late_ok') and v['ref'] not in objs:
                    # the referenced object does not exist yet: create without it and attach it through
                    # the attribute as soon as it exists (CentralBank.Treasury, as gl_book's PC builder does)
                    pending.append((st['id'], v['attr'], v['ref']))
                    del kw[key]
                elif isinstance(v, dict) and 'ref' in v:
                    kw[key] = objs[v['ref']]
                elif isinstance(v, dict) and 'refs' in v:
                    kw[key] = [objs[r] for r in v['refs']]
            objs[st['id']] = _cls(st['cls'])(objs[st['country']], st['code'], **kw)
            for (sid_, attr_, ref_) in list(pending):
                if ref_ in objs and sid_ in objs:
                    setattr(objs[sid_], attr_, objs[ref_])
                    pending.remove((sid_, attr_, ref_))
        elif k == 'op':
            run_op(mod, objs, st)
        else:
            raise BuildError('unknown step ' + k)
    return mod, objs


def run_op(mod, objs, st):
    op = st['op']
    if op == 'AddVariable':
        objs[st['sector']].AddVariable(st['name'], st.get('desc', ''), subst_names(st['eqn'], objs))
    elif op == 'SetRHS':
        objs[st['sector']].SetEquationRightHandSide(st['name'], subst_names(st['eqn'], objs))
    elif op == 'SetExogenous':
        v = st['value']
        if st.get('as') == 'list':
            v = eval(v)
        elif st.get('as') == 'tuple':
            v = tuple(eval(v))
        objs[st['sector']].SetExogenous(st['name'], v)
    elif op == 'AddInitialCondition':
        objs[st['sector']].AddInitialCondition(st['name'], st['value'])
    elif op == 'RegisterCashFlow':
        mod.RegisterCashFlow(objs[st['src']], objs[st['tgt']], st['var'],
                             is_income_source=st.get('inc_src', True), is_income_dest=st.get('inc_tgt', True))
    elif op == 'AddGlobalEquation':
        mod.AddGlobalEquation(st['name'], st.get('desc', ''), subst_names(st['eqn'], objs))
    elif op == 'AddSupplier':
        eqn = st.get('eqn')
        objs[st['market']].AddSupplier(objs[st['supplier']], subst_names(eqn, objs) if eqn else eqn)
    elif op == 'AddMarket':
        objs[st['sector']].AddMarket(objs[st['market']])
    elif op == 'AssetWeighting':
        objs[st['sector']].GenerateAssetWeighting([(c, subst_names(e, objs)) for c, e in st['weights']], st['residual'])
    elif op == 'AddTermToEq':
        objs[st['sector']].AddTermToEquation(st['name'], subst_names(st['term'], objs))
    elif op == 'LogInfo':
        mod.LogInfo()
    elif op == 'SetAttr':
        setattr(objs[st['sector']], st['attr'], st['value'] if 'ref' not in st else objs[st['ref']])
    elif op == 'AddCashFlow':
        e = st.get('eqn')
        objs[st['sector']].AddCashFlow(st['term'], subst_names(e, objs) if e else e, st.get('desc'), st.get('is_income', True))
    else:
        raise BuildError('unknown op ' + op)


def generate_equations(mod):
    """The equation block Model.main() hands to its solver: the REAL main() is run (its own sequence of steps and its own
    exception handling); on the model's own solver object ParseString is replaced by a recorder and SolveEquation by a
    no-op for the duration of the call (every other attribute of the solver stays what it is, so a main() that touches
    the solver in other ways keeps working).  main() catches Warning (it logs it through LogInfo and returns); the
    harness re-raises it, because the models report it as an outcome of their own (Err Warning_)."""
    import contextlib
    import io
    seen = []
    got = []
    orig_log = mod.LogInfo

    def log_info(*a, **kw):
        ex = kw.get('ex', a[1] if len(a) > 1 else None)
        if ex is not None:
            seen.append(ex)
        return orig_log(*a, **kw)

    def parse_string(text, *a, **kw):
        got.append(text)
        return ''

    def solve_equation(*a, **kw):
        return None
    solver = mod.EquationSolver
    solver.ParseString = parse_string
    solver.SolveEquation = solve_equation
    mod.LogInfo = log_info
    try:
        with contextlib.redirect_stdout(io.StringIO()):
            mod.main()
    finally:
        for obj, name in ((solver, 'ParseString'), (solver, 'SolveEquation'), (mod, 'LogInfo')):
            try:
                delattr(obj, name)
            except AttributeError:
                pass
    warned = [e for e in seen if isinstance(e, Warning)]
    if warned:
        raise warned[0]
    if not got:
        raise BuildError('Model.main() returned without handing a block to its solver')
    return got[-1]


# ----------------------------------------------------------------------------------------------
# emitted text -> system

class Unsupported(Exception):
    pass


def parse_final(text):
    """[(name, kind)] in the order the implementation's parser lists them; kind is
    ('def', rhs_text) | ('lag', src) | ('exo', spec_text).  Also returns the parser."""
    from sfc_models.equation_parser import EquationParser
    p = EquationParser()
    p.ParseString(text)
    out = []
    for v, e in p.Endogenous:
        out.append((v, ('def', e)))
    for v, s in p.Lagged:
        out.append((v, ('lag', s.strip())))
    for v, e in p.Exogenous:
        out.append((v, ('exo', e)))
    return out, p


def to_ast(text):
    """Python expression text -> nested tuples mirroring coq/Base/Expr.v."""
    try:
        tree = ast.parse(text.strip(), mode='eval').body
    except SyntaxError:
        raise Unsupported('cannot parse %r' % text)
    return _conv(tree)


def _conv(n):
    if isinstance(n, ast.Constant) and isinstance(n.value, (int, float)) and not isinstance(n.value, bool):
        return ('num', Fraction(n.value))
    if isinstance(n, ast.Name):
        return ('var', n.id)
    if isinstance(n, ast.UnaryOp) and isinstance(n.op, ast.USub):
        return ('neg', _conv(n.operand))
    if isinstance(n, ast.UnaryOp) and isinstance(n.op, ast.UAdd):
        return ('pos', _conv(n.operand))
    if isinstance(n, ast.BinOp):
        ops = {ast.Add: 'add', ast.Sub: 'sub', ast.Mult: 'mul', ast.Div: 'div'}
        for k, v in ops.items():
            if isinstance(n.op, k):
                return (v, _conv(n.left), _conv(n.right))
    if isinstance(n, ast.Call) and isinstance(n.func, ast.Name) and not n.keywords:
        f = n.func.id
        if f in ('abs', 'sqrt', 'float') and len(n.args) == 1:
            return ('call1', f, _conv(n.args[0]))
        if f in ('max', 'min') and len(n.args) == 2:
            return ('call2', f, _conv(n.args[0]), _conv(n.args[1]))
    raise Unsupported('unsupported expression node %s' % ast.dump(n)[:80])


def ast_names(t):
    k = t[0]
    if k == 'num':
        return []
    if k == 'var':
        return [t[1]]
    if k in ('neg', 'pos'):
        return ast_names(t[1])
    if k == 'call1':
        return ast_names(t[2])
    if k == 'call2':
        return ast_names(t[2]) + ast_names(t[3])
    return ast_names(t[1]) + ast_names(t[2])


def ast_size(t):
    k = t[0]
    if k in ('num', 'var'):
        return 1
    if k in ('neg', 'pos'):
        return 1 + ast_size(t[1])
    if k == 'call1':
        return 1 + ast_size(t[2])
    if k == 'call2':
        return 1 + ast_size(t[2]) + ast_size(t[3])
    return 1 + ast_size(t[1]) + ast_size(t[2])


def coq_expr(t):
    k = t[0]
    if k == 'num':
        return '(ENum %s)' % coq_Q(t[1])
    if k == 'var':
        return '(EVar %s)' % coq_string(t[1])
    if k == 'neg':
        return '(ENeg %s)' % coq_expr(t[1])
    if k == 'pos':
        return '(EPos %s)' % coq_expr(t[1])
    if k == 'call1':
        return '(ECall1 %s %s)' % ({'abs': 'Fabs', 'sqrt': 'Fsqrt', 'float': 'Ffloat'}[t[1]], coq_expr(t[2]))
    if k == 'call2':
        return '(ECall2 %s %s %s)' % ({'max': 'Fmax', 'min': 'Fmin'}[t[1]], coq_expr(t[2]), coq_expr(t[3]))
    return '(%s %s %s)' % ({'add': 'EAdd', 'sub': 'ESub', 'mul': 'EMul', 'div': 'EDiv'}[k], coq_expr(t[1]), coq_expr(t[2]))


def system_of(text):
    """[(name, ('def', ast) | ('lag', src) | ('exo', spec))] from the emitted text."""
    raw, parser = parse_final(text)
    out = []
    for v, (k, x) in raw:
        out.append((v, ('def', to_ast(x)) if k == 'def' else (k, x)))
    return out, parser


def coq_kind(k):
    if k[0] == 'def':
        return '(KDef %s)' % coq_expr(k[1])
    if k[0] == 'lag':
        return '(KLag %s)' % coq_string(k[1])
    return '(KExo %s)' % coq_string(k[1])


def coq_sys(system):
    return coq_list(['(%s, %s)' % (coq_string(v), coq_kind(k)) for v, k in system])


def sum_ast(terms):
    """terms: list of (sign, ast)."""
    acc = None
    for sg, t in terms:
        if acc is None:
            acc = t if sg > 0 else ('neg', t)
        else:
            acc = ('add', acc, t) if sg > 0 else ('sub', acc, t)
    return acc if acc is not None else ('num', Fraction(0))


# ----------------------------------------------------------------------------------------------
# cut-set hint (untrusted)

def _badness(t):
    lits = 0
    muls = 0

    def go(u):
        nonlocal lits, muls
        k = u[0]
        if k == 'num':
            if u[1] not in (0, 1):
                lits += 1
        elif k in ('mul', 'div'):
            muls += 1
            go(u[1]); go(u[2])
        elif k in ('add', 'sub'):
            go(u[1]); go(u[2])
        elif k in ('neg', 'pos'):
            go(u[1])
        elif k == 'call1':
            lits += 2; go(u[2])
        elif k == 'call2':
            lits += 2; go(u[2]); go(u[3])
    go(t)
    return lits * 10 + muls * 3 + ast_size(t)


def avoid_set(mod):
    """Variables whose definitions are accounting plumbing (markets, tax flows, FX, ledgers):
    the cut-set heuristic keeps them expandable whenever it can."""
    out = set()
    for s in mod.GetSectors():
        for v in s.EquationBlock.GetEquationList():
            full = s.GetVariableName(v)
            if (not s.HasF) or v in ('F', 'INC', 'LAG_F', 'T') or v.startswith('SUP_') or v.startswith('INT'):
                out.add(full)
    return out


def choose_cut(system, prefer=(), avoid=()):
    """A feedback vertex set of the definition graph, chosen greedily among the most
    'behavioural-looking' definitions of each non-trivial strongly connected component."""
    defs = {v: k[1] for v, k in system if k[0] == 'def'}
    graph = {v: [n for n in set(ast_names(t)) if n in defs] for v, t in defs.items()}
    cut = set(p for p in prefer if p in defs)
    while True:
        sccs = _sccs({v: [n for n in ns if n not in cut] for v, ns in graph.items() if v not in cut})
        cyc = [c for c in sccs if len(c) > 1 or (len(c) == 1 and c[0] in graph[c[0]] and c[0] not in cut)]
        if not cyc:
            return sorted(cut)
        for c in cyc:
            best = max(c, key=lambda v: (v not in avoid, _badness(defs[v]), v))
            cut.add(best)
            break


def _sccs(g):
    index = {}
    low = {}
    stack = []
    on = set()
    out = []
    counter = [0]
    import sys
    sys.setrecursionlimit(10000)

    def strong(v):
        index[v] = low[v] = counter[0]
        counter[0] += 1
        stack.append(v); on.add(v)
        for wv in g.get(v, []):
            if wv not in g:
                continue
            if wv not in index:
                strong(wv)
                low[v] = min(low[v], low[wv])
            elif wv in on:
                low[v] = min(low[v], index[wv])
        if low[v] == index[v]:
            comp = []
            while True:
                x = stack.pop(); on.discard(x); comp.append(x)
                if x == v:
                    break
            out.append(comp)
    for v in g:
        if v not in index:
            strong(v)
    return out


# ----------------------------------------------------------------------------------------------
# object-model facts used to state targets (public attributes only)

def zones_info(mod):
    """[(currency, [full F-name of every sector with HasF in the zone], net-name or None)]"""
    out = []
    ext = mod.ExternalSector
    for cz in mod.CurrencyZoneList:
        fs = [(s.GetVariableName('F'), s.GetVariableName('LAG_F')) for s in cz.GetSectors() if s.HasF]
        net = None
        if ext is not None:
            fx = ext['FX']
            if 'NET_' + cz.Currency in fx.EquationBlock:
                net = fx.GetVariableName('NET_' + cz.Currency)
        out.append((cz.Currency, fs, net))
    return out


# ----------------------------------------------------------------------------------------------
# random programs

def _fmt(x, nd=4):
    return round(x, nd)


def step_deps(st):
    deps = []
    for v in st.get('kw', {}).values():
        if isinstance(v, dict) and 'ref' in v and not v.get('late_ok'):
            deps.append(v['ref'])
        elif isinstance(v, dict) and 'refs' in v:
            deps.extend(v['refs'])
    return deps


def random_topological(rng, sec):
    """A random order of sector declarations in which every object exists before it is passed to
    another object's constructor."""
    remaining = list(sec)
    done, out = set(), []
    ids = set(st['id'] for st in sec)
    while remaining:
        ready = [st for st in remaining if all((d in done) or (d not in ids) for d in step_deps(st))]
        st = rng.choice(ready)
        remaining.remove(st)
        done.add(st['id'])
        out.append(st)
    return out


class ProgGen(object):
    """Random well-formed programs.  Every random choice comes from self.rng."""

    def __init__(self, rng, allow_rename=True, decimals=4, shuffle=True, explicit_gov_demand=False):
        self.rng = rng
        self.shuffle = shuffle
        self.explicit_gov_demand = explicit_gov_demand
        self.allow_rename = allow_rename
        self.decimals = decimals
        self.n = 0

    def uid(self, base):
        self.n += 1
        return '%s%d' % (base, self.n)

    # -- one economy (one country) ---------------------------------------------------------
    def economy(self, steps, cid, ccode, currency=None, region=False, gov='random', gold=False, ext=False,
                names=None, allow_capitalists=True, with_gov=True, tax_to=None, extra_dem=None):
        rng = self.rng
        nm = {'GOV': 'GOV', 'TRE': 'TRE', 'CB': 'CB', 'HH': 'HH', 'HH2': 'HW', 'BUS': 'BUS', 'CAP': 'CAP', 'TF': 'TF',
              'GOOD': 'GOOD', 'LAB': 'LAB', 'MON': 'MON', 'DEP': 'DEP'}
        if names:
            nm.update(names)
        steps.append({'kind': 'country', 'id': cid, 'code': ccode, 'currency': currency, 'region': region})
        info = {'cid': cid, 'ccode': ccode, 'sectors': {}, 'nm': nm}
        sec = []
        ops = []

        def add(role, cls, code, **kw):
            sid = '%s_%s' % (cid, role)
            sec.append({'kind': 'sector', 'id': sid, 'cls': cls, 'country': cid, 'code': code, 'kw': kw})
            info['sectors'][role] = sid
            return sid
        if gov == 'random':
            gov = rng.choice(['consolidated', 'consolidated', 'treasury_cb'])
        govid = None
        if with_gov:
            if gov == 'consolidated':
                if gold and ext:
                    govid = add('GOV', 'GoldStandardGovernment', nm['GOV'], initial_gold_stock=_fmt(rng.uniform(0, 50), 1))
                else:
                    govid = add('GOV', 'ConsolidatedGovernment', nm['GOV'])
                govcode = nm['GOV']
            else:
                govid = add('GOV', 'Treasury', nm['TRE'])
                govcode = nm['TRE']
                if gold and ext:
                    add('CB', 'GoldStandardCentralBank', nm['CB'], treasury={'ref': govid},
                        initial_gold_stock=_fmt(rng.uniform(0, 50), 1))
                elif rng.random() < 0.5:
                    # either order of declaration: passed to the constructor when the treasury already exists, attached
                    # through the Treasury attribute (as gl_book's PC builder does) when the central bank comes first
                    add('CB', 'CentralBank', nm['CB'], treasury={'ref': govid, 'late_ok': True, 'attr': 'Treasury'})
                else:
                    add('CB', 'CentralBank', nm['CB'], treasury={'ref': govid})
            info['gov_kind'] = gov
        # households
        exp = rng.random() < 0.3
        hh_cls = 'HouseholdWithExpectations' if exp else 'Household'
        hkw = {'alpha_income': _fmt(rng.uniform(0.5, 0.9), self.decimals), 'alpha_fin': _fmt(rng.uniform(0.1, 0.5), self.decimals)}
        if nm['GOOD'] != 'GOOD':
            hkw['consumption_good_name'] = nm['GOOD']
        if nm['LAB'] != 'LAB':
            hkw['labour_name'] = nm['LAB']
        hh = add('HH', hh_cls, nm['HH'], **hkw)
        two_hh = rng.random() < 0.3
        if two_hh:
            hkw2 = dict(hkw)
            hkw2['alpha_income'] = _fmt(rng.uniform(0.5, 0.9), self.decimals)
            hh2 = add('HH2', 'Household', nm['HH2'], **hkw2)
        # business
        margin = rng.choice([0.0, _fmt(rng.uniform(0.05, 0.3), 3), _fmt(rng.uniform(0.05, 0.3), 3)])
        multi = rng.random() < 0.3
        goods_first = multi
        bkw = {'profit_margin': margin}
        if nm['LAB'] != 'LAB':
            bkw['labour_input_name'] = nm['LAB']
        if multi:
            goods = add('GOOD', 'Market', nm['GOOD'])
            bus = add('BUS', 'FixedMarginBusinessMultiOutput', nm['BUS'], market_list={'refs': [goods]}, **bkw)
            ops.append({'kind': 'op', 'op': 'AddSupplier', 'market': goods, 'supplier': bus})
            margin_for_cap = 0.0
        else:
            if nm['GOOD'] != 'GOOD':
                bkw['output_name'] = nm['GOOD']
            bus = add('BUS', 'FixedMarginBusiness', nm['BUS'], **bkw)
            margin_for_cap = margin
        # optional second firm selling a second good (services) that the government buys
        two_bus = with_gov and (not multi) and rng.random() < 0.3
        if two_bus:
            margin2 = rng.choice([0.0] + [_fmt(rng.uniform(0.05, 0.3), 3) for _ in range(4)])
            b2kw = {'profit_margin': margin2, 'output_name': 'SERV'}
            if nm['LAB'] != 'LAB':
                b2kw['labour_input_name'] = nm['LAB']
            add('BUS2', 'FixedMarginBusiness', 'BSV', **b2kw)
            info['two_bus'] = True
            margin_for_cap = max(margin_for_cap, margin2)
        if allow_capitalists and margin_for_cap > 0 and rng.random() < 0.7:
            ckw = {'alpha_income': _fmt(rng.uniform(0.5, 0.9), self.decimals), 'alpha_fin': _fmt(rng.uniform(0.1, 0.5), self.decimals)}
            if nm['GOOD'] != 'GOOD':
                ckw['consumption_good_name'] = nm['GOOD']
            add('CAP', 'Capitalists', nm['CAP'], **ckw)
        if with_gov or tax_to:
            add('TF', 'TaxFlow', nm['TF'], taxrate=_fmt(rng.uniform(0.05, 0.4), self.decimals),
                taxes_paid_to=(tax_to or govcode))
        lab = add('LAB', 'Market', nm['LAB'])
        if not goods_first:
            goods = add('GOOD', 'Market', nm['GOOD'])
        if two_bus:
            add('SERV', 'Market', 'SERV')
            ops.append({'kind': 'op', 'op': 'AddVariable', 'sector': govid, 'name': 'DEM_SERV', 'eqn': '0.0'})
            ops.append({'kind': 'op', 'op': 'SetExogenous', 'sector': govid, 'name': 'DEM_SERV',
                        'value': '[%s]*40' % _fmt(rng.uniform(1, 10), 1)})
        if two_hh:
            ops.append({'kind': 'op', 'op': 'AddSupplier', 'market': lab, 'supplier': hh})
            ops.append({'kind': 'op', 'op': 'AddSupplier', 'market': lab, 'supplier': hh2,
                        'eqn': '%s*DEM_%s' % (_fmt(rng.uniform(0.1, 0.6), 2), nm['LAB'])})
        if with_gov and gov == 'treasury_cb':
            add('MON', 'MoneyMarket', nm['MON'], issuer_short_code=nm['CB'])
            dep = add('DEP', 'DepositMarket', nm['DEP'], issuer_short_code=nm['TRE'])
            two_assets = rng.random() < 0.4
            if two_assets:
                bond = add('BOND', 'DepositMarket', 'BOND', issuer_short_code=nm['TRE'])
                ops.append({'kind': 'op', 'op': 'SetExogenous', 'sector': bond, 'name': 'r',
                            'value': '[%s]*40' % _fmt(rng.uniform(0.0, 0.06), 3)})
            if rng.random() < 0.8 or two_assets:
                w = '%s + %s*{%s:r}' % (_fmt(rng.uniform(0.2, 0.4), 3), _fmt(rng.uniform(0.5, 3), 2), dep)
                weights = [[nm['DEP'], w]]
                if two_assets:
                    weights.append(['BOND', '%s + %s*{%s:r}' % (_fmt(rng.uniform(0.1, 0.3), 3), _fmt(rng.uniform(0.5, 2), 2), bond)])
                    if rng.random() < 0.5:
                        weights.reverse()
                ops.append({'kind': 'op', 'op': 'AssetWeighting', 'sector': hh, 'weights': weights, 'residual': nm['MON']})
                info['weighted'] = [(hh, [wc for wc, _ in weights], nm['MON'])]
            ops.append({'kind': 'op', 'op': 'SetExogenous', 'sector': dep, 'name': 'r',
                        'value': '[%s]*40' % _fmt(rng.uniform(0.0, 0.05), 3)})
        elif with_gov and rng.random() < 0.3 and not gold:
            add('MON', 'MoneyMarket', nm['MON'], issuer_short_code=nm['GOV'])
        # government demand (DEM_GOOD is a fixed literal name in the government classes)
        if with_gov:
            gval = _fmt(rng.uniform(5, 40), 1)
            as_kind = rng.choice([None, 'list', 'tuple'])
            if nm['GOOD'] == 'GOOD' and not self.explicit_gov_demand:
                ops.append({'kind': 'op', 'op': 'SetExogenous', 'sector': govid, 'name': 'DEM_GOOD',
                            'value': '[%s]*40' % gval, 'as': as_kind})
            else:
                ops.append({'kind': 'op', 'op': 'AddVariable', 'sector': govid, 'name': 'DEM_' + nm['GOOD'], 'eqn': '0.0'})
                ops.append({'kind': 'op', 'op': 'SetExogenous', 'sector': govid, 'name': 'DEM_' + nm['GOOD'],
                            'value': '[%s]*40' % gval})
        # a sector-specific tax rate (TaxFlow uses the sector's own TaxRate variable when it has one)
        if (with_gov or tax_to) and rng.random() < 0.25:
            ops.append({'kind': 'op', 'op': 'AddVariable', 'sector': hh, 'name': 'TaxRate', 'eqn': '%0.4f' % rng.uniform(0.05, 0.3)})
        # a gift inside the country
        if with_gov and rng.random() < 0.35:
            ops.append({'kind': 'op', 'op': 'AddVariable', 'sector': govid, 'name': 'GIFT', 'eqn': str(_fmt(rng.uniform(0.5, 3), 2))})
            ops.append({'kind': 'op', 'op': 'RegisterCashFlow', 'src': govid, 'tgt': hh, 'var': 'GIFT',
                        'inc_src': rng.random() < 0.5, 'inc_tgt': rng.random() < 0.5})
        if self.shuffle and rng.random() < 0.6:
            sec = random_topological(rng, sec)
        steps.extend(sec)
        info['ops'] = ops
        info['markets'] = {'GOOD': goods, 'LAB': lab}
        info['gov'] = govid
        return info

    # -- whole programs ------------------------------------------------------------------------
    def single(self, names=None, cid='c1', currency=None):
        steps = []
        info = self.economy(steps, cid, (names or {}).get('COUNTRY', 'CA'), names=names, currency=currency)
        steps.extend(info['ops'])
        return {'maxtime': self.rng.choice([3, 5, 8]), 'steps': steps, 'shape': 'single', 'infos': [info]}

    def federated(self, codes=None, cid_prefix='c', default_currency=True):
        """Two or three regions sharing a currency; central government in the first.  The later
        regions are created as Region objects without an explicit currency: they take the model's
        default currency (that of the most recently added country)."""
        rng = self.rng
        steps = []
        n = rng.choice([2, 2, 3])
        codes = (codes or ['GV', 'N', 'S', 'W'])[:n]
        cur = None if default_currency else 'LOC'
        infos = []
        i0 = self.economy(steps, cid_prefix + '1', codes[0], currency=cur, gov='random')
        infos.append(i0)
        govid = i0['gov']
        ops = list(i0['ops'])
        for j in range(1, n):
            ij = self.economy(steps, '%s%d' % (cid_prefix, j + 1), codes[j], currency=cur, region=default_currency,
                              with_gov=False, tax_to=None, allow_capitalists=True)
            infos.append(ij)
            ops.extend(ij['ops'])
            # government also buys in this region's goods market (cross-country name: DEM_<country>_<market>)
            nmv = 'DEM_%s_GOOD' % codes[j]
            ops.append({'kind': 'op', 'op': 'AddVariable', 'sector': govid, 'name': nmv, 'eqn': '0.0'})
            ops.append({'kind': 'op', 'op': 'SetExogenous', 'sector': govid, 'name': nmv,
                        'value': '[%s]*40' % _fmt(rng.uniform(2, 20), 1)})
        steps.extend(ops)
        return {'maxtime': rng.choice([3, 5]), 'steps': steps, 'shape': 'federated', 'infos': infos}

    def multizone(self, gold=False):
        """Two or three currency zones, an external sector, cross-zone gifts and non-unit rates."""
        rng = self.rng
        steps = []
        n = rng.choice([2, 2, 3])
        codes = ['CA', 'US', 'JP'][:n]
        pos = rng.randint(0, n)
        infos, ops = [], []
        for j in range(n):
            if j == pos:
                steps.append({'kind': 'external', 'id': 'ext'})
            ij = self.economy(steps, 'c%d' % (j + 1), codes[j], gov='consolidated' if gold else 'random',
                              gold=(gold and j == 0), ext=True)
            infos.append(ij)
            ops.extend(ij['ops'])
        if pos == n:
            steps.append({'kind': 'external', 'id': 'ext'})
        # exchange rates
        for j in range(n):
            if rng.random() < 0.85:
                a, b = _fmt(rng.uniform(0.5, 2.0), 2), _fmt(rng.uniform(0.5, 2.0), 2)
                ops.append({'kind': 'op', 'op': 'SetExogenous', 'sector': 'XR', 'name': codes[j],
                            'value': '[%s]*3 + [%s]*40' % (a, b)})
        # cross-zone gifts
        for _ in range(rng.randint(1, 3)):
            a, b = rng.sample(range(n), 2)
            src = infos[a]['sectors']['HH']
            tgt = infos[b]['sectors'][rng.choice(['HH', 'GOV'])]
            var = self.uid('REMIT')
            ops.append({'kind': 'op', 'op': 'AddVariable', 'sector': src, 'name': var, 'eqn': str(_fmt(rng.uniform(0.2, 2), 2))})
            ops.append({'kind': 'op', 'op': 'RegisterCashFlow', 'src': src, 'tgt': tgt, 'var': var,
                        'inc_src': rng.random() < 0.5, 'inc_tgt': rng.random() < 0.5})
        # imports: a firm of zone b supplies part of zone a's goods market (cross-currency supplier)
        for _ in range(rng.choice([0, 1, 1, 2])):
            a, b = rng.sample(range(n), 2)
            mkt = infos[a]['markets']['GOOD']
            sup = infos[b]['sectors']['BUS']
            key = (mkt, sup)
            if any(o.get('op') == 'AddSupplier' and (o['market'], o['supplier']) == key for o in ops):
                continue
            supcls = [st for st in steps if st.get('id') == sup][0]['cls']
            if supcls == 'FixedMarginBusinessMultiOutput':
                ops.append({'kind': 'op', 'op': 'AddMarket', 'sector': sup, 'market': mkt})
            if rng.random() < 0.4:
                # allocation written with a name requested before main() (REG-style import propensity)
                share = '%s*{%s:INC}' % (_fmt(rng.uniform(0.02, 0.1), 3), infos[a]['sectors']['HH'])
            else:
                share = '%s*DEM_%s' % (_fmt(rng.uniform(0.05, 0.3), 2), infos[a]['nm']['GOOD'])
            home = infos[a]['sectors']['BUS']
            home_has_rule = any(o.get('op') == 'AddSupplier' and o['market'] == mkt and o['supplier'] == home for o in ops)
            if rng.random() < 0.35 and not home_has_rule and not any(o.get('op') == 'AddSupplier' and o['market'] == mkt and not o.get('eqn') and o['supplier'] != home for o in ops):
                # the foreign firm is the RESIDUAL supplier; the home firm gets the allocation rule
                ops[:] = [o for o in ops if not (o.get('op') == 'AddSupplier' and o['market'] == mkt and o['supplier'] == home)]
                ops.append({'kind': 'op', 'op': 'AddSupplier', 'market': mkt, 'supplier': home,
                            'eqn': '%s*DEM_%s' % (_fmt(rng.uniform(0.5, 0.9), 2), infos[a]['nm']['GOOD'])})
                ops.append({'kind': 'op', 'op': 'AddSupplier', 'market': mkt, 'supplier': sup})
            else:
                ops.append({'kind': 'op', 'op': 'AddSupplier', 'market': mkt, 'supplier': sup, 'eqn': share})
        steps.extend(ops)
        return {'maxtime': rng.choice([3, 5]), 'steps': steps, 'shape': 'gold' if gold else 'multizone', 'infos': infos}

    def any(self):
        r = self.rng.random()
        if r < 0.4:
            return self.single()
        if r < 0.6:
            return self.federated()
        if r < 0.9:
            return self.multizone()
        return self.multizone(gold=True)


def permute_declarations(rng, prog):
    """The same program with the sector declarations of every country in another
    dependency-respecting order (countries, external sector and user operations stay in place)."""
    steps = prog['steps']
    out, i = [], 0
    while i < len(steps):
        if steps[i]['kind'] == 'sector':
            j = i
            while j < len(steps) and steps[j]['kind'] == 'sector' and steps[j]['country'] == steps[i]['country']:
                j += 1
            out.extend(random_topological(rng, steps[i:j]))
            i = j
        else:
            out.append(steps[i]); i += 1
    q = dict(prog)
    q['steps'] = out
    return q


def strip_prog(prog):
    """The JSON-able part of a program (for replays)."""
    weighted = list(prog.get('weighted', []))
    for info in prog.get('infos', []):
        weighted.extend(info.get('weighted', []))
    return {'maxtime': prog['maxtime'], 'steps': prog['steps'], 'shape': prog.get('shape'), 'weighted': weighted}
