"""Whole-pipeline model of Model.main() for single-currency programs (coq/GenMain2) against the implementation.

Part of C01 / C04 / C05 (the quantifier over model topologies: theorems about a Gallina model of the
whole generator, instead of one certificate per generated program).  The lead integrates it with

    import gen_main
    ...                                 # in run(ctx), where out.proof is set:
    out.proof = common.merge_proofs([common.proof_status(FAMILY, PROPFILE)] +
                                    [common.proof_status(f, p) for f, p in gen_main.PROOFS])
    ...                                 # at the end of run(ctx), just before `return out`
    gen_main.extra(ctx, out)            # whole-program correspondence; appends to out.*
    ...                                 # at the top of replay(path):
    obj = json.load(open(path))
    if (obj.get('replay') or {}).get('kind') == 'main':
        return gen_main.replay(obj)

Proof: coq/GenMain2/PropMain.v — theorems over ALL programs of the language of coq/GenMain2/Program.v about
the model coq/GenMain2/Main.v (`build : program -> result final_system`), which assembles the booking-group
models of coq/GenMarket, GenTax, GenAsset.
Correspondence: programs from gen_common.ProgGen(rng).single() / .federated() (plus a stream of damaged
variants that exercise the error paths) are rendered 1:1 into a Coq `program`; the implementation side is
gen_common.build + generate_equations + the implementation's own EquationParser; compared: the exception
class, or every row of the final system in emission order (endogenous right-hand sides, lag sources,
exogenous texts, initial conditions), texts with blanks removed.
Oracle: none of its own (the numeric oracles of C01 / C04 / C05 run on the same generator).
"""
import copy
import json
import re

import common
from common import coq_string, coq_list, coq_nat, coq_bool, coq_option
import gen_common

PROOFS = [('GenMain2', 'PropMain.v')]
FAMILY = 'GenMain2'
REQUIRES = ['From SFC.Base Require Import Res Str.', 'From SFC.Gen Require Import Fx Zone.',
            'From SFC.GenMain2 Require Import Program Classes Main CaseDefs Conflict.']


class OutOfLanguage(Exception):
    pass


# ----------------------------------------------------------------------------------------------
# program JSON -> Coq `program`

def final_names(prog):
    """{sector id: final FullCode}, asked from the implementation itself (a throw-away build)."""
    mod, objs = gen_common.build(prog)
    if len(mod.CurrencyZoneList) > 1 or mod.ExternalSector is not None:
        raise OutOfLanguage('more than one currency zone')
    mod._GenerateFullSectorCodes()
    return {k: o.FullCode for k, o in objs.items() if hasattr(o, 'FullCode')}


def static_names(prog):
    """The same computed from the program text (used when the construction itself fails in the implementation)."""
    multi = sum(1 for s in prog['steps'] if s['kind'] == 'country') > 1
    ccode = {s['id']: s['code'] for s in prog['steps'] if s['kind'] == 'country'}
    return {s['id']: (ccode[s['country']] + '_' + s['code']) if multi else s['code']
            for s in prog['steps'] if s['kind'] == 'sector'}


def _subst(text, names):
    def rep(m):
        return names[m.group(1)] + '__' + m.group(2)
    return re.sub(r'\{(\w+):(\w+)\}', rep, text)


def render_program(prog, names):
    """The steps of a gen_common program as a Coq term of type Program.program (and the index maps)."""
    cidx, sidx = {}, {}
    steps = []
    pending = []          # (central bank id, treasury id): attached as soon as both exist

    def sref(i):
        if i not in sidx:
            raise OutOfLanguage('reference to an object that does not exist: %r' % (i,))
        return coq_nat(sidx[i])

    for st in prog['steps']:
        k = st['kind']
        if k == 'country':
            if st.get('currency') is not None and len(cidx) > 0:
                # a second country with an explicit currency: only in the language if it is the same one
                pass
            cidx[st['id']] = len(cidx)
            steps.append('StCountry %s' % coq_string(st['code']))
        elif k == 'sector':
            kw = dict(st.get('kw', {}))
            cls = st['cls']
            late = None
            for key in list(kw):
                v = kw[key]
                if isinstance(v, dict) and 'ref' in v and v.get('late_ok') and v['ref'] not in sidx:
                    late = (st['id'], v['ref'])
                    del kw[key]
            if cls == 'ConsolidatedGovernment':
                c = 'CGov'
            elif cls == 'Treasury':
                c = 'CTreasury'
            elif cls == 'CentralBank':
                t = kw.get('treasury')
                c = '(CCentralBank %s)' % coq_option(None if t is None else sref(t['ref']))
            elif cls in ('Household', 'HouseholdWithExpectations', 'Capitalists'):
                d_ai, d_af = (.6, .4) if cls == 'Household' else (.7, .3)
                ai = '%0.4f' % (kw.get('alpha_income', d_ai),)
                af = '%0.4f' % (kw.get('alpha_fin', d_af),)
                good = kw.get('consumption_good_name', 'GOOD')
                if cls == 'Capitalists':
                    c = '(CCapitalists %s %s %s)' % (coq_string(ai), coq_string(af), coq_string(good))
                else:
                    con = 'CHousehold' if cls == 'Household' else 'CHouseholdExp'
                    c = '(%s %s %s %s %s)' % (con, coq_string(ai), coq_string(af), coq_string(good),
                                              coq_string(kw.get('labour_name', 'LAB')))
            elif cls == 'FixedMarginBusiness':
                m = kw.get('profit_margin', 0.0)
                c = '(CBusiness %s %s %s %s %s)' % (coq_bool(m == 0), coq_string('%0.3f' % (1.0 - m,)), coq_string('%0.3f' % (m,)),
                                                    coq_string(kw.get('labour_input_name', 'LAB')),
                                                    coq_string(kw.get('output_name', 'GOOD')))
            elif cls == 'FixedMarginBusinessMultiOutput':
                m = kw.get('profit_margin', 0.0)
                refs = kw.get('market_list', {'refs': []})['refs']
                c = '(CBusinessMulti %s %s %s %s)' % (coq_bool(m == 0), coq_string('%0.3f' % (1.0 - m,)),
                                                      coq_string(kw.get('labour_input_name', 'LAB')),
                                                      coq_list([sref(r) for r in refs]))
            elif cls == 'TaxFlow':
                c = '(CTaxFlow %s %s)' % (coq_string('%0.4f' % (kw.get('taxrate', 0.0),)), coq_string(kw.get('taxes_paid_to', 'GOV')))
            elif cls == 'Market':
                c = 'CMarket'
            elif cls == 'MoneyMarket':
                c = '(CMoneyMarket %s)' % coq_string(kw.get('issuer_short_code', 'GOV'))
            elif cls == 'DepositMarket':
                c = '(CDepositMarket %s)' % coq_string(kw.get('issuer_short_code', 'GOV'))
            else:
                raise OutOfLanguage('class ' + cls)
            steps.append('StSector %s %s %s' % (coq_nat(cidx[st['country']]), coq_string(st['code']), c))
            sidx[st['id']] = len(sidx)
            if late is not None:
                pending.append(late)
            for (cb, tre) in list(pending):
                if cb in sidx and tre in sidx:
                    steps.append('StOp (OSetTreasury %s %s)' % (coq_nat(sidx[cb]), coq_nat(sidx[tre])))
                    pending.remove((cb, tre))
        elif k == 'op':
            op = st['op']
            if op == 'AddVariable':
                o = 'OAddVariable %s %s %s' % (sref(st['sector']), coq_string(st['name']), coq_string(_subst(st['eqn'], names)))
            elif op == 'SetExogenous':
                v = st['value']
                if st.get('as') == 'list':
                    v = repr(eval(v))
                elif st.get('as') == 'tuple':
                    v = repr(tuple(eval(v)))
                o = 'OSetExogenous %s %s %s' % (sref(st['sector']), coq_string(st['name']), coq_string(v))
            elif op == 'AddInitialCondition':
                o = 'OAddInitialCondition %s %s %s' % (sref(st['sector']), coq_string(st['name']), coq_string(str(float(st['value']))))
            elif op == 'RegisterCashFlow':
                o = 'ORegisterCashFlow %s %s %s %s %s' % (sref(st['src']), sref(st['tgt']), coq_string(st['var']),
                                                          coq_bool(st.get('inc_src', True)), coq_bool(st.get('inc_tgt', True)))
            elif op == 'AddSupplier':
                e = st.get('eqn')
                o = 'OAddSupplier %s %s %s' % (sref(st['market']), sref(st['supplier']),
                                               coq_option(None if e is None else coq_string(_subst(e, names))))
            elif op == 'AssetWeighting':
                ws = coq_list(['(%s, %s)' % (coq_string(c_), coq_string(_subst(e_, names))) for c_, e_ in st['weights']])
                o = 'OAssetWeighting %s %s %s' % (sref(st['sector']), ws, coq_string(st['residual']))
            elif op == 'SetAttr' and st.get('attr') == 'Treasury' and 'ref' in st:
                o = 'OSetTreasury %s %s' % (sref(st['sector']), sref(st['ref']))
            else:
                raise OutOfLanguage('op ' + op)
            steps.append('StOp (%s)' % o)
        else:
            raise OutOfLanguage('step ' + k)
    return coq_list(steps)


# ----------------------------------------------------------------------------------------------
# implementation side

def run_impl(prog):
    """('err', class) or ('ok', endo, lag, exo, ic) as the implementation's own parser reads FinalEquations."""
    try:
        mod, objs = gen_common.build(prog)
        text = gen_common.generate_equations(mod)
    except Exception as e:                                  # noqa: the class is the observable
        return ('err', common.exc_class(e))
    raw, parser = gen_common.parse_final(text)
    endo = [(v, x.replace(' ', '')) for v, (k, x) in raw if k == 'def']
    lag = [(v, x.replace(' ', '')) for v, (k, x) in raw if k == 'lag']
    exo = [(v, x.replace(' ', '')) for v, (k, x) in raw if k == 'exo']
    if endo and endo[-1] == ('t', 'k'):
        endo.pop()                                          # the time axis the parser adds by itself
    ic = sorted((k, v.replace(' ', '')) for k, v in parser.InitialConditions.items())
    return ('ok', endo, lag, exo, ic)


def _pairs(l):
    return coq_list(['(%s, %s)' % (coq_string(a), coq_string(b)) for a, b in l])


def emit_case(coq_prog, res):
    if res[0] == 'err':
        exp = '(ExpErr %s)' % res[1]
    else:
        exp = '(ExpOk %s %s %s %s)' % tuple(_pairs(x) for x in res[1:])
    return 'main_case %s %s' % (coq_prog, exp)


# ----------------------------------------------------------------------------------------------
# damaged variants (error paths, overwritten definitions, initial conditions)

def damage(rng, prog):
    """A variant of a generated program that leaves the well-formed stream: returns (program, label) or None."""
    p = copy.deepcopy({'maxtime': prog['maxtime'], 'steps': prog['steps'], 'shape': prog.get('shape')})
    steps = p['steps']
    secs = [s for s in steps if s['kind'] == 'sector']
    ops = [s for s in steps if s['kind'] == 'op']
    kind = rng.choice(['drop_sector', 'drop_sector', 'drop_sector', 'dup_code', 'exo_missing', 'flow_missing', 'paid_to', 'issuer', 'no_treasury',
                       'ic_ok', 'ic_bad', 'overwrite', 'overwrite', 'second_supplier', 'dup_country', 'late_country',
                       'exo_owned', 'addvar_dunder'])
    referenced = set()
    for s in secs:
        for v in s.get('kw', {}).values():
            if isinstance(v, dict) and 'ref' in v:
                referenced.add(v['ref'])
            if isinstance(v, dict) and 'refs' in v:
                referenced.update(v['refs'])
    if kind == 'drop_sector':
        cand = [s for s in secs if s['id'] not in referenced]
        if not cand:
            return None
        victim = rng.choice(cand)
        vid = victim['id']
        p['steps'] = [s for s in steps if s is not victim and not (
            s['kind'] == 'op' and vid in (s.get('sector'), s.get('src'), s.get('tgt'), s.get('market'), s.get('supplier'))
            or (s['kind'] == 'op' and any(('{%s:' % vid) in str(x) for x in s.values())))]
        return p, 'drop:' + victim['cls']
    if kind == 'dup_code':
        a = rng.choice(secs)
        same = [s for s in secs if s['country'] == a['country'] and s is not a]
        if not same:
            return None
        a['code'] = rng.choice(same)['code']
        return p, 'dup_code'
    if kind == 'exo_missing':
        s = rng.choice(secs)
        steps.append({'kind': 'op', 'op': 'SetExogenous', 'sector': s['id'], 'name': 'NOSUCH', 'value': '[1.0]*10'})
        return p, 'exo_missing'
    if kind == 'exo_owned':
        s = rng.choice(secs)
        name = rng.choice(['T', 'F', 'DEM_GOOD', 'SUP_GOOD', 'SUP_LAB', 'DEM_LAB', 'INC', 'LAG_F', 'TaxRate'])
        steps.append({'kind': 'op', 'op': 'SetExogenous', 'sector': s['id'], 'name': name, 'value': '[2.0]*10'})
        return p, 'exo_owned'
    if kind == 'flow_missing':
        a, b = rng.choice(secs), rng.choice(secs)
        steps.append({'kind': 'op', 'op': 'RegisterCashFlow', 'src': a['id'], 'tgt': b['id'],
                      'var': rng.choice(['NOSUCH', 'T', 'F', 'DEM_GOOD']), 'inc_src': rng.random() < 0.5, 'inc_tgt': rng.random() < 0.5})
        return p, 'flow_extra'
    if kind == 'paid_to':
        tf = [s for s in secs if s['cls'] == 'TaxFlow']
        if not tf:
            return None
        rng.choice(tf)['kw']['taxes_paid_to'] = rng.choice(['NOBODY', 'HH', 'BUS'])
        return p, 'paid_to'
    if kind == 'issuer':
        mk = [s for s in secs if s['cls'] in ('MoneyMarket', 'DepositMarket')]
        if not mk:
            return None
        rng.choice(mk)['kw']['issuer_short_code'] = rng.choice(['NOBODY', 'HH', 'BUS', 'LAB'])
        return p, 'issuer'
    if kind == 'no_treasury':
        cb = [s for s in secs if s['cls'] == 'CentralBank']
        if not cb:
            return None
        cb[0]['kw'].pop('treasury', None)
        return p, 'no_treasury'
    if kind in ('ic_ok', 'ic_bad'):
        s = rng.choice([x for x in secs if x['cls'] not in ('Market', 'TaxFlow', 'MoneyMarket', 'DepositMarket')] or secs)
        name = 'F' if kind == 'ic_ok' else 'NOSUCH'
        steps.append({'kind': 'op', 'op': 'AddInitialCondition', 'sector': s['id'], 'name': name, 'value': rng.choice([0, 10, 2.5])})
        if rng.random() < 0.3:
            steps.append({'kind': 'op', 'op': 'AddInitialCondition', 'sector': s['id'], 'name': 'F', 'value': 7})
        return p, kind
    if kind == 'overwrite':
        s = rng.choice(secs)
        name = rng.choice(['T', 'DEM_GOOD', 'SUP_GOOD', 'SUP_LAB', 'DEM_LAB', 'DIV', 'PROF', 'DEM_MON', 'SUP_MON', 'INTDEP',
                           'AlphaFin', 'TaxRate', 'F', 'INC', 'WGT_DEP', 'DEM_DEP', 'LAG_r', 'r', 'X'])
        text = rng.choice(['0.0', '', '5.', 'X + 1', '2 * Y', 'LAG_F', ' 0.25 * F '])
        steps.append({'kind': 'op', 'op': 'AddVariable', 'sector': s['id'], 'name': name, 'eqn': text})
        return p, 'overwrite'
    if kind == 'addvar_dunder':
        s = rng.choice(secs)
        steps.append({'kind': 'op', 'op': 'AddVariable', 'sector': s['id'], 'name': 'A__B', 'eqn': '1.0'})
        return p, 'addvar_dunder'
    if kind == 'second_supplier':
        mk = [s for s in secs if s['cls'] == 'Market']
        if not mk:
            return None
        m = rng.choice(mk)
        sup = rng.choice([s for s in secs if s['cls'] not in ('Market', 'MoneyMarket', 'DepositMarket', 'TaxFlow')])
        e = rng.choice([None, '', '0.2*DEM_%s' % m['code'], ' 0.1 * SUP_%s ' % m['code']])
        steps.append({'kind': 'op', 'op': 'AddSupplier', 'market': m['id'], 'supplier': sup['id'], 'eqn': e})
        return p, 'second_supplier'
    if kind == 'dup_country':
        cs = [s for s in steps if s['kind'] == 'country']
        i = steps.index(cs[-1])
        steps.insert(i + 1, {'kind': 'country', 'id': 'cdup', 'code': cs[0]['code'], 'currency': cs[0].get('currency'),
                             'region': True})
        return p, 'dup_country'
    if kind == 'late_country':
        # an empty region created after everything else: every full code gets the country prefix
        steps.append({'kind': 'country', 'id': 'clate', 'code': 'ZZ', 'currency': None, 'region': True})
        return p, 'late_country'
    return None


# ----------------------------------------------------------------------------------------------
# entry points

TRUSTED = [
    'hand-written model coq/GenMain2 (Program.v, Classes.v, Main.v) of the sector constructors and of Model.main() up to '
    '_CreateFinalEquations for programs with one currency zone and no ExternalSector, assembling the group models of '
    'coq/GenMarket, GenTax, GenAsset; tied to the code by the whole-program correspondence of harness/gen_main.py '
    '(exception class, or every row of FinalEquations as read by the implementation\'s own EquationParser, in emission order, '
    'texts compared with blanks removed)',
    'GenMain: numeric parameters enter the model as the texts the implementation formats them to (\'%0.4f\' / \'%0.3f\' / '
    'repr / str(float), computed by the harness: formatting is C09\'s subject); names requested before main() '
    '({sector:VAR} in operation texts) are replaced by the harness with the FINAL full name before the program is handed to '
    'the model (alias creation and _FixAliases are C05\'s subject and have their own check); the meaning of a rendered '
    'right-hand side (sum of coefficient * product of names) is Python\'s reading of the text the model renders',
]
ASSUMPTIONS = [
    'GenMain theorems: stated for the model; Main_stock_flow_consistent and Main_markets_clear hold under the decidable '
    'side condition no_conflict p = true (computed over the run: every definition a booking group installed is still in place '
    'at the end and classified as an endogenous equation, each group\'s freshness conditions held when it ran) and for '
    'valuations of opaque expressions that read the literal texts "0." and "0.0" as zero',
]


def gen_programs(ctx, n):
    pg = gen_common.ProgGen(ctx.rng)
    out = []
    for i in range(n):
        prog = pg.single() if ctx.rng.random() < 0.5 else pg.federated()
        out.append((prog, prog.get('shape')))
        if ctx.rng.random() < 0.45:
            d = damage(ctx.rng, prog)
            if d is not None:
                out.append(d)
    return out


def extra(ctx, out, quick_n=90, thorough_n=1200):
    n = ctx.scale(quick_n, thorough_n)
    cases, metas, nc_cases = [], [], []
    dist = {'programs': 0, 'single': 0, 'federated': 0, 'damaged': {}, 'errors': {}, 'out_of_language': 0, 'rows': 0,
            'max_rows': 0, 'deposit_markets': 0, 'money_markets': 0, 'capitalists': 0, 'multi_output': 0, 'two_firms': 0}
    distinct = set()
    for prog, label in gen_programs(ctx, n):
        try:
            names = final_names(prog)
            coq_prog = render_program(prog, names)
        except OutOfLanguage:
            dist['out_of_language'] += 1
            continue
        except Exception:
            # the construction itself fails (duplicate codes ...): no names can be asked; the model is still run
            try:
                coq_prog = render_program(prog, static_names(prog))
            except (OutOfLanguage, KeyError):
                dist['out_of_language'] += 1
                continue
        res = run_impl(prog)
        cases.append(emit_case(coq_prog, res))
        metas.append(gen_common.strip_prog(prog) if 'infos' in prog else prog)
        dist['programs'] += 1
        if label in ('single', 'federated'):
            dist[label] += 1
            if res[0] == 'ok':
                nc_cases.append('no_conflict %s' % coq_prog)
        else:
            dist['damaged'][label] = dist['damaged'].get(label, 0) + 1
        if res[0] == 'err':
            dist['errors'][res[1]] = dist['errors'].get(res[1], 0) + 1
        else:
            nrows = len(res[1]) + len(res[2]) + len(res[3])
            dist['rows'] += nrows
            dist['max_rows'] = max(dist['max_rows'], nrows)
            clss = [s.get('cls') for s in prog['steps'] if s['kind'] == 'sector']
            dist['deposit_markets'] += 'DepositMarket' in clss
            dist['money_markets'] += 'MoneyMarket' in clss
            dist['capitalists'] += 'Capitalists' in clss
            dist['multi_output'] += 'FixedMarginBusinessMultiOutput' in clss
            dist['two_firms'] += clss.count('FixedMarginBusiness') >= 2
            distinct.add(json.dumps(res[1:], sort_keys=True))
    bad, errs = common.run_bool_cases(FAMILY, REQUIRES, cases, tag='main' + ctx.pid, shard=12)
    out.corr_errors.extend(errs)
    for i in bad[:10]:
        out.disagreements.append({'main_program': metas[i], 'coq': cases[i][:3000]})
    # non-vacuity of the theorems' side condition: on how many of the generator's own programs does it hold?
    nc_bad, nc_errs = common.run_bool_cases(FAMILY, REQUIRES, nc_cases, tag='nc' + ctx.pid, shard=12)
    out.corr_errors.extend(nc_errs)
    dist['no_conflict_evaluated'] = len(nc_cases)
    dist['no_conflict_true'] = len(nc_cases) - len(nc_bad)
    # the hypotheses of Main_defined_once (countries_wf on the program, names_wf on the built system)
    wf_cases = [c.replace('no_conflict ', 'wf_defined_once__ ', 1) for c in nc_cases]
    wf_bad, wf_errs = common.run_bool_cases(
        FAMILY, REQUIRES + ['From SFC.GenMain2 Require Import Names.'], wf_cases, tag='wf' + ctx.pid, shard=12,
        defs='Definition wf_defined_once__ (p : program) : bool := countries_wf p && match build p with Ok E => names_wf E | Err _ => true end.')
    out.corr_errors.extend(wf_errs)
    dist['defined_once_hypotheses_true'] = len(wf_cases) - len(wf_bad)
    out.evaluations += len(cases)
    out.nontrivial += len(distinct)
    # minimum-count guard: an empty or almost empty stream must not pass for a tie
    n_eval__ = max([v for k, v in dist.items() if isinstance(v, int) and k in ('programs', 'pairs', 'cases', 'sets', 'joints', 'evaluated')] + [0])
    if n_eval__ < 5:
        out.corr_errors.append('gen_main: only %d cases were evaluated (distribution %r)' % (n_eval__, {k: v for k, v in dist.items() if isinstance(v, int)}))

    out.extra['main_model'] = dist
    out.trusted_base = list(out.trusted_base or []) + TRUSTED
    out.assumptions = list(out.assumptions or []) + ASSUMPTIONS
    if metas:
        out.samples.append({'main_program': metas[0]})
    return out


def show_model(prog):
    """The model's outcome for a program, as printed by Coq (debugging aid)."""
    try:
        names = final_names(prog)
    except OutOfLanguage:
        raise
    except Exception:
        names = static_names(prog)
    return common.coq_show(FAMILY, REQUIRES, 'show %s' % render_program(prog, names))


def replay(obj):
    """`obj`: the loaded replay file or the inner {'kind': 'main', 'program': ...}.  There is no oracle of its own:
    the implementation's final system is printed; the return value is always 0."""
    r = obj.get('replay', obj) or {}
    if r.get('kind') != 'main':
        return 0
    res = run_impl(r['program'])
    if res[0] == 'err':
        print('implementation raises', res[1])
    else:
        for title, rows in zip(('endogenous', 'lagged', 'exogenous', 'initial conditions'), res[1:]):
            print('%s:' % title)
            for a, b in rows:
                print('   %s = %s' % (a, b[:150]))
    print('replay: property holds on this input (GenMain has no oracle of its own)')
    return 0
