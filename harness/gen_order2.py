"""Declaration-order invariance of the MULTI-currency whole-pipeline model (coq/GenOrder2, `build2`) against the
permutations the harness performs.

Part of C08 (the multi-currency analogue of harness/gen_order.py).  The lead integrates it with

    import gen_order2
    ...                                 # in run(ctx), where out.proof is set:
    out.proof = common.merge_proofs([common.proof_status(FAMILY, PROPFILE)] +
                                    [common.proof_status(f, p) for f, p in gen_order2.PROOFS])
    ...                                 # at the end of run(ctx), just before `return out`
    gen_order2.extra(ctx, out)
    ...                                 # at the top of replay(path):
    obj = json.load(open(path))
    if (obj.get('replay') or {}).get('kind') == 'order2':
        return gen_order2.replay(obj)

Proof: coq/GenOrder2/PropOrder2.v — for ALL programs p of the language of coq/GenMain2/Program2.v (several currency
zones, ExternalSector, gold-standard classes) and ALL p' with `admissible_perm2 p p'`, `order_ok2 p = true` and
`build2 p = Ok E` give `build2 p' = Ok E'` with the same solutions for every variable.
Tie, on every run: programs of gen_common.ProgGen (single / federated / multizone / gold; plus damaged variants of
gen_main2.damage2) and random dependency-respecting permutations produced by gen_common.permute_declarations are rendered
with gen_main2.render_program2; evaluated in Coq: `order_case2 p p'` (= `is_admissible2 p p'`: the theorem's relation
covers what the harness does; `reform_ok2` on both: the sector-wise reformulation the proof goes through; and the boolean
`rows_perm_equiv_b` on the two model outputs as a sanity net) on every pair, `order_ok2` on every well-formed program and
permutation (distribution only) and `uncovered2 p = 0`.  The implementation side is tied by gen_main2's whole-program
correspondence, run here on the PERMUTED program as well (gen_main.run_impl + gen_main2.emit_case).
No oracle of its own (C08's oracle solves both orders on the implementation).
"""
import json

import common
import gen_common
import gen_main
import gen_main2

PROOFS = [('GenOrder2', 'PropOrder2.v')]
FAMILY = 'GenOrder2'
# Two different modules are called CaseDefs2 (SFC.GenMain2.CaseDefs2: main2_case; SFC.GenOrder2.CaseDefs2: order_case2,
# order_report2, uncovered2).  `From <family> Require Import` resolves each within its own family; the GenOrder2 one comes
# last, and the generated terms use names that exist in only one of them.
REQUIRES = ['From SFC.Base Require Import Res Str.', 'From SFC.Gen Require Import Fx Zone.',
            'From SFC.GenMain2 Require Import Program Classes Main CaseDefs Program2 Main2 CaseDefs2 Conflict Conflict2.',
            'From SFC.GenOrder Require Import Ops Plan Check Perm Static Equiv Static2.',
            'From SFC.GenOrder2 Require Import Perm2 CRel2 Plan2 Side2.',
            'From SFC.GenOrder2 Require Import CaseDefs2.']

SHAPES = ('single', 'federated', 'multizone', 'gold')
GOLD_CB_FLIP_MODE = 'disagree'

TRUSTED = [
    'GenOrder2: theorems are about the model coq/GenMain2/Main2.v (`build2`), tied to the code by gen_main2\'s whole-program '
    'correspondence, which harness/gen_order2.py also runs on every permuted program; the rendering of a permuted program '
    '(re-indexed references, XR / FX / GOLD indices depending on where the ExternalSector stands, late treasury attachment) '
    'is gen_main2.render_program2, and `is_admissible2` is evaluated on every (program, permutation) pair the harness produces',
]
ASSUMPTIONS = [
    'GenOrder2: Main2_order_invariant (for `build2`) holds under the decidable side condition order_ok2 p = true, computed '
    'from the state after construction: a central bank\'s treasury argument exists before the bank; every call has a plan '
    'inside the sector-wise reformulation (`uncovered2 p = 0`; excludes a market that supplies itself, an EXT sector '
    'used as supplier / market / flow end, a missing NET_<currency>); what one sector\'s _GenerateEquations looks up by '
    'name in another sector is not created by a third one; two sectors of a country never define the same variable in '
    'competing ways; at most one dividend receiver and at most one gold-standard sector per country; the INTDEP flow of a '
    'central bank stays inside its currency zone; accumulating equations carry no duplicate summands; every registered '
    'flow has a plan after equation generation; equations with >= 2 summands have plain factor names. Evaluated on every '
    'generated well-formed program and permutation, the counts per shape are in extra.order2_model',
]


def _names(prog):
    try:
        return gen_main2.final_names2(prog)
    except Exception:
        return gen_main2.static_names2(prog)


def _strip(prog):
    return gen_common.strip_prog(prog) if 'infos' in prog else {'maxtime': prog.get('maxtime', 5), 'steps': prog['steps'],
                                                               'shape': prog.get('shape')}


def draw_program(rng, pg):
    """~12.5 % single, ~12.5 % federated, ~50 % multizone, ~25 % gold."""
    r = rng.random()
    if r < 0.125:
        return pg.single()
    if r < 0.25:
        return pg.federated()
    if r < 0.75:
        return pg.multizone()
    return pg.multizone(gold=True)


def gen_pairs(ctx, n, K):
    """[(program index, program, permuted program, label, base shape)]; programs with the same index are the same object."""
    rng = ctx.rng
    pg = gen_common.ProgGen(rng)
    out = []
    idx = 0
    for i in range(n):
        prog = draw_program(rng, pg)
        shape = prog.get('shape')
        progs = [(prog, shape)]
        if rng.random() < 0.3:
            d = gen_main2.damage2(rng, prog)
            if d is not None:
                progs.append((d[0], 'damaged:' + d[1]))
        for q, lab in progs:
            idx += 1
            for j in range(K):
                perm = gen_common.permute_declarations(rng, q)
                if perm['steps'] == q['steps']:
                    continue
                out.append((idx, q, perm, lab, shape))
    return out


def has_foreign_supplier(prog):
    """Some AddSupplier names a supplier declared in another country than the market."""
    country = {s['id']: s['country'] for s in prog['steps'] if s['kind'] == 'sector'}
    return any(s['kind'] == 'op' and s.get('op') == 'AddSupplier' and s['market'] in country and s['supplier'] in country
               and country[s['market']] != country[s['supplier']] for s in prog['steps'])


def gold_cb_flip(prog, perm):
    """A GoldStandardCentralBank whose treasury may be attached late (`late_ok`: gen_main2.damage2's variant 'gold_cb' of a
    CentralBank) stands on the other side of its Treasury in the permuted program.  render_program2 then writes
    `CGoldCB (Some t)` on one side and `CGoldCB None` followed by `OSetTreasury` on the other; Perm2.move2 has the fold /
    unfold moves for `CBank` (= COld (CCentralBank _)) only, so `is_admissible2` is false on such a pair although the
    implementation builds both orders and `outputs_agree2` holds (found on seeds 2 and 3)."""
    def before(steps, a, b):
        ids = [s.get('id') for s in steps if s['kind'] == 'sector']
        return a in ids and b in ids and ids.index(a) < ids.index(b)
    for s in prog['steps']:
        if s['kind'] == 'sector' and s['cls'] == 'GoldStandardCentralBank':
            t = s.get('kw', {}).get('treasury')
            if isinstance(t, dict) and t.get('late_ok') and \
                    before(prog['steps'], s['id'], t['ref']) != before(perm['steps'], s['id'], t['ref']):
                return True
    return False


def _moved(prog, perm):
    """(number of sector declarations standing at another place, some of them before the ExternalSector step, some after
    it); the two flags are None for programs without ExternalSector."""
    ext = [i for i, s in enumerate(prog['steps']) if s['kind'] == 'external']
    pos = [i for i, (x, y) in enumerate(zip(prog['steps'], perm['steps']))
           if x['kind'] == 'sector' and (y['kind'] != 'sector' or x['id'] != y['id'])]
    if not ext:
        return len(pos), None, None
    e = ext[0]
    return len(pos), any(i < e for i in pos), any(i > e for i in pos)


def extra(ctx, out, quick_n=32, thorough_n=400, gold_cb_flip_mode=None):
    """gold_cb_flip_mode: 'disagree' (default, GOLD_CB_FLIP_MODE): `order_case2` on every pair, so a pair with gold_cb_flip
    is reported as a disagreement as long as Perm2.move2 does not cover it; 'count': on those pairs only
    `reform_ok2 p && reform_ok2 p' && outputs_agree2 p p'` is required, `is_admissible2` is evaluated and counted in the
    distribution (gold_cb_flip_pairs / gold_cb_flip_admissible)."""
    mode = gold_cb_flip_mode or GOLD_CB_FLIP_MODE
    n = ctx.scale(quick_n, thorough_n)
    K = ctx.scale(2, 3)
    cases, kinds, metas = [], [], []          # one flat list, so that the shards of all obligations run side by side
    dist = {'pairs': 0, 'programs': 0, 'shapes': {}, 'out_of_language': 0, 'impl_errors_perm': {}, 'moved_declarations': 0,
            'late_treasury_pairs': 0, 'pairs_with_external': 0, 'pairs_moved_before_external': 0,
            'pairs_moved_after_external': 0, 'foreign_supplier_pairs': 0, 'gold_cb_flip_pairs': 0}
    distinct = set()
    pair_meta = []                            # per pair: dict(meta, label, shape, prog index, well-formed, foreign supplier)
    seen_prog = {}                            # program index -> position of its `order_ok2 p` case (well-formed programs)
    unc_seen = {}                             # program index -> position of its `uncovered2 p = 0` case

    def add(kind, term, ref):
        cases.append(term)
        kinds.append(kind)
        metas.append(ref)
        return len(cases) - 1

    base_main = set()
    for pidx, prog, perm, label, shape in gen_pairs(ctx, n, K):
        try:
            names = _names(prog)
            cp = gen_main2.render_program2(prog, names)
            cq = gen_main2.render_program2(perm, names)
        except (gen_main.OutOfLanguage, KeyError):
            dist['out_of_language'] += 1
            continue
        res = gen_main.run_impl(perm)
        dist['pairs'] += 1
        dist['shapes'][label] = dist['shapes'].get(label, 0) + 1
        nmoved, before, after = _moved(prog, perm)
        dist['moved_declarations'] += nmoved
        if before is not None:
            dist['pairs_with_external'] += 1
            dist['pairs_moved_before_external'] += bool(before)      # the ExternalSector FOLLOWS moved declarations
            dist['pairs_moved_after_external'] += bool(after)        # the ExternalSector PRECEDES moved declarations
        dist['late_treasury_pairs'] += ('OSetTreasury' in cp) != ('OSetTreasury' in cq)
        if res[0] == 'err':
            dist['impl_errors_perm'][res[1]] = dist['impl_errors_perm'].get(res[1], 0) + 1
        foreign = has_foreign_supplier(prog)
        dist['foreign_supplier_pairs'] += foreign
        meta = {'prog': _strip(prog), 'perm': _strip(perm)}
        wf = (not label.startswith('damaged')) and res[0] == 'ok'
        pm = {'meta': meta, 'label': label, 'shape': shape, 'pidx': pidx, 'wf': wf, 'foreign': foreign, 'cp': cp, 'cq': cq}
        k = len(pair_meta)
        pair_meta.append(pm)
        pm['flip'] = gold_cb_flip(prog, perm)
        dist['gold_cb_flip_pairs'] += pm['flip']
        if pm['flip'] and mode == 'count':
            add('case', 'reform_ok2 %s && reform_ok2 %s && outputs_agree2 %s %s' % (cp, cq, cp, cq), k)
            pm['adm'] = add('adm', 'is_admissible2 %s %s' % (cp, cq), k)
        else:
            add('case', 'order_case2 %s %s' % (cp, cq), k)
        add('main', gen_main2.emit_case(cq, res), k)
        if pidx not in base_main:
            # the base program as well (model = implementation on BOTH programs of the pair from this stream)
            base_main.add(pidx)
            add('main', gen_main2.emit_case(cp, gen_main.run_impl(prog)), k)
        if wf:
            if pidx not in seen_prog:
                seen_prog[pidx] = add('ok_p', 'order_ok2 %s' % cp, k)
            pm['ok_p'] = seen_prog[pidx]
            pm['ok_q'] = add('ok_q', 'order_ok2 %s' % cq, k)
        if pidx not in unc_seen:
            unc_seen[pidx] = add('unc', 'Nat.eqb (uncovered2 %s) 0' % cp, k)
        a = [s['id'] for s in prog['steps'] if s['kind'] == 'sector']
        b = [s['id'] for s in perm['steps'] if s['kind'] == 'sector']
        distinct.add(json.dumps([a, b, label]))
    dist['programs'] = len(unc_seen)

    # heaviest first (order_ok2, order_case2), so that the pool of jobs drains evenly
    weight = {'ok_p': 0, 'ok_q': 0, 'case': 1, 'adm': 2, 'main': 2, 'unc': 3}
    order = sorted(range(len(cases)), key=lambda i: (weight[kinds[i]], i))
    sorted_cases = [cases[i] for i in order]
    shard = max(1, min(6, len(sorted_cases) // 36 + 1))
    bad_s, errs = common.run_bool_cases(FAMILY, REQUIRES, sorted_cases, tag='ord2' + ctx.pid, shard=shard, jobs=12)
    out.corr_errors.extend(errs)
    bad = set(order[i] for i in bad_s)
    # cases inside a shard that coqc could not evaluate have no verdict: keep them out of the counts below
    unknown = set()
    for e in errs:
        unknown.update(order[i] for i in range(e['offset'], min(e['offset'] + e['n'], len(order))))

    n_dis = 0
    for i in sorted(bad):
        if kinds[i] == 'case' and n_dis < 10:
            pm = pair_meta[metas[i]]
            rep = common.coq_show(FAMILY, REQUIRES, 'order_report2 %s %s' % (pm['cp'], pm['cq']))
            out.disagreements.append({'order2_pair': pm['meta'], 'label': pm['label'],
                                      'obligation': 'order_case2 (is_admissible2; order_ok2 p; reform_ok2 p; reform_ok2 p\'; '
                                      'outputs agree; build2 p ok) = ' + rep[-200:] +
                                      (' [gold_cb_flip pair: a late-attached GoldStandardCentralBank changes sides with its '
                                       'treasury, Perm2.move2 folds / unfolds only CBank]' if pm['flip'] else '')})
            n_dis += 1
    n_dis = 0
    for i in sorted(bad):
        if kinds[i] == 'main' and n_dis < 10:
            pm = pair_meta[metas[i]]
            out.disagreements.append({'order2_pair': pm['meta'], 'label': pm['label'],
                                      'obligation': 'gen_main2 correspondence (main2_case) on the permuted program'})
            n_dis += 1

    # non-vacuity: the side condition on the generator's own well-formed programs, per shape (never a disagreement)
    per = {}
    differs = 0
    false_foreign, false_other = 0, 0
    for pm in pair_meta:
        if not pm['wf'] or pm['ok_p'] in unknown or pm['ok_q'] in unknown:
            continue
        okp, okq = pm['ok_p'] not in bad, pm['ok_q'] not in bad
        c = per.setdefault(pm['shape'], {'true': 0, 'evaluated': 0})
        c['evaluated'] += 1
        c['true'] += okp and okq
        differs += okp != okq
        if not (okp and okq):
            if pm['foreign']:
                false_foreign += 1
            else:
                false_other += 1
    dist['order_ok2'] = per                                          # order_ok2 p && order_ok2 p' on well-formed pairs
    dist['order_ok2_evaluated'] = sum(c['evaluated'] for c in per.values())
    dist['order_ok2_true'] = sum(c['true'] for c in per.values())
    dist['order_ok2_differs_within_pair'] = differs
    dist['order_ok2_false_with_foreign_supplier'] = false_foreign
    dist['order_ok2_false_without_foreign_supplier'] = false_other
    if mode == 'count':
        dist['gold_cb_flip_admissible'] = sum(1 for pm in pair_meta if 'adm' in pm and pm['adm'] not in bad and pm['adm'] not in unknown)
    dist['uncovered_evaluated'] = sum(1 for i in unc_seen.values() if i not in unknown)
    dist['uncovered_programs'] = sum(1 for i in unc_seen.values() if i in bad)
    unc_shapes = {}
    for i in unc_seen.values():
        if i in bad:
            lab = pair_meta[metas[i]]['label']
            unc_shapes[lab] = unc_shapes.get(lab, 0) + 1
    dist['uncovered_by_label'] = unc_shapes

    out.evaluations += 2 * len(pair_meta)
    out.nontrivial += len(distinct)
    # minimum-count guard: an empty or almost empty stream must not pass for a tie
    n_eval__ = max([v for k, v in dist.items() if isinstance(v, int) and k in ('programs', 'pairs', 'cases', 'sets', 'joints', 'evaluated')] + [0])
    if n_eval__ < 5:
        out.corr_errors.append('gen_order2: only %d cases were evaluated (distribution %r)' % (n_eval__, {k: v for k, v in dist.items() if isinstance(v, int)}))

    out.extra['order2_model'] = dist
    out.trusted_base = list(out.trusted_base or []) + TRUSTED
    out.assumptions = list(out.assumptions or []) + ASSUMPTIONS
    if pair_meta:
        m = pair_meta[0]['meta']
        out.samples.append({'order2_pair': {'shape': pair_meta[0]['label'],
                                            'base_order': [s['id'] for s in m['prog']['steps'] if s['kind'] in ('sector', 'external')],
                                            'permuted_order': [s['id'] for s in m['perm']['steps'] if s['kind'] in ('sector', 'external')]}})
    return out


def report(prog, perm):
    """The six booleans of CaseDefs2.order_report2 for a pair (debugging aid):
    [is_admissible2; order_ok2 p; reform_ok2 p; reform_ok2 p'; outputs agree; build2 p ok]."""
    names = _names(prog)
    return common.coq_show(FAMILY, REQUIRES, 'order_report2 %s %s' % (gen_main2.render_program2(prog, names),
                                                                      gen_main2.render_program2(perm, names)))


def replay(obj):
    """`obj`: the loaded replay file or the inner {'kind': 'order2', 'prog': ..., 'perm': ...}.  No oracle of its own:
    both orders are built by the implementation (gen_main.run_impl, the driver gen_main2 uses for multi-currency programs)
    and the emitted variables are compared; the return value is 1 only if one order builds and the other does not, or the
    two orders emit different variables."""
    r = obj.get('replay', obj) or {}
    if r.get('kind') != 'order2':
        return 0
    a = gen_main.run_impl(r['prog'])
    b = gen_main.run_impl(r['perm'])
    if a[0] != b[0]:
        say = lambda x: 'raises ' + x[1] if x[0] == 'err' else 'builds (%d rows)' % (len(x[1]) + len(x[2]) + len(x[3]))
        print('replay: one declaration order builds, the other raises: base order %s, permuted order %s' % (say(a), say(b)))
        return 1
    if a[0] == 'err':
        print('replay: both orders raise (%s, %s); property holds on this input' % (a[1], b[1]))
        return 0
    na, nb = sorted(x[0] for x in a[1] + a[2] + a[3]), sorted(x[0] for x in b[1] + b[2] + b[3])
    if na != nb:
        print('replay: the two orders emit different variables: %r' % sorted(set(na) ^ set(nb))[:6])
        return 1
    print('replay: property holds on this input (same variables in both orders; values are C08\'s oracle)')
    return 0
