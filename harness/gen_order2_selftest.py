"""Stand-alone driver for harness/gen_order2.py (declaration-order invariance of the multi-currency pipeline model, coq/GenOrder2).

    /venv/bin/python /verif/harness/gen_order2_selftest.py [--seed N] [--tier quick|thorough] [--no-proof]
                                                           [--gold-cb-flip disagree|count]

--no-proof skips proof_status of coq/GenOrder2/PropOrder2.v (it only needs CaseDefs2.vo and what it imports:
`cd /verif/coq && timeout 900 ./build.sh GenOrder2 CaseDefs2.vo`).
"""
import argparse
import json
import sys
import os

sys.path.insert(0, os.path.dirname(os.path.abspath(__file__)))
import common

common.use_impl()
import gen_main
import gen_order2


def main():
    ap = argparse.ArgumentParser()
    ap.add_argument('--seed', type=int, default=int(os.environ.get('VERIF_SEED', '0')))
    ap.add_argument('--tier', default='quick', choices=['quick', 'thorough'])
    ap.add_argument('--no-proof', action='store_true')
    ap.add_argument('--pid', default='C08')
    ap.add_argument('--gold-cb-flip', default=None, choices=['disagree', 'count'],
                    help="pairs in which a late-attached GoldStandardCentralBank changes sides with its treasury (outside "
                         "Perm2.move2): 'disagree' (module default) reports them, 'count' only counts them")
    a = ap.parse_args()
    ctx = common.Ctx(a.pid, a.tier, a.seed)
    out = common.Outcome()
    status = 0
    if not a.no_proof:
        for fam, pf in gen_order2.PROOFS:
            st = common.proof_status(fam, pf)
            print('proof %s/%s ok=%s theorems=%d broken=%s' % (fam, pf, st['ok'], len(st['theorems']), st['broken']))
            print('  axioms:', sorted(set(x for v in st['assumptions'].values() for x in (v or []))))
            if not st['ok']:
                status = 1
                print((st.get('log') or '')[-1500:])
    t_proof = ctx.elapsed()
    gen_order2.extra(ctx, out, gold_cb_flip_mode=a.gold_cb_flip)
    print('evaluations=%d nontrivial=%d disagreements=%d corr_errors=%d failures=%d wall=%.1fs (proof %.1fs, cases %.1fs)' % (
        out.evaluations, out.nontrivial, len(out.disagreements), len(out.corr_errors), len(out.failures), ctx.elapsed(),
        t_proof, ctx.elapsed() - t_proof))
    print('distribution:', json.dumps(out.extra.get('order2_model'), sort_keys=True))
    for d in out.disagreements[:3]:
        pr = d['order2_pair']
        print('DISAGREEMENT (%s):' % d.get('label'))
        for key in ('prog', 'perm'):
            print('   %s order: %s' % (key, ' '.join(s.get('id', s['kind']) for s in pr[key]['steps'] if s['kind'] != 'op')))
        print('   pair:', json.dumps(pr)[:2500])
        print('   obligation:', d.get('obligation'))
        try:
            print('   impl on the permuted program:', str(gen_main.run_impl(d['order2_pair']['perm']))[:300])
        except Exception as e:
            print('   (could not run the implementation: %r)' % (e,))
    for e in out.corr_errors[:2]:
        print('CORR ERROR:', e['output'][-1500:])
    if out.failures or out.disagreements or out.corr_errors:
        status = 1
    print('RESULT:', 'FAIL' if status else 'OK')
    return status


if __name__ == '__main__':
    sys.exit(main())
