"""C14 — equation text is classified faithfully; comments are inert.

Proof: coq/Block/PropC14.v (C14_classify, C14_exactly_one, C14_comments, C14_default_t over block
descriptions; C14_orig_refuted for the parser before fix D14).
Correspondence: EquationParser.ParseString on printed random block descriptions (hostile comment
texts, every spacing variant, the three lag notations) and on a malformed stream (no '=', several
'=', bad MaxTime / Err_Tolerance, 'x (0) = 1', 'y(k-1) + 1', names containing the marker word,
character soup) against the model [parse_block]: the three lists, the two dicts in insertion
order, MaxTime, Err_Tolerance and the reported lines.
Oracle (implementation only): for a description and two random comment assignments the parser
attributes are identical; every well-formed item sits in exactly the expected list with the same
right-hand side (whitespace ignored); junk lines are reported; a time variable is supplied iff
none is given.  End-to-end: a small SIM-like Model with a hostile variable description / sector
long name must run and give the same time series as with a neutral text.
"""
import json

import common
from common import coq_string, coq_list, coq_Z, coq_bool

PID = 'C14'
FAMILY = 'Block'
PROPFILE = 'PropC14.v'
LEVEL = 'proof'
REQUIRES = ['From SFC.Base Require Import Res.', 'From SFC.Block Require Import Classify Blocks CaseDefs.']

WORD = 'exogenous'
NAMES = ['x', 'y', 'z', 't', 't_minus_1', 'HH__F', 'GOV__T', 'LAG_x', 'k2', 'alpha', 'Y_1', 'C', 'MaxTimes', 'tt',
         'GOOD__SUP_GOOD', 'a', 'b', 'w', 'Err_Tol', 'T', 'W0', 'K10', 'STOCK_2000']
WS = ['', '', ' ', ' ', '  ', '\t', ' \t ', '   ']
SUFFIX = {'k': '(k-1)', 't': '(t-1)', 'tok': ' (k -1 )'}
HOSTILE = ['an exogenous bonus', 'EXOGENOUS', 'Exogenous Variables', 'x = y', 'a = b = c', 'a # b', '## note', '#',
           'uses F(k-1)', 'lag y(t-1) here', 'HH__F (k -1 )', 'init (0)', 'x(0) = 5', 'MaxTime = 7', 'Err_Tolerance = zzz',
           '12345', '1e-8', '', ' ', '[F] Financial assets', 't = 5', 't_minus_1 = k', 'exogenous = 1', '=', '==',
           'Previous periods financial assets.', '\texogenous\t', 'not ExOgEnOuS really', '"quoted"', "it's", '100% of x',
           '(k-1)', '(t-1)', ' (k -1 )', '(0)']
NEUTRAL = ['', 'description', '[x] a variable', 'note 1']
MARKER_CODE = ['exogenous', 'Exogenous', 'EXOGENOUS', '  exogenous  ', 'exogenous variables', 'Exogenous Variables:',
               '\texogenous', 'the exogenous = block', 'exogenous = here = too']
MARKER_COMMENT = [' Exogenous Variables', 'exogenous', ' EXOGENOUS section', ' now the exogenous = ones']
MAXTIME_TXT = ['3', '100', '+5', '-2', '1_000', '007', '12', '0', '40', '1_2_3']
TOL_TXT = ['1e-8', '1e-6', '.001', '1E-4', '1_0e-3', 'inf', '0.0001', '1e-4', '5', ' 1e-5']
JUNK = ['hello world', 'x + y', 'a = b = c', 'x == y', '42', 'a=b=c=d', 'just some text', 'x : y', 'y <- 3', '= = =',
        'Model SIM', '(0)', 'x(k-1)', 'MaxTime', 't']
SOUP = 'xyt01=#()k-+ _\teEXOoGgnus.M*'
BAD_LINES = ['MaxTime = abc', 'MaxTime = ', 'MaxTime = 1__0', 'MaxTime=+_1', 'MaxTime = 5_', 'MaxTime = + 5', 'MaxTime = 1.0',
             'MaxTime = --1', 'MaxTime = 0x10', 'Err_Tolerance = zzz', 'Err_Tolerance = ', 'Err_Tolerance = 1e', 'x (0) = 1',
             'x = y(k-1) + 1', 'x = z + y(k-1)', 'exogenous_x = 1', 'x = exogenous_thing', 'x(0)(0) = 1', '= 5', 'x =', '=', '#',
             '##', 'x = y(t-1)(k-1)', ' (k -1 ) = 3', 'x = a(t-1) (k -1 )', 'x = a (k -1 ) + b(t-1)', '(0) = 4', 'x(0) = y(k-1)',
             'x = 1 # exogenous', '   # exogenous', 'x = (t-1', 'x = (k-1)', 'x = y # = z', 'a = b = c # d', 't = 1', 't(0) = 0',
             'x = y(k -1)', 'X=Y (k -1 ) ', 'MaxTime = 3 # = 4', 'Err_Tolerance = nan', 'Err_Tolerance = 1_0', 'xEXOGENOUSy',
             't_minus_1(0) = 2', 'x  =  y  ', '\tx\t=\ty\t', 'x = 1e-8 # Err_Tolerance', 'MaxTime = 1 0']


# ---------------------------------------------------------------- generation
def gen_ws(rng):
    return rng.choice(WS)


def gen_rhs(rng, lag_ok=False):
    for _ in range(50):
        n = rng.choice([1, 1, 2, 3, 4, 6])
        toks = []
        for i in range(n):
            if i:
                toks.append(rng.choice(['+', '-', '*', '/', '+', '-']))
            r = rng.random()
            if r < 0.55:
                toks.append(rng.choice(NAMES))
            elif r < 0.85:
                toks.append(rng.choice(['1.0', '20', '.5', '1e-3', '0.2000', '(0)', '2', '105']))
            else:
                toks.append('(' + rng.choice(NAMES) + rng.choice(['+', ' - ', '*']) + rng.choice(NAMES + ['k', '1']) + ')')
        s = ''
        for tk in toks:
            s += tk + rng.choice(['', ' ', ' ', '  '])
        s = gen_ws(rng) + s
        if rng.random() < 0.05:
            s = gen_ws(rng)          # empty right-hand side
        if any(p in s for p in SUFFIX.values()) or '=' in s or '#' in s or WORD in s.lower():
            continue
        return s
    return '1.0'


def gen_comment(rng):
    r = rng.random()
    if r < 0.3:
        return None
    if r < 0.45:
        return rng.choice(NEUTRAL)
    if r < 0.9:
        c = rng.choice(HOSTILE)
        if rng.random() < 0.3:
            c = rng.choice(HOSTILE) + ' ' + c
        return c
    return ''.join(rng.choice(SOUP + 'abc "') for _ in range(rng.randint(0, 14)))


def gen_item(rng, after_marker):
    r = rng.random()
    sp = [gen_ws(rng) for _ in range(4)]
    if r < 0.34:
        kind = 'Exo' if (after_marker and rng.random() < 0.7) else 'Endo'
        rhs = gen_rhs(rng)
        if kind == 'Exo' and rng.random() < 0.6:
            rhs = rng.choice(['[0.,] + [20.,] * 105', '1.0', '[1.0]*20', '[2.0,]*3', '20.', 'F(k-1)', 'y(t-1)'])
        return {'kind': kind, 'x': rng.choice(NAMES), 'rhs': rhs, 'sp': sp}
    if r < 0.48:
        return {'kind': 'Lag', 'x': rng.choice(NAMES), 'src': rng.choice(NAMES), 'form': rng.choice(['k', 't', 'tok']), 'sp': sp}
    if r < 0.58:
        return {'kind': 'IC', 'x': rng.choice(NAMES), 'rhs': rng.choice(['0', '1.0', ' 80.', '20 ', '-1', '1e3', '']), 'sp': sp}
    if r < 0.64:
        return {'kind': 'Marker', 'text': rng.choice(MARKER_CODE)}
    if r < 0.70:
        return {'kind': 'MaxTimeI', 'txt': rng.choice(MAXTIME_TXT), 'sp': sp}
    if r < 0.75:
        return {'kind': 'TolI', 'txt': rng.choice(TOL_TXT), 'sp': sp}
    if r < 0.85:
        c = rng.choice(MARKER_COMMENT) if rng.random() < 0.25 else (gen_comment(rng) or '')
        return {'kind': 'CommentLine', 'ws': gen_ws(rng), 'c': c}
    if r < 0.92:
        return {'kind': 'Blank', 'ws': gen_ws(rng)}
    return {'kind': 'Junk', 'text': gen_ws(rng) + rng.choice(JUNK) + gen_ws(rng)}


def is_marker(it):
    return it['kind'] == 'Marker' or (it['kind'] == 'CommentLine' and WORD in it['c'].lower())


def has_comment_slot(it):
    return it['kind'] not in ('CommentLine', 'Blank')


def gen_desc(rng):
    n = rng.choice([1, 2, 3, 5, 8, 12, 16])
    items, after = [], False
    for _ in range(n):
        it = gen_item(rng, after)
        items.append(it)
        after = after or is_marker(it)
    cs1 = [gen_comment(rng) if has_comment_slot(it) else None for it in items]
    cs2 = [gen_comment(rng) if has_comment_slot(it) else None for it in items]
    return {'items': items, 'cs1': cs1, 'cs2': cs2}


def print_item(it, c):
    k = it['kind']
    sp = it.get('sp')
    if k in ('Endo', 'Exo'):
        s = sp[0] + it['x'] + sp[1] + '=' + sp[2] + it['rhs'] + sp[3]
    elif k == 'Lag':
        s = sp[0] + it['x'] + sp[1] + '=' + sp[2] + it['src'] + SUFFIX[it['form']] + sp[3]
    elif k == 'IC':
        s = sp[0] + it['x'] + '(0)' + sp[1] + '=' + sp[2] + it['rhs'] + sp[3]
    elif k == 'Marker':
        s = it['text']
    elif k == 'MaxTimeI':
        s = sp[0] + 'MaxTime' + sp[1] + '=' + sp[2] + it['txt'] + sp[3]
    elif k == 'TolI':
        s = sp[0] + 'Err_Tolerance' + sp[1] + '=' + sp[2] + it['txt'] + sp[3]
    elif k == 'CommentLine':
        return it['ws'] + '#' + it['c']
    elif k == 'Blank':
        return it['ws']
    else:
        s = it['text']
    return s if c is None else s + '#' + c


def print_block(items, cs):
    return '\n'.join(print_item(it, c) for it, c in zip(items, cs))


def gen_malformed(rng):
    n = rng.choice([1, 2, 3, 5, 8])
    lines = []
    for _ in range(n):
        r = rng.random()
        if r < 0.45:
            lines.append(rng.choice(BAD_LINES))
        elif r < 0.7:
            lines.append(''.join(rng.choice(SOUP) for _ in range(rng.randint(0, 16))))
        else:
            d = gen_item(rng, False)
            lines.append(print_item(d, gen_comment(rng) if has_comment_slot(d) else None))
    return '\n'.join(lines)


# ---------------------------------------------------------------- implementation driver
_FMT = {}


def probe_formats():
    """Learn how the implementation words its two reports (so that rewording them is harmless)."""
    if _FMT:
        return _FMT
    from sfc_models.equation_parser import EquationParser
    for key, text in (('ignored', 'PROBE_ONE'), ('multiple', 'PROBE=TWO=X')):
        m = EquationParser().ParseString(text)
        i = m.find(text) if isinstance(m, str) else -1
        if i < 0 or '\n' in m[:i] or m[i + len(text):].count('\n') != 1 or not m.endswith('\n'):
            _FMT[key] = None
        else:
            _FMT[key] = (m[:i], m[i + len(text):-1])
    return _FMT


def canon_msg(m):
    """Returned message -> list of [kind, reported text]; anything unrecognised is kept raw."""
    if not isinstance(m, str):
        return [['raw', repr(m)]]
    fm = probe_formats()
    if m == '':
        return []
    if not m.endswith('\n'):
        return [['raw', m]]
    out = []
    for ln in m[:-1].split('\n'):
        for kind in ('ignored', 'multiple'):
            f = fm.get(kind)
            if f and ln.startswith(f[0]) and ln.endswith(f[1]) and len(ln) >= len(f[0]) + len(f[1]):
                out.append([kind, ln[len(f[0]):len(ln) - len(f[1])]])
                break
        else:
            out.append(['raw', ln])
    return out


def run_impl(text):
    from sfc_models.equation_parser import EquationParser
    p = EquationParser()
    try:
        m = p.ParseString(text)
    except Exception as e:
        return {'exc': common.exc_class(e)}
    return {'endo': [list(x) for x in p.Endogenous], 'lag': [list(x) for x in p.Lagged],
            'exo': [list(x) for x in p.Exogenous], 'ic': [[k, v] for k, v in p.InitialConditions.items()],
            'all': [[k, v] for k, v in p.AllEquations.items()], 'maxtime': p.MaxTime, 'tol': p.Err_Tolerance,
            'msg': canon_msg(m)}


def float_table(text):
    """Python's float() acceptance for every text the Err_Tolerance check could be handed."""
    tbl = {}
    for line in text.split('\n'):
        if 'Err_Tolerance' not in line:
            continue
        for part in (line, line.split('#')[0]):
            for piece in part.split('='):
                s = piece.strip()
                if s not in tbl:
                    try:
                        float(s)
                        tbl[s] = True
                    except ValueError:
                        tbl[s] = False
    return tbl


def coq_pairs(l):
    return coq_list(['(%s, %s)' % (coq_string(str(a)), coq_string(str(b))) for a, b in l])


def model_msg(cm):
    s = ''
    for kind, t in cm:
        if kind == 'ignored':
            s += 'Ignored line: "%s"\n' % t
        elif kind == 'multiple':
            s += 'Line with multiple "=" - ignored: "%s"\n' % t
        else:
            s += '<unrecognised report> ' + t + '\n'
    return s


def emit(text, res):
    tbl = coq_list(['(%s, %s)' % (coq_string(k), coq_bool(v)) for k, v in sorted(float_table(text).items())])
    if 'exc' in res:
        r = '(Err %s)' % res['exc']
    else:
        if not isinstance(res['maxtime'], int) or isinstance(res['maxtime'], bool):
            raise ValueError('MaxTime is not an int: %r' % (res['maxtime'],))
        r = '(Ok (mkParsed %s %s %s %s %s %s %s %s))' % (
            coq_pairs(res['endo']), coq_pairs(res['lag']), coq_pairs(res['exo']), coq_pairs(res['ic']),
            coq_pairs(res['all']), coq_Z(res['maxtime']), coq_string(str(res['tol'])), coq_string(model_msg(res['msg'])))
    return 'c14_case %s %s %s' % (tbl, coq_string(text), r)


def coq_item(it, c):
    k = it['kind']
    cm = 'None' if c is None else '(Some %s)' % coq_string(c)
    sp = '(mkSp %s)' % ' '.join(coq_string(w) for w in it['sp']) if 'sp' in it else ''
    if k in ('Endo', 'Exo', 'IC'):
        body = '%s %s %s %s' % (k, coq_string(it['x']), coq_string(it['rhs']), sp)
    elif k == 'Lag':
        body = 'Lag %s %s %s %s' % (coq_string(it['x']), coq_string(it['src']), {'k': 'FK', 't': 'FT', 'tok': 'FTok'}[it['form']], sp)
    elif k == 'Marker':
        body = 'Marker %s' % coq_string(it['text'])
    elif k in ('MaxTimeI', 'TolI'):
        body = '%s %s %s' % (k, coq_string(it['txt']), sp)
    elif k == 'CommentLine':
        return '(CommentLine %s %s)' % (coq_string(it['ws']), coq_string(it['c']))
    elif k == 'Blank':
        return '(Blank %s)' % coq_string(it['ws'])
    else:
        body = 'Junk %s' % coq_string(it['text'])
    return '(Code (%s) %s)' % (body, cm)


def emit_desc(items, cs, text):
    tbl = coq_list(['(%s, %s)' % (coq_string(k), coq_bool(v)) for k, v in sorted(float_table(text).items())])
    return 'c14_desc_case %s %s %s' % (tbl, coq_list([coq_item(it, c) for it, c in zip(items, cs)]), coq_string(text))


# ---------------------------------------------------------------- oracle
def squash(s):
    return ''.join(str(s).split())


def expected(items):
    """What the property says about a description, computed from the description alone."""
    mode, found_t = False, False
    e = {'endo': [], 'lag': [], 'exo': [], 'ic': {}, 'maxtime': 0, 'tol': '1e-8', 'junk': []}
    for it in items:
        k = it['kind']
        if is_marker(it):
            mode = True
        elif k in ('Endo', 'Exo'):
            found_t = found_t or it['x'] in ('t', 't_minus_1')
            (e['exo'] if mode else e['endo']).append((it['x'], squash(it['rhs'])))
        elif k == 'Lag':
            found_t = found_t or it['x'] in ('t', 't_minus_1')
            if mode:
                e['exo'].append((it['x'], squash(it['src'] + SUFFIX[it['form']])))
            else:
                e['lag'].append((it['x'], squash(it['src'])))
        elif k == 'IC':
            if mode:
                e['exo'].append((it['x'] + '(0)', squash(it['rhs'])))
            else:
                e['ic'][it['x']] = squash(it['rhs'])
        elif k == 'MaxTimeI':
            e['maxtime'] = int(it['txt'])
        elif k == 'TolI':
            e['tol'] = it['txt'].strip()
        elif k == 'Junk':
            e['junk'].append(it['text'].strip())
    if not found_t:
        e['endo'].append(('t', 'k'))
    e['default_t'] = not found_t
    return e


def oracle(c):
    fails = []
    items = c['items']

    def fail(key, what):
        fails.append({'key': key, 'what': what, 'replay': {'kind': 'block', 'case': c}})
    t1, t2 = print_block(items, c['cs1']), print_block(items, c['cs2'])
    r1, r2 = run_impl(t1), run_impl(t2)
    if r1 != r2:
        diff = [k for k in sorted(set(r1) | set(r2)) if r1.get(k) != r2.get(k)]
        fail('ParseString:comment-changes-classification',
             'the same lines with two different comment texts parse differently (%s): %r vs %r' % (', '.join(diff), t1, t2))
    e = expected(items)
    for text, r in ((t1, r1), (t2, r2)):
        if 'exc' in r:
            fail('ParseString:misclassified-item', 'well-formed block raised %s: %r' % (r['exc'], text))
            break
        norm = lambda l: sorted((a, squash(b)) for a, b in l)
        bad = []
        if norm(r['endo']) != sorted(e['endo']):
            bad.append('Endogenous %r, expected %r' % (r['endo'], e['endo']))
        if norm(r['lag']) != sorted(e['lag']):
            bad.append('Lagged %r, expected %r' % (r['lag'], e['lag']))
        if norm(r['exo']) != sorted(e['exo']):
            bad.append('Exogenous %r, expected %r' % (r['exo'], e['exo']))
        if norm(r['ic']) != sorted(e['ic'].items()):
            bad.append('InitialConditions %r, expected %r' % (r['ic'], e['ic']))
        if r['maxtime'] != e['maxtime']:
            bad.append('MaxTime %r, expected %r' % (r['maxtime'], e['maxtime']))
        if squash(r['tol']) != squash(e['tol']):
            bad.append('Err_Tolerance %r, expected %r' % (r['tol'], e['tol']))
        if bad:
            fail('ParseString:misclassified-item', '; '.join(bad)[:600] + ' for ' + repr(text)[:300])
            break
        reported = ' '.join(t for _, t in r['msg'])
        missing = [j for j in e['junk'] if j not in reported]
        if missing:
            fail('ParseString:junk-not-reported', 'malformed line(s) %r not in the returned message %r' % (missing, r['msg']))
            break
    return fails


# ---------------------------------------------------------------- end to end
def build_model(desc, longname):
    from sfc_models.models import Model, Country
    from sfc_models.sector_definitions import ConsolidatedGovernment, Household, FixedMarginBusiness, TaxFlow
    from sfc_models.sector import Market
    mod = Model()
    c = Country(mod, 'C', 'Country')
    gov = ConsolidatedGovernment(c, 'GOV', 'Government')
    Household(c, 'HH', longname, alpha_income=.6, alpha_fin=.4)
    FixedMarginBusiness(c, 'BUS', 'Business Sector')
    TaxFlow(c, 'TF', 'TaxFlow', taxrate=.2)
    Market(c, 'LAB', 'Labour market')
    Market(c, 'GOOD', 'Goods market')
    gov.SetExogenous('DEM_GOOD', '[0.,] + [20.,] * 105')
    gov.AddVariable('BONUS', desc, '0.01*T + 1.0')      # a genuine simultaneous equation (a constant would survive being filed as exogenous)
    mod.MaxTime = 3
    return mod


def run_model(desc, longname):
    try:
        mod = build_model(desc, longname)
        mod.main()
        ts = mod.EquationSolver.TimeSeries
        return {n: [float(v).hex() for v in ts[n]] for n in sorted(ts.keys())}
    except Exception as e:
        return 'raised %s: %s' % (type(e).__name__, str(e)[:200])


_BASE = []


def model_oracle(desc, longname):
    if not _BASE:
        _BASE.append(run_model('neutral', 'Household'))
    base = _BASE[0]
    if not isinstance(base, dict):
        return [{'key': 'Model.main:baseline-fails', 'what': 'the neutral model does not run: %s' % base,
                 'replay': {'kind': 'model', 'desc': 'neutral', 'longname': 'Household'}}]
    r = run_model(desc, longname)
    if r != base:
        what = r if isinstance(r, str) else 'time series differ in ' + ', '.join(
            sorted(k for k in set(r) | set(base) if r.get(k) != base.get(k))[:8])
        return [{'key': 'Model.main:description-changes-result',
                 'what': 'description %r / long name %r: %s (neutral text runs fine)' % (desc, longname, what),
                 'replay': {'kind': 'model', 'desc': desc, 'longname': longname}}]
    return []


def gen_model_case(rng):
    def text():
        c = gen_comment(rng) or rng.choice(HOSTILE)
        return c.replace('\t', ' ')
    if rng.random() < 0.75:
        return text(), 'Household'
    return 'neutral', text()


# ---------------------------------------------------------------- run / replay
def run(ctx):
    out = common.Outcome()
    out.proof = common.proof_status(FAMILY, PROPFILE)
    common.use_impl()
    n_desc = ctx.scale(800, 6000)
    n_mal = ctx.scale(1200, 9000)
    n_model = ctx.scale(60, 500)
    cases, metas, seen = [], [], set()
    stats = {'descriptions': 0, 'malformed_blocks': 0, 'model_runs': 0, 'with_marker': 0, 'hostile_word_in_trailing_comment': 0,
             'lag_forms': {'k': 0, 't': 0, 'tok': 0}, 'raised': 0, 'junk_items': 0, 'default_t': 0}
    for _ in range(n_desc):
        c = gen_desc(ctx.rng)
        out.failures.extend(oracle(c))
        for cs in (c['cs1'], c['cs2']):
            text = print_block(c['items'], cs)
            cases.append(emit(text, run_impl(text)))
            metas.append({'text': text})
        text = print_block(c['items'], c['cs1'])
        cases.append(emit_desc(c['items'], c['cs1'], text))
        metas.append({'text': text, 'kind': 'description is well-formed for the theorems and the Coq printer gives this text',
                      'items': c['items']})
        stats['descriptions'] += 1
        stats['with_marker'] += 1 if any(is_marker(it) for it in c['items']) else 0
        hw = any(x is not None and WORD in x.lower() for x in c['cs1'] + c['cs2'])
        stats['hostile_word_in_trailing_comment'] += 1 if hw else 0
        for it in c['items']:
            if it['kind'] == 'Lag':
                stats['lag_forms'][it['form']] += 1
            if it['kind'] == 'Junk':
                stats['junk_items'] += 1
        stats['default_t'] += 1 if expected(c['items'])['default_t'] else 0
        neq = sum(1 for it in c['items'] if it['kind'] in ('Endo', 'Exo', 'Lag', 'IC'))
        if neq >= 3 and any(x for x in c['cs1'] + c['cs2']):
            seen.add(json.dumps(c, sort_keys=True))
    for _ in range(n_mal):
        text = gen_malformed(ctx.rng)
        try:
            coq_string(text)
        except ValueError:
            text = text.encode('ascii', 'replace').decode()
        res = run_impl(text)
        stats['malformed_blocks'] += 1
        stats['raised'] += 1 if 'exc' in res else 0
        cases.append(emit(text, res))
        metas.append({'text': text})
    for _ in range(n_model):
        desc, ln = gen_model_case(ctx.rng)
        out.failures.extend(model_oracle(desc, ln))
        stats['model_runs'] += 1
    bad, errs = common.run_bool_cases(FAMILY, REQUIRES, cases, tag=PID)
    out.corr_errors = errs
    for i in bad[:20]:
        out.disagreements.append({'input': metas[i], 'impl': run_impl(metas[i]['text']), 'case': cases[i][:800]})
    out.evaluations = len(cases) + stats['model_runs']
    out.nontrivial = len(seen)
    out.rule = ('random block descriptions (1-16 items: simultaneous / lagged in the three notations / initial condition / '
                'marker as code or as comment line / exogenous / MaxTime / Err_Tolerance / comment line / blank / junk; random '
                'spacing around names, "=" and right-hand sides), each printed with two independent assignments of trailing '
                'comments drawn from hostile texts ("exogenous", "=", "#", "(k-1)", "(0)", "MaxTime = 7", digits, character '
                'soup); plus malformed blocks (bad MaxTime/Err_Tolerance, "x (0) = 1", "y(k-1) + 1", marker word inside names, '
                'character soup); plus end-to-end Model.main() runs with a hostile description or sector long name. '
                'non-trivial = description with at least three equation items and a non-empty comment; distinct by full input')
    out.samples = [m['text'] for m in metas[:3]] + [m['text'] for m in metas[3 * n_desc:3 * n_desc + 2]]
    out.extra = {'input_distribution': stats,
                 'source_hashes': common.source_hashes(['sfc_models/equation_parser.py', 'sfc_models/models.py', 'sfc_models/sector.py'])}
    out.trusted_base = ['Coq 8.16.1 kernel + vm_compute',
                        'hand-written model coq/Block/Classify.v of EquationParser.ParseString (tied by this correspondence)',
                        "Python's float() acceptance of the Err_Tolerance text (model parameter fo, table supplied by the harness)",
                        "Python str methods split/find/strip/lower/replace and int() on ASCII text, as mirrored in coq/Base/Str.v and Classify.v",
                        'no axioms (Print Assumptions: closed under the global context)']
    out.assumptions = ['block text is ASCII (printable characters, tab, newline)',
                       'a comment line of its own that contains the marker word is a section marker (the framework emits the marker '
                       'that way); only trailing comments are claimed inert',
                       'the end-to-end statement (Model.main unaffected by descriptions) is checked by the oracle on generated '
                       'texts; the theorem covers ParseString']
    return out


def replay(path):
    obj = json.load(open(path))
    r = obj.get('replay') or {}
    common.use_impl()
    if r.get('kind') == 'block':
        fails = oracle(r['case'])
    elif r.get('kind') == 'model':
        fails = model_oracle(r['desc'], r['longname'])
    else:
        print('replay names a proof/correspondence obligation, nothing to execute:', json.dumps(obj)[:500])
        return 1
    for f in fails:
        print('FAILS:', f['key'], f['what'][:400])
    print('replay: %s' % ('property violated' if fails else 'property holds on this input'))
    return common.replay_status(PID, fails)
