"""Declaration-order invariance of the whole-pipeline model (coq/GenOrder) against the permutations the harness performs.

Part of C08.  The lead integrates it with

    import gen_order
    ...                                 # in run(ctx), where out.proof is set:
    out.proof = common.merge_proofs([common.proof_status(FAMILY, PROPFILE)] +
                                    [common.proof_status(f, p) for f, p in gen_order.PROOFS])
    ...                                 # at the end of run(ctx), just before `return out`
    gen_order.extra(ctx, out)
    ...                                 # at the top of replay(path):
    obj = json.load(open(path))
    if (obj.get('replay') or {}).get('kind') == 'order':
        return gen_order.replay(obj)

Proof: coq/GenOrder/PropOrder.v — for ALL programs p of the language of coq/GenMain2/Program.v and ALL p' with
`admissible_perm p p'` (sector declarations permuted within each country subject only to "an object exists before it is
passed to a constructor", references re-indexed), `order_ok p = true` and `build p = Ok E` give `build p' = Ok E'` with
the same solutions for every variable (`sys_equiv`).
Tie, on every run: programs of gen_common.ProgGen (single / federated, the single-currency language of `build`) and
random dependency-respecting permutations produced by gen_common.permute_declarations are rendered with
gen_main.render_program; evaluated in Coq: `is_admissible p p'` (the theorem's relation covers what the harness does),
`order_ok p` on every well-formed program, `reform_ok` on both (the sector-wise reformulation the proof goes through),
and the boolean `rows_perm_equiv_b` on the two model outputs (sanity net).  The implementation side is tied by
gen_main's whole-program correspondence, run here on the PERMUTED program as well (gen_main.run_impl + emit_case).
No oracle of its own (C08's oracle solves both orders on the implementation).
"""
import copy
import json

import common
import gen_common
import gen_main

PROOFS = [('GenOrder', 'PropOrder.v')]
FAMILY = 'GenOrder'
REQUIRES = ['From SFC.Base Require Import Res Str.', 'From SFC.Gen Require Import Fx Zone.',
            'From SFC.GenMain2 Require Import Program Classes Main CaseDefs Conflict.',
            'From SFC.GenOrder Require Import Ops Plan Check Perm Static Equiv Static2 CaseDefs.']

TRUSTED = [
    'GenOrder: theorems are about the model coq/GenMain2 (`build`), tied to the code by gen_main\'s whole-program correspondence, '
    'which harness/gen_order.py also runs on every permuted program; the rendering of a permuted program (re-indexed '
    'references, late treasury attachment) is gen_main.render_program, and `is_admissible` is evaluated on every (program, '
    'permutation) pair the harness produces',
]
ASSUMPTIONS = [
    'GenOrder: Main_order_invariant holds under the decidable side condition order_ok p = true (computed from the state after '
    'construction: what one sector\'s _GenerateEquations looks up by name in another sector is not created by a third one; two '
    'sectors of a country never define the same variable in competing ways; at most one dividend receiver per country); '
    'evaluated on every generated well-formed program',
]


def _names(prog):
    try:
        return gen_main.final_names(prog)
    except gen_main.OutOfLanguage:
        raise
    except Exception:
        return gen_main.static_names(prog)


def special_programs(rng):
    """Hand-written shapes outside the generator's stream on which the side condition is expected to FAIL (reported in the
    distribution, never as a disagreement): two dividend receivers / two tax flows in one country."""
    pg = gen_common.ProgGen(rng, shuffle=False)
    out = []
    for kind in ('two_capitalists', 'two_taxflows'):
        for _ in range(40):
            prog = pg.single()
            steps = prog['steps']
            secs = [s for s in steps if s['kind'] == 'sector']
            if kind == 'two_capitalists':
                caps = [s for s in secs if s['cls'] == 'Capitalists']
                if not caps:
                    continue
                c2 = copy.deepcopy(caps[0])
                c2['id'] += 'b'
                c2['code'] = 'CP2'
                steps.insert(steps.index(caps[0]) + 1, c2)
            else:
                tfs = [s for s in secs if s['cls'] == 'TaxFlow']
                if not tfs:
                    continue
                t2 = copy.deepcopy(tfs[0])
                t2['id'] += 'b'
                t2['code'] = 'TF2'
                t2['kw']['taxrate'] = 0.11
                steps.insert(steps.index(tfs[0]) + 1, t2)
            out.append((prog, kind))
            break
    return out


def gen_pairs(ctx, n, K):
    """[(program, permuted program, label)]"""
    rng = ctx.rng
    pg = gen_common.ProgGen(rng)
    out = []
    for i in range(n):
        prog = pg.single() if rng.random() < 0.5 else pg.federated()
        label = prog.get('shape')
        progs = [(prog, label)]
        if rng.random() < 0.35:
            d = gen_main.damage(rng, prog)
            if d is not None:
                progs.append((d[0], 'damaged:' + d[1]))
        for q, lab in progs:
            for j in range(K):
                perm = gen_common.permute_declarations(rng, q)
                if perm['steps'] == q['steps']:
                    continue
                out.append((q, perm, lab))
    return out


def _strip(prog):
    return gen_common.strip_prog(prog) if 'infos' in prog else {'maxtime': prog.get('maxtime', 5), 'steps': prog['steps'],
                                                               'shape': prog.get('shape')}


def extra(ctx, out, quick_n=30, thorough_n=400):
    n = ctx.scale(quick_n, thorough_n)
    K = ctx.scale(2, 3)
    cases, metas, ok_cases, ok_metas, main_cases, main_metas = [], [], [], [], [], []
    dist = {'pairs': 0, 'shapes': {}, 'out_of_language': 0, 'impl_errors_perm': {}, 'moved_declarations': 0,
            'late_treasury_pairs': 0}
    distinct = set()
    base_seen = set()
    for prog, perm, label in gen_pairs(ctx, n, K):
        try:
            names = _names(prog)
            cp = gen_main.render_program(prog, names)
            cq = gen_main.render_program(perm, names)
        except (gen_main.OutOfLanguage, KeyError):
            dist['out_of_language'] += 1
            continue
        res = gen_main.run_impl(perm)
        dist['pairs'] += 1
        dist['shapes'][label] = dist['shapes'].get(label, 0) + 1
        a = [s['id'] for s in prog['steps'] if s['kind'] == 'sector']
        b = [s['id'] for s in perm['steps'] if s['kind'] == 'sector']
        dist['moved_declarations'] += sum(1 for x, y in zip(a, b) if x != y)
        dist['late_treasury_pairs'] += ('OSetTreasury' in cp) != ('OSetTreasury' in cq)
        if res[0] == 'err':
            dist['impl_errors_perm'][res[1]] = dist['impl_errors_perm'].get(res[1], 0) + 1
        meta = {'prog': _strip(prog), 'perm': _strip(perm)}
        cases.append('order_case %s %s' % (cp, cq))
        metas.append(meta)
        main_cases.append(gen_main.emit_case(cq, res))
        main_metas.append(meta)
        if id(prog) not in base_seen:
            # the base program as well (so that model = implementation on BOTH programs of the pair comes from this stream)
            base_seen.add(id(prog))
            main_cases.append(gen_main.emit_case(cp, gen_main.run_impl(prog)))
            main_metas.append({'prog': _strip(prog), 'perm': _strip(prog)})
        if not label.startswith('damaged') and res[0] == 'ok':
            ok_cases.append('order_ok %s && order_ok %s' % (cp, cq))
            ok_metas.append(meta)
        distinct.add(json.dumps([a, b, label]))
    bad, errs = common.run_bool_cases(FAMILY, REQUIRES, cases, tag='ord' + ctx.pid, shard=6, jobs=12)
    out.corr_errors.extend(errs)
    for i in bad[:10]:
        rep = common.coq_show(FAMILY, REQUIRES, 'order_report %s' % cases[i][len('order_case '):])
        out.disagreements.append({'order_pair': metas[i], 'obligation': 'order_case (is_admissible; order_ok p; reform_ok p; '
                                  'reform_ok p\'; outputs agree; build p ok) = ' + rep[-200:]})
    # the permuted program against the implementation (whole-program correspondence of gen_main on p')
    mbad, merrs = common.run_bool_cases(FAMILY, REQUIRES, main_cases, tag='ordm' + ctx.pid, shard=10, jobs=12)
    out.corr_errors.extend(merrs)
    for i in mbad[:10]:
        out.disagreements.append({'order_pair': main_metas[i], 'obligation': 'gen_main correspondence on the permuted program'})
    # non-vacuity: the side condition on the generator's own well-formed programs
    obad, oerrs = common.run_bool_cases(FAMILY, REQUIRES, ok_cases, tag='ordk' + ctx.pid, shard=12, jobs=12)
    out.corr_errors.extend(oerrs)
    dist['order_ok_evaluated'] = len(ok_cases)          # order_ok p && order_ok p' (hypotheses of Main_order_errors)
    dist['order_ok_true'] = len(ok_cases) - len(obad)
    # shapes on which the side condition must fail
    sp = []
    for prog, kind in special_programs(ctx.rng):
        try:
            sp.append(('negb (order_ok %s)' % gen_main.render_program(prog, _names(prog)), kind))
        except (gen_main.OutOfLanguage, KeyError):
            pass
    sbad, serrs = common.run_bool_cases(FAMILY, REQUIRES, [c for c, _ in sp], tag='ords' + ctx.pid, shard=12)
    out.corr_errors.extend(serrs)
    dist['order_ok_false_on'] = {k: (i not in sbad) for i, (_, k) in enumerate(sp)}
    out.evaluations += len(cases) + len(main_cases)
    out.nontrivial += len(distinct)
    # minimum-count guard: an empty or almost empty stream must not pass for a tie
    n_eval__ = max([v for k, v in dist.items() if isinstance(v, int) and k in ('programs', 'pairs', 'cases', 'sets', 'joints', 'evaluated')] + [0])
    if n_eval__ < 5:
        out.corr_errors.append('gen_order: only %d cases were evaluated (distribution %r)' % (n_eval__, {k: v for k, v in dist.items() if isinstance(v, int)}))

    out.extra['order_model'] = dist
    out.trusted_base = list(out.trusted_base or []) + TRUSTED
    out.assumptions = list(out.assumptions or []) + ASSUMPTIONS
    if metas:
        m = metas[0]
        out.samples.append({'order_pair': {'base_order': [s['id'] for s in m['prog']['steps'] if s['kind'] == 'sector'],
                                           'permuted_order': [s['id'] for s in m['perm']['steps'] if s['kind'] == 'sector']}})
    return out


def report(prog, perm):
    """The six booleans of CaseDefs.order_report for a pair (debugging aid)."""
    names = _names(prog)
    return common.coq_show(FAMILY, REQUIRES, 'order_report %s %s' % (gen_main.render_program(prog, names),
                                                                     gen_main.render_program(perm, names)))


def replay(obj):
    """`obj`: the loaded replay file or the inner {'kind': 'order', 'prog': ..., 'perm': ...}.  No oracle of its own:
    both orders are built by the implementation and the row sets are compared as multisets of (name, right-hand side
    with sorted summand characters); the return value is 1 only if one order builds and the other does not."""
    r = obj.get('replay', obj) or {}
    if r.get('kind') != 'order':
        return 0
    a = gen_main.run_impl(r['prog'])
    b = gen_main.run_impl(r['perm'])
    if a[0] != b[0]:
        print('replay: one declaration order builds, the other raises: %r vs %r' % (a[:2], b[:2]))
        return 1
    if a[0] == 'err':
        print('replay: both orders raise (%s, %s); property holds on this input' % (a[1], b[1]))
        return 0
    na, nb = sorted(x[0] for x in a[1] + a[2] + a[3]), sorted(x[0] for x in b[1] + b[2] + b[3])
    if na != nb:
        print('replay: the two orders emit different variables: %r' % sorted(set(na) ^ set(nb))[:6])
        return 1
    print('replay: property holds on this input (same variables in both orders; values are C08\'s oracle)')
    return 0
