"""C10 — exogenous paths, initial conditions and horizon are honoured verbatim.

Proof: coq/Solve/PropC10.v (lengths, exogenous series = supplied values truncated / broadcast,
initial condition = k=0 value, lag, time axis, rejection of malformed specifications) about the model
of SetInitialConditions / SolveEquation in coq/Solve/{Init,Step,Run}.v.
Correspondence: as for C02 (shared generator, weighted towards exogenous / initial-condition forms and
malformed specifications); the model must reproduce every series, the exception class and the traced
sweep count bit for bit.
Oracle (implementation only): on every normal return the series lengths, exogenous / initial-condition /
lag / time facts are checked directly; malformed specifications must raise ValueError with nothing solved;
end-to-end Model runs (gl_book SIM) with SetExogenous given as list / tuple / string, AddInitialCondition,
Model.MaxTime, and solver.MaxTime assigned before ParseString.
"""
import json
import math

import common
import solve_common as sc

PID = 'C10'
FAMILY = sc.FAMILY
PROPFILE = 'PropC10.v'
LEVEL = 'proof'
WEIGHTS = {'affine': 4, 'oscillating': 0.5, 'pole': 0.7, 'tree': 5, 'deco': 2.5, 'reject': 4, 'weird': 0.7, 'overflow': 0.3}


def oracle(case, res):
    fails = []
    if res is None or res['parse_error'] is not None:
        return fails
    rep = {'kind': 'solve', 'case': case}
    if res.get('hang'):
        return [{'key': 'hang', 'what': 'SolveEquation did not return within %d s: %s' % (
            sc.CASE_TIMEOUT, sc.block_text(case).replace('\n', ' | ')), 'replay': rep}]
    s = res['solver']
    T = s.Parser.MaxTime
    # the horizon that was STATED: the one assigned to the solver before parsing, else the block's MaxTime line
    stated = case['solver_maxtime'] if case.get('solver_maxtime') is not None else case.get('maxtime')
    if isinstance(stated, int) and stated >= 0 and case['kind'] != 'weird':
        T = stated
    ts = res['ts_raw']
    txt = sc.block_text(case).replace('\n', ' | ')
    rej = case.get('info', {}).get('reject')
    if rej in ('short', 'garbage', 'badic', 'string'):      # ('intscalar' is refused by the code today; the property does not demand it)
        ok = res['outcome'] is not None and res.get('exc_is_value_error') and len(ts) == 0
        if not ok:
            fails.append({'key': 'reject:' + rej, 'what': 'malformed %s specification: outcome %r, %d series stored (%s)' % (
                rej, res['raw_exc'], len(ts), txt), 'replay': rep})
        return fails
    if case['kind'] == 'weird' or res['outcome'] is not None:
        return fails
    try:
        tol = float(s.Parser.Err_Tolerance)
    except ValueError:
        return fails
    vc = sc.var_classes(s)
    allvars = set(vc['endo']) | set(v for v, _ in vc['lagged']) | set(vc['exo']) | set(vc['deco'])
    # lengths
    for v in allvars:
        if v not in ts or len(ts[v]) != T + 1:
            fails.append({'key': 'length', 'what': '%s has %s values, MaxTime=%d (%s)' % (
                v, len(ts[v]) if v in ts else 'no', T, txt), 'replay': rep})
            return fails
    # exogenous verbatim
    exo_txt = dict((n, t) for n, t in case['exo'])
    for x, t in exo_txt.items():
        sup = sc.supplied_exo(t, T)
        if sup is None or x not in ts:
            continue
        if len(ts[x]) != T + 1 or not all(sc.same_number(a, b) for a, b in zip(ts[x], sup)):
            fails.append({'key': 'exo:verbatim', 'what': '%s = %s reported as %r (MaxTime %d)' % (x, t, ts[x], T), 'replay': rep})
            return fails
    # initial conditions on non-exogenous variables
    for nm, t in case['ics']:
        if nm in exo_txt or nm not in ts:
            continue
        try:
            c = float(sc.eval_text(t, {}))
        except Exception:  # noqa
            continue
        if not sc.same_number(ts[nm][0], c):
            fails.append({'key': 'ic', 'what': '%s(0) = %s but reported %r (%s)' % (nm, t, ts[nm][0], txt), 'replay': rep})
            return fails
    # lags
    for lv, src in vc['lagged']:
        for k in range(1, T + 1):
            if src in ts and not sc.same_number(ts[lv][k], ts[src][k - 1]):
                fails.append({'key': 'lag', 'what': '%s[%d]=%r, %s[%d]=%r' % (lv, k, ts[lv][k], src, k - 1, ts[src][k - 1]),
                              'replay': rep})
                return fails
    # time axis
    if 'k' not in allvars:
        if [float(v) for v in ts.get('k', [])] != [float(i) for i in range(T + 1)]:
            fails.append({'key': 'time:k', 'what': 'k = %r' % (ts.get('k'),), 'replay': rep})
            return fails
        user_t = any(l in ('t', 't_minus_1') for l, _ in case['eqs']) or any(n == 't' for n, _ in case['exo'])
        t_ic = any(nm == 't' for nm, _ in case['ics'])
        if not user_t and tol < 1 and 't' in ts:
            want = [float(i) for i in range(T + 1)]
            got = [float(v) for v in ts['t']]
            if (got[1:] != want[1:]) or (not t_ic and got[:1] != want[:1]):
                fails.append({'key': 'time:t', 'what': 't = %r (%s)' % (ts['t'], txt), 'replay': rep})
    return fails


# ---------------------------------------------------------------- end-to-end Model runs (implementation only)
def gen_model_case(rng):
    T = rng.choice([2, 3, 5, 8])
    n = T + 1 + rng.choice([0, 0, 2, 10])
    vals = [round(rng.uniform(5, 40), 1) for _ in range(n)]
    form = rng.choice(['list', 'tuple', 'string', 'string_mul', 'short', 'int_list'])
    if form == 'int_list':
        vals = [float(int(v)) for v in vals]
    ic = rng.choice([None, None, round(rng.uniform(1, 80), 1)])
    how_T = rng.choice(['model', 'solver_before_parse'])
    m = {'T': T, 'vals': vals, 'form': form, 'ic': ic, 'how_T': how_T, 'via_model': rng.random() < 0.5}
    # initial conditions on an endogenous stock, a constant parameter, a flow, a lagged variable; zero included
    # (a stated zero is still a stated initial condition: the constant 0.6 must read 0.0 at k=0)
    m['ic_var'] = rng.choice(['F', 'F', 'AlphaIncome', 'AlphaFin', 'AfterTax', 'DEM_GOOD', 'LAG_F'])
    if ic is not None and rng.random() < 0.4:
        m['ic'] = 0.0
    if how_T == 'solver_before_parse' and form != 'short' and rng.random() < 0.3:
        m['solver_T'] = rng.choice([0, 0, 1, T])      # a horizon on the solver that differs from the model's
    return m


def oracle_model(m):
    from sfc_models.gl_book.chapter3 import SIM
    from sfc_models.equation_solver import EquationSolver
    fails = []
    rep = {'kind': 'model', 'case': m}
    T, vals, form = m['T'], list(m['vals']), m['form']
    builder = SIM(country_code='C1', use_book_exogenous=False)
    mod = builder.build_model()
    gov = [sec for sec in builder.Country.SectorList if sec.Code == 'GOV'][0]
    if form == 'list':
        spec = list(vals)
    elif form == 'int_list':
        spec = [int(v) for v in vals]
    elif form == 'tuple':
        spec = tuple(vals)
    elif form == 'string':
        spec = repr(vals)
    elif form == 'string_mul':
        vals = [vals[0]] * len(vals)
        spec = '[%r,] * %d' % (vals[0], len(vals))
    else:  # short
        vals = vals[:max(T - 1, 0)]
        spec = list(vals)
    if m.get('via_model'):
        mod.AddExogenous('GOV', 'DEM_GOOD', spec)
    else:
        gov.SetExogenous('DEM_GOOD', spec)
    ic_var = m.get('ic_var', 'F')
    if m['ic'] is not None:
        mod.AddInitialCondition('HH', ic_var, m['ic'])
    mod.MaxTime = T
    s = None
    try:
        if m['how_T'] == 'model':
            mod.main()
            s = mod.EquationSolver
            err = None
        else:
            # the horizon set on the solver directly (before the block is parsed)
            mod.MaxTime = 1 if m.get('solver_T') is None else T
            eqs = mod_final_equations(mod, keep_maxtime=m.get('solver_T') is not None)
            s = EquationSolver()
            if m.get('solver_T') is not None:
                T = m['solver_T']
            s.MaxTime = T
            s.ParseString(eqs)
            s.SolveEquation()
            err = None
    except Exception as e:  # noqa
        err = e
    if form == 'short':
        if err is None or not isinstance(err, ValueError):
            fails.append({'key': 'model:short-exogenous-accepted', 'what': 'exogenous list of %d values, MaxTime %d: %r' % (
                len(vals), T, err), 'replay': rep})
        return fails
    if err is not None:
        fails.append({'key': 'model:failed', 'what': 'SIM with exogenous %s failed: %r' % (form, err), 'replay': rep})
        return fails
    ts = s.TimeSeries
    bad = [v for v in ts if len(ts[v]) != T + 1]
    if bad:
        fails.append({'key': 'model:length', 'what': 'series %r do not have %d values' % (bad[:4], T + 1), 'replay': rep})
        return fails
    got = [float(v) for v in ts['GOV__DEM_GOOD']]
    if got != [float(v) for v in vals[:T + 1]]:
        fails.append({'key': 'model:exo-verbatim', 'what': 'GOV__DEM_GOOD = %r, supplied %r' % (got, vals[:T + 1]), 'replay': rep})
    if m['ic'] is not None and float(ts['HH__' + ic_var][0]) != float(m['ic']):
        fails.append({'key': 'model:ic', 'what': 'HH__%s(0) = %r, initial condition %r' % (ic_var, ts['HH__' + ic_var][0], m['ic']),
                      'replay': rep})
    if [float(v) for v in ts['k']] != [float(i) for i in range(T + 1)] or [float(v) for v in ts['t']] != [float(i) for i in range(T + 1)]:
        fails.append({'key': 'model:time', 'what': 'k=%r t=%r' % (ts['k'], ts['t']), 'replay': rep})
    for k in range(1, T + 1):
        if ts['HH__LAG_F'][k] != ts['HH__F'][k - 1]:
            fails.append({'key': 'model:lag', 'what': 'HH__LAG_F[%d] != HH__F[%d]' % (k, k - 1), 'replay': rep})
            break
    return fails


def mod_final_equations(mod, keep_maxtime=False):
    """the equation block a Model hands to its solver (public attribute FinalEquations after main() with a
    one-period horizon); the MaxTime line is dropped so that the solver's own horizon decides."""
    mod.main()
    lines = [l for l in mod.FinalEquations.split('\n') if keep_maxtime or not l.strip().startswith('MaxTime')]
    return '\n'.join(lines)


# ---------------------------------------------------------------- entry points
def nontrivial(case, res):
    if res is None or res['parse_error'] is not None or res['state'] is None:
        return False
    st = res['state']
    return st['maxtime'] >= 1 and (len(st['exo']) > 0 or len(st['ics']) > 0 or len(st['lagged']) > 0)


def gen_object_case(rng):
    """Exogenous variables supplied as Python objects (list / tuple / float) in Parser.Exogenous, as the
    library's own float-exogenous test does, some longer than the horizon."""
    T = rng.choice([1, 2, 3, 5])
    objs = []
    for nm in ('ga', 'gb', 'gc')[:rng.randint(1, 3)]:
        kind = rng.choice(['list', 'tuple', 'float'])
        if kind == 'float':
            objs.append([nm, 'float', round(rng.uniform(-5, 5), 2)])
        else:
            n = T + 1 + rng.choice([0, 0, 1, 3, 7])
            objs.append([nm, kind, [round(rng.uniform(-5, 5), 2) for _ in range(n)]])
    return {'T': T, 'objs': objs}


def oracle_objects(c):
    from sfc_models.equation_solver import EquationSolver
    names = [o[0] for o in c['objs']]
    block = 'x = 0.5*LAG_x + %s\nLAG_x = x(k-1)\nMaxTime = %d' % (' + '.join(names), c['T'])
    s = EquationSolver(run_equation_reduction=False)
    s.ParseString(block)
    for nm, kind, val in c['objs']:
        s.Parser.Exogenous.append((nm, float(val) if kind == 'float' else (list(val) if kind == 'list' else tuple(val))))
    s.SolveEquation()
    fails = []
    T = c['T']
    for nm, kind, val in c['objs']:
        want = [float(val)] * (T + 1) if kind == 'float' else [float(v) for v in val[:T + 1]]
        got = list(s.TimeSeries[nm])
        if got != want:
            fails.append({'key': 'exogenous:object-not-honoured',
                          'what': 'exogenous %s supplied as a %s object: series %r, expected the first horizon+1 values %r' % (nm, kind, got, want),
                          'replay': {'kind': 'objects', 'case': c}})
    for nm, ser in s.TimeSeries.items():
        if len(ser) != T + 1:
            fails.append({'key': 'lengths:not-horizon-plus-one', 'what': 'series %s has %d values, horizon+1 = %d (object exogenous)' % (nm, len(ser), T + 1),
                          'replay': {'kind': 'objects', 'case': c}})
            break
    return fails


def run(ctx):
    out = common.Outcome()
    out.proof = common.proof_status(FAMILY, PROPFILE)
    n = ctx.scale(2500, 40000)
    cases = sc.corpus_cases(PID) + [sc.gen_case(ctx.rng, WEIGHTS) for _ in range(n)]
    cases = [c['case'] if 'case' in c else c for c in cases]
    # horizons set on the solver object before parsing
    for c in cases:
        if c['kind'] in ('affine', 'tree') and ctx.rng.random() < 0.15:
            c['solver_maxtime'] = ctx.rng.choice([0, 1, 2, 5])
            if ctx.rng.random() < 0.5:
                c['maxtime'] = None
            if c.get('trace') is not None and c['trace'] > c['solver_maxtime']:
                c['trace'] = None
    stats = {}
    results, nterms = sc.run_correspondence(out, cases, stats, PID)
    seen = set()
    kinds = {}
    for case, res in zip(cases, results):
        sc.classify(case, res, stats)
        kinds[case['kind']] = kinds.get(case['kind'], 0) + 1
        out.failures.extend(oracle(case, res))
        if nontrivial(case, res):
            seen.add(sc.case_key(case))
    nm = ctx.scale(60, 600)
    forms = {}
    for _ in range(nm):
        m = gen_model_case(ctx.rng)
        forms[m['form'] + '/' + m['how_T']] = forms.get(m['form'] + '/' + m['how_T'], 0) + 1
        out.failures.extend(sc.guarded(oracle_model, m, 'model:hang', 'model'))
    nobj = ctx.scale(80, 800)
    for _ in range(nobj):
        out.failures.extend(sc.guarded(oracle_objects, gen_object_case(ctx.rng), 'objects:hang', 'objects'))
    stats['object_exogenous_cases'] = nobj
    out.evaluations = len(cases) + nm + nobj
    out.nontrivial = len(seen)
    out.rule = ('random equation blocks (shared solver generator) weighted towards exogenous specifications (list, tuple, '
                '[c]*n, int list, float scalar, too short, int scalar, unevaluable), initial conditions on endogenous / lagged '
                '/ decorative / exogenous variables, lags, user-defined t, horizons from the block or from solver.MaxTime set '
                'before ParseString; plus gl_book SIM Model runs with SetExogenous as list / tuple / string and '
                'AddInitialCondition. Non-trivial = parsed, MaxTime >= 1 and at least one exogenous variable, initial '
                'condition or lag; distinct by block text + configuration')
    out.samples = [sc.block_text(c) for c in (cases[0], cases[len(cases) // 2], cases[-1])]
    stats['by_stream'] = kinds
    stats['model_cases'] = nterms
    stats['end_to_end_forms'] = forms
    out.extra = {'input_distribution': stats, 'source_hashes': common.source_hashes(sc.SOURCES + ['sfc_models/models.py'])}
    import c02
    out.trusted_base = c02.TRUSTED
    out.assumptions = c02.ASSUMPTIONS[:4] + [
        'C10_exo assumes distinct exogenous names (with a repeated name the last line wins in Python; mirrored by the model, '
        'checked by the correspondence, not stated as a theorem)',
        'C10_time for an endogenous t needs a tolerance below 1 and exactness of (k+k)/2, proved for horizons <= 5000',
        'solver.MaxTime assigned after ParseString is ignored by the code (DESIGN section 5): not exercised',
        'Model.AddExogenous / _GenerateInitialConditions (how a Model writes the lines) are covered by the end-to-end oracle only',
    ]
    return out


def replay(path):
    obj = json.load(open(path))
    r = obj.get('replay') or {}
    if r.get('kind') == 'solve':
        try:
            res = sc.drive(r['case'], want_state=False)
        except sc.Unsupported:
            res = None
        fails = oracle(r['case'], res)
    elif r.get('kind') == 'model':
        fails = oracle_model(r['case'])
    elif r.get('kind') == 'objects':
        fails = oracle_objects(r['case'])
    else:
        print('replay names a proof/correspondence obligation, nothing to execute:', json.dumps(obj)[:600])
        return 1
    for f in fails:
        print('FAILS:', f['key'], f['what'][:400])
    print('replay: %s' % ('property violated' if fails else 'property holds on this input'))
    return common.replay_status(PID, fails)
