"""Driver for harness/gen_tax.py on its own: proof status + extra(), prints counts.
Usage: /venv/bin/python harness/gen_tax_selftest.py [seed] [quick|thorough] [--replay FILE]"""
import json
import sys
import time

import common
import gen_tax


def main():
    args = [a for a in sys.argv[1:]]
    if '--replay' in args:
        common.use_impl()
        rc = gen_tax.replay(args[args.index('--replay') + 1])
        print('replay exit', rc)
        return rc or 0
    seed = int(args[0]) if args else 1
    tier = args[1] if len(args) > 1 else 'quick'
    t0 = time.time()
    common.use_impl()
    rc = 0
    for fam, pf in gen_tax.PROOFS:
        st = common.proof_status(fam, pf)
        print('proof %s/%s ok=%s theorems=%d broken=%s' % (fam, pf, st['ok'], len(st['theorems']), st['broken']))
        axioms = sorted(set(a for v in (st.get('assumptions') or {}).values() if v for a in v))
        print('axioms:', axioms)
        if not st['ok']:
            rc = 1
    ctx = common.Ctx('C01', tier, seed)
    out = common.Outcome()
    gen_tax.extra(ctx, out)
    keys = {}
    for f in out.failures:
        keys[f['key']] = keys.get(f['key'], 0) + 1
    print('evaluations=%d nontrivial=%d failures=%d %s disagreements=%d corr_errors=%d wall=%.1fs' % (
        out.evaluations, out.nontrivial, len(out.failures), keys, len(out.disagreements), len(out.corr_errors),
        time.time() - t0))
    print(json.dumps(out.extra['tax_model'], sort_keys=True))
    for f in out.failures[:3]:
        print('FAIL', f['key'], f['what'][:300])
        path = common.write_replay('C01', {'property': 'C01', 'kind': 'failing-input', 'key': f['key'], 'what': f['what'],
                                           'replay': f['replay']}, 7)
        print('  replay written to', path)
    for d in out.disagreements[:3]:
        print('DISAGREE', json.dumps(d)[:1500])
    for e in out.corr_errors[:2]:
        print('CORR-ERR', e['output'][-800:])
    if out.failures or out.disagreements or out.corr_errors:
        rc = 1
    return rc


if __name__ == '__main__':
    sys.exit(main())
