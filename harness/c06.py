"""C06 — sector ledgers reflect exactly the cash flows recorded on them.

Proof: coq/Eqn/PropC06.v (F / INC equal the running signed sums over all operation histories;
definition rule with frame; rejected registrations change nothing).
Correspondence: random operation sequences on a bare Sector inside a one-country Model
(AddVariable, SetEquationRightHandSide, AddTermToEquation, AddCashFlowIncomeExclusion for this and
for another sector, AddCashFlow with/without definition, income flag) -- after every operation the
exception class and str() of every equation of the sector, implementation against coq/Eqn/Ledger.v.
Oracle (implementation only): F.RHS() and INC.RHS() evaluated over exact rationals equal LAG_F + the
running signed sum of the registered flows / the sum of those registered as income and not excluded
at that time (sign and body of every flow read by the oracle itself); the definition rule is checked
from the history; every other variable is left alone.
"""
import json
import random
from fractions import Fraction

import common
from common import coq_string, coq_list, coq_bool, coq_option
import c12
from c12 import eval_frac, Undefined, read_sign, names_of, simple_body

PID = 'C06'
FAMILY = 'Eqn'
PROPFILE = 'PropC06.v'
LEVEL = 'proof'
REQUIRES = ['From SFC.Base Require Import Res.', 'From SFC.Eqn Require Import Lexer Term Equation Ledger CaseDefs.']

FLOWS = ['DEM_GOOD', 'WAGES', 'T', 'DIV', 'INTDEP', 'x', 'y', 'SUP_LAB', 'GOLDPURCHASES', 'LAG_F']
VARS = ['A', 'B', 'ALPHA', 'W', 'r']
PROTECTED = ('F', 'INC')


# ---------------------------------------------------------------- generation
def gen_flow_core(rng, pool):
    r = rng.random()
    if r < 0.7:
        return rng.choice(pool)
    if r < 0.9:
        return rng.choice(pool) + rng.choice(['*', '/']) + rng.choice(pool + VARS)
    return rng.choice(['2', '0.5', '1.5*x', 'HH__X', 'a__b'])


def gen_flow(rng, pool):
    r = rng.random()
    if r < 0.88:
        s = rng.choice(c12.FORMS) % gen_flow_core(rng, pool)
        return c12.sprinkle(rng, s) if rng.random() < 0.3 else s
    if r < 0.92:
        return rng.choice(['', ' ', '\t'])
    return c12.gen_term_string(rng, pool, p_bad=1.0)


def gen_defn(rng, pool):
    r = rng.random()
    if r < 0.6:
        return c12.gen_expr(rng, 1)
    if r < 0.8:
        return rng.choice(['', ' ', '0.0', '0.', '0', '1.0', 'F(k-1)'])
    return rng.choice(pool + VARS)


def gen_history(rng, in_scope=True):
    pool = rng.sample(FLOWS, rng.randint(2, 5))
    ops = []
    for _ in range(rng.choice([1, 2, 3, 5, 8, 12])):
        r = rng.random()
        if r < 0.55:
            e = None if rng.random() < 0.5 else gen_defn(rng, pool)
            ops.append(['flow', gen_flow(rng, pool), e, rng.random() < 0.75])
        elif r < 0.67:
            ops.append(['excl', rng.choice(pool) if rng.random() < 0.85 else gen_flow_core(rng, pool)])
        elif r < 0.72:
            ops.append(['excl_other', rng.choice(pool)])
        elif r < 0.84:
            n = rng.choice(pool + VARS) if rng.random() < 0.9 else rng.choice(['a__b', 'z=1', 'q # note', 'u = v # w', ' A'])
            ops.append(['addvar', n, rng.choice(['', 'desc']), gen_defn(rng, pool)])
        elif r < 0.92:
            ops.append(['setrhs', rng.choice(pool + VARS + ['LAG_F']), gen_defn(rng, pool)])
        else:
            ops.append(['addterm', rng.choice(pool + VARS + ['LAG_F', 'nope']), gen_flow(rng, pool)])
    if not in_scope:
        # user code that writes F / INC itself: outside the property, inside the model
        for _ in range(rng.randint(1, 2)):
            k = rng.random()
            pos = rng.randint(0, len(ops))
            if k < 0.3:
                ops.insert(pos, ['addvar', rng.choice(['F', 'INC', 'F = 3', 'INC # x']), '', gen_defn(rng, pool)])
            elif k < 0.5:
                ops.insert(pos, ['setrhs', rng.choice(PROTECTED), gen_defn(rng, pool)])
            elif k < 0.7:
                ops.insert(pos, ['addterm', rng.choice(PROTECTED), gen_flow(rng, pool)])
            else:
                ops.insert(pos, ['flow', rng.choice(['F', '-F', 'INC', '-INC', '(INC)']), gen_defn(rng, pool),
                                 rng.random() < 0.5])
    return {'ops': ops}


# ---------------------------------------------------------------- implementation driver
def view(sec):
    return [[n, str(sec.EquationBlock[n])] for n in sec.GetVariables()]


def rhs_view(sec):
    return {n: sec.EquationBlock[n].RHS() for n in sec.GetVariables()}


def run_history(h):
    from sfc_models.models import Model, Country
    from sfc_models.sector import Sector
    mod = Model()
    co = Country(mod, 'CO', 'Country')
    sec = Sector(co, 'HH', 'Household')
    other = Sector(co, 'OT', 'Other')
    trace, rhs = [], [rhs_view(sec)]
    for op in h['ops']:
        try:
            if op[0] == 'flow':
                if op[2] is None:
                    sec.AddCashFlow(op[1], is_income=op[3])
                else:
                    sec.AddCashFlow(op[1], op[2], is_income=op[3])
            elif op[0] == 'excl':
                mod.AddCashFlowIncomeExclusion(sec, op[1])
            elif op[0] == 'excl_other':
                mod.AddCashFlowIncomeExclusion(other, op[1])
            elif op[0] == 'addvar':
                sec.AddVariable(op[1], op[2], op[3])
            elif op[0] == 'setrhs':
                sec.SetEquationRightHandSide(op[1], op[2])
            elif op[0] == 'addterm':
                sec.AddTermToEquation(op[1], op[2])
            err = None
        except Exception as e:  # noqa
            err = common.exc_class(e)
        trace.append([err, view(sec)])
        rhs.append(rhs_view(sec))
    return {'trace': trace, 'rhs': rhs}


# ---------------------------------------------------------------- oracle
def key_of(varname):
    lhs = varname
    if '#' in lhs:
        lhs = lhs.split('#', 1)[0].strip()
    if '=' in lhs:
        lhs = lhs.split('=', 1)[0].strip()
    return lhs


def in_scope(h):
    """operations the property speaks about: nothing writes F / INC directly"""
    for op in h['ops']:
        if op[0] == 'addvar' and key_of(op[1]) in PROTECTED:
            return False
        if op[0] in ('setrhs', 'addterm') and op[1] in PROTECTED:
            return False
        if op[0] == 'flow' and op[2] is not None:
            try:
                body = read_sign(op[1])[1].replace(' ', '')
            except Exception:  # noqa
                body = ''
            if body in PROTECTED:
                return False
    return True


def same_expr(a, b, env_rng):
    """do two expression texts mean the same?  by value when Python can evaluate both, else by text"""
    names = sorted(set(names_of(a) + names_of(b)) - {'abs', 'max', 'min'})
    try:
        for _ in range(2):
            env = {nm: Fraction(env_rng.randint(1, 12) * env_rng.choice([-1, 1]), env_rng.randint(1, 7)) for nm in names}
            if eval_frac(a, env) != eval_frac(b, env):
                return False
        return True
    except Undefined:
        return a.replace(' ', '').strip() == b.replace(' ', '').strip()


def oracle(h, res):
    if not in_scope(h):
        return [], 'outside-property'
    rng = random.Random(json.dumps(h, sort_keys=True))
    fails = []
    flows = []          # (sign, body, counted as income)
    excluded = []
    names = {'LAG_F'}

    def fail(key, what):
        fails.append({'key': key, 'what': what, 'replay': {'kind': 'history', 'case': h}})

    for i, op in enumerate(h['ops']):
        before, after = res['rhs'][i], res['rhs'][i + 1]
        err = res['trace'][i][0]
        changed = {n for n in set(before) | set(after) if before.get(n) != after.get(n)}
        if op[0] == 'excl':
            excluded.append(op[1])
        if op[0] != 'flow':
            if changed & set(PROTECTED):
                fail('ledger:changed-without-registration', 'op %d %r changed %s' % (i, op, sorted(changed)))
                return fails, 'checked'
            continue
        term = op[1].strip()
        if term == '':
            if changed:
                fail('AddCashFlow:empty-term-changed-sector', 'op %d %r changed %s' % (i, op, sorted(changed)))
                return fails, 'checked'
            continue
        accepted = err is None or (after['F'] != before['F'])
        if not accepted:
            # a registration Term rejects leaves the sector as it was
            if changed:
                fail('AddCashFlow:rejected-but-changed', 'op %d %r raised %s and changed %s' % (i, op, err, sorted(changed)))
                return fails, 'checked'
            continue
        sign, body = read_sign(term)
        if not simple_body(body):
            return fails, 'out-of-domain'
        names.update(names_of(body))
        text = body.replace(' ', '')
        flows.append((sign, body, bool(op[3]) and text not in excluded))
        # ---- ledger values
        for _ in range(2):
            env = {nm: Fraction(rng.randint(1, 12) * rng.choice([-1, 1]), rng.randint(1, 7)) for nm in sorted(names)}
            try:
                exp_f = env['LAG_F'] + sum(s * eval_frac(b, env) for s, b, _ in flows)
                exp_i = sum((s * eval_frac(b, env) for s, b, inc in flows if inc), Fraction(0))
            except Undefined:
                return fails, 'out-of-domain'
            for var, exp in (('F', exp_f), ('INC', exp_i)):
                try:
                    got = eval_frac(after[var], env)
                    bad = None if got == exp else 'evaluates to %s, expected %s' % (got, exp)
                except Undefined as e:
                    bad = 'is not a valid expression (%s)' % e
                if bad:
                    fail('AddCashFlow:%s-value' % var,
                         'after ops %r the %s equation %r %s (flows so far %r, exclusions %r)' % (
                             h['ops'][:i + 1], var, after[var], bad, [(s, b, inc) for s, b, inc in flows], excluded))
                    return fails, 'checked'
        # ---- definition rule and frame
        others = changed - set(PROTECTED) - {text}
        if others:
            fail('AddCashFlow:other-variable-changed', 'op %d %r changed %s' % (i, op, sorted(others)))
            return fails, 'checked'
        if text in PROTECTED:
            continue
        if op[2] is None:
            if text in changed:
                fail('AddCashFlow:defined-without-expression', 'op %d %r changed variable %s' % (i, op, text))
                return fails, 'checked'
            continue
        was = before.get(text)
        now = after.get(text)
        if was is None or was in ('', '0.0'):
            if now is None:
                if err is None:
                    fail('AddCashFlow:not-defined', 'op %d %r: %s was %r and is still undefined' % (i, op, text, was))
                    return fails, 'checked'
            elif not same_expr(now, op[2], rng) and not (op[2].strip() == '' and now in ('', '0.0')):
                fail('AddCashFlow:wrong-definition', 'op %d %r: %s was %r and is now %r, not the expression given' % (
                    i, op, text, was, now))
                return fails, 'checked'
        elif now != was:
            fail('AddCashFlow:overwrote-definition', 'op %d %r: %s was %r and became %r' % (i, op, text, was, now))
            return fails, 'checked'
    return fails, 'checked'


# ---------------------------------------------------------------- Coq emission
def emit_op(op):
    if op[0] == 'flow':
        return '(OAddCashFlow %s %s %s)' % (coq_string(op[1]), coq_option(None if op[2] is None else coq_string(op[2])),
                                            coq_bool(op[3]))
    if op[0] == 'excl':
        return '(OAddExclusion %s)' % coq_string(op[1])
    if op[0] == 'excl_other':
        return '(OAddExclusionOther %s)' % coq_string(op[1])
    if op[0] == 'addvar':
        return '(OAddVariable %s %s %s)' % (coq_string(op[1]), coq_string(op[2]), coq_string(op[3]))
    if op[0] == 'setrhs':
        return '(OSetRHS %s %s)' % (coq_string(op[1]), coq_string(op[2]))
    return '(OAddTermToEq %s %s)' % (coq_string(op[1]), coq_string(op[2]))


def emit(h, res):
    exp = coq_list(['(%s, %s)' % ('None' if e is None else 'Some ' + e,
                                  coq_list(['(%s, %s)' % (coq_string(n), coq_string(s)) for n, s in v]))
                    for e, v in res['trace']])
    return 'c06_case %s %s' % (coq_list([emit_op(o) for o in h['ops']]), exp)


# ---------------------------------------------------------------- entry points
FIXED = [
    {'ops': [['flow', '+DEM_GOOD', None, True], ['flow', '-DEM_GOOD', None, True], ['flow', 'WAGES', 'A*B', True],
             ['excl', 'T'], ['flow', '-T', '0.2*INC', True], ['flow', '-(T)', None, True], ['flow', 'T', 'other', False]]},
    {'ops': [['addvar', 'DIV', '', ''], ['flow', '+DIV', 'PROF', True], ['flow', 'DIV', 'again', True],
             ['addvar', 'Z', '', '0.'], ['flow', 'Z', 'never', True], ['addvar', 'Y', '', '0.0'], ['flow', '-Y', 'yes', False]]},
    {'ops': [['flow', 'a__b', 'x', True], ['flow', '(-a__b)', None, True], ['flow', 'a+b', 'x', True], ['flow', '', 'x', True]]},
]


def corpus_cases():
    import glob
    import os
    out = []
    for p in sorted(glob.glob(os.path.join(common.VERIF, 'corpus', PID, '*.json'))):
        out.append(json.load(open(p))['replay']['case'])
    return out


def run(ctx):
    out = common.Outcome()
    out.proof = common.proof_status(FAMILY, PROPFILE)
    rng = ctx.rng
    n = ctx.scale(2000, 20000)
    hs = list(FIXED) + corpus_cases()
    hs += [gen_history(rng, in_scope=(rng.random() < 0.9)) for _ in range(n)]
    cases, seen, stats = [], set(), {}
    n_ops = 0
    for h in hs:
        res = run_history(h)
        fails, status = oracle(h, res)
        out.failures.extend(fails)
        cases.append(emit(h, res))
        stats[status] = stats.get(status, 0) + 1
        n_ops += len(h['ops'])
        flows_ok = sum(1 for op, tr in zip(h['ops'], res['trace']) if op[0] == 'flow' and tr[0] is None and op[1].strip())
        if status == 'checked' and flows_ok >= 2:
            seen.add(json.dumps(h, sort_keys=True))
    stats['operations'] = n_ops
    bad, errs = common.run_bool_cases(FAMILY, REQUIRES, cases, tag=PID, shard=150)
    out.corr_errors = errs
    for i in bad[:20]:
        out.disagreements.append({'input': hs[i], 'case': cases[i][:700]})
    out.evaluations = len(cases)
    out.nontrivial = len(seen)
    out.rule = ('random histories of 1-12 operations on a fresh has_F Sector in a one-country Model: AddCashFlow (all '
                'sign/bracket spellings of names and products over a pool of 2-5 flow names so that flows repeat and '
                'cancel, with/without a defining expression from the arithmetic grammar or an empty/zero one, income '
                'flag; empty, malformed and "__" terms), income exclusions for this and for another sector (before and '
                'after the flows they name), AddVariable / SetEquationRightHandSide / AddTermToEquation on other '
                'variables; 10% of the histories also write F / INC directly (correspondence only, outside the '
                'property). non-trivial = in-scope history with >= 2 accepted registrations; distinct by full input')
    out.samples = [hs[0], hs[len(hs) // 2], hs[-1]]
    out.extra = {'input_distribution': stats, 'source_hashes': common.source_hashes(
        ['sfc_models/sector.py', 'sfc_models/models.py', 'sfc_models/equation.py'])}
    out.trusted_base = ['Coq 8.16.1 kernel + vm_compute',
                        'hand-written model coq/Eqn/Ledger.v over Lexer.v, Term.v, Equation.v (tied by this correspondence)',
                        'Reals axioms of the standard library (ClassicalDedekindReals.sig_forall_dec, FunctionalExtensionality.functional_extensionality_dep) '
                        'as printed by Print Assumptions',
                        "Python's own ast/eval as the meaning of rendered right-hand sides (oracle)"]
    out.assumptions = ['income exclusions are those in force when the flow is registered (DESIGN.md section 5)',
                       '"identically zero" means the equation renders "" or "0.0" (a user constant spelled 0. is a definition)',
                       'operations that write F / INC directly (AddVariable, SetEquationRightHandSide, AddTermToEquation on '
                       'them, or a flow named F/INC that carries a definition) are outside the property',
                       'one sector; exclusion pairs of other sectors are operations without effect on this one']
    return out


def replay(path):
    obj = json.load(open(path))
    r = obj.get('replay') or {}
    if r.get('kind') != 'history':
        print('replay names a proof/correspondence obligation, nothing to execute:', json.dumps(obj)[:500])
        return 1
    res = run_history(r['case'])
    fails, status = oracle(r['case'], res)
    for f in fails:
        print('FAILS:', f['key'], f['what'][:400])
    print('replay: %s (%s)' % ('property violated' if fails else 'property holds on this input', status))
    return common.replay_status(PID, fails)
