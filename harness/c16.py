"""C16 — reading results never changes them.

Proof: coq/Out/PropC16.v (frame / value / repeatability theorems about the heap model of
Model.GetTimeSeries and BaseSolver.CreateCsvString).
Correspondence: random retrieval histories (with caller-side mutation of returned lists) run on the
implementation and on the model; outputs and final store contents must agree.
Oracle (failing-input search): on the implementation alone, the stored series before and after the
history must be identical and every retrieval must return the documented slice of the *initial*
contents; rendering twice must give the same text.
"""
import copy
import json

import common
from common import coq_string, coq_list, coq_Z, coq_option, coq_nat, coq_bool

PID = 'C16'
FAMILY = 'Out'
PROPFILE = 'PropC16.v'
LEVEL = 'proof'
REQUIRES = ['From SFC.Base Require Import Res.', 'From SFC.Out Require Import Series Csv CaseDefs.']
NAMES = ['x', 'y', 't', 'k', 'HH__F', 'iteration', 'zz']
GROUPS = ['main', 'main', 'main', 'step', 'initial', 'other']


# ---------------------------------------------------------------- generation
def gen_history(rng):
    holders = {}
    for g in ('main', 'step', 'initial'):
        n = rng.choice([0, 1, 2, 3, 4]) if g != 'main' else rng.choice([1, 2, 3, 4])
        names = rng.sample(NAMES, n)
        holders[g] = [(nm, [rng.randint(-5, 50) for _ in range(rng.choice([0, 1, 2, 3, 5, 6]))]) for nm in names]
    cutoff0 = rng.choice([None, None, 0, 1, 2, 4])
    suppress = rng.random() < 0.4
    ops = []
    for _ in range(rng.randint(1, 12)):
        r = rng.random()
        if r < 0.5:
            g = rng.choice(GROUPS)
            pool = [nm for nm, _ in holders.get(g if g in holders else 'main', [])] or NAMES
            name = rng.choice(pool) if rng.random() < 0.9 else rng.choice(NAMES)
            ops.append(['get', g, name, rng.choice([None, None, None, 0, 1, 2, 3, 7])])
        elif r < 0.8:
            m = rng.choice(['append', 'pop0', 'clear', 'set'])
            if m == 'append':
                ops.append(['mutate', 'append', rng.randint(90, 99)])
            elif m == 'set':
                ops.append(['mutate', 'set', rng.randint(0, 3), rng.randint(90, 99)])
            else:
                ops.append(['mutate', m])
        elif r < 0.83:
            # ask for the ordered name list and edit the returned list (it must be the caller's own copy)
            ops.append(['serieslist', rng.choice(['reverse', 'sort_desc', 'overwrite'])])
        elif r < 0.86:
            # render the stored results (solver-level entry point), default or explicit format
            ops.append(['csv', rng.choice([None, None, '%d', '%.3f', '%10.4e'])])
        elif r < 0.93:
            ops.append(['suppress', rng.random() < 0.5])
        else:
            ops.append(['cutoff', rng.choice([None, 0, 1, 3])])
    return {'holders': holders, 'cutoff0': cutoff0, 'suppress': suppress, 'ops': ops}


def gen_csv_case(rng):
    n = rng.randint(0, 5)
    names = rng.sample(['x', 't', 'y', 'k', 'a_b', 'Z'], n)
    if names and rng.random() < 0.15:
        names.append(rng.choice(names))
    base = rng.randint(0, 4)
    attrs = {}
    for nm in set(names):
        ln = base if rng.random() < 0.8 else rng.randint(0, 5)
        attrs[nm] = [rng.choice([rng.randint(-9, 99), round(rng.uniform(-5, 5), 3)]) for _ in range(ln)]
    return {'vl': names, 'attrs': attrs}


# ---------------------------------------------------------------- implementation drivers
def build_model(h):
    from sfc_models.models import Model
    from sfc_models.utils import TimeSeriesHolder
    mod = Model()
    for g, attr in (('main', 'TimeSeries'), ('step', 'TimeSeriesStepTrace'), ('initial', 'TimeSeriesInitialSteadyState')):
        holder = TimeSeriesHolder('k')
        for nm, vals in h['holders'][g]:
            holder[nm] = list(vals)
        setattr(mod.EquationSolver, attr, holder)
    mod.TimeSeriesCutoff = h['cutoff0']
    mod.TimeSeriesSupressTimeZero = h['suppress']
    return mod


def snapshot(mod):
    es = mod.EquationSolver
    return {g: [(k, list(v)) for k, v in getattr(es, a).items()]
            for g, a in (('main', 'TimeSeries'), ('step', 'TimeSeriesStepTrace'), ('initial', 'TimeSeriesInitialSteadyState'))}


def run_impl(h):
    mod = build_model(h)
    before = snapshot(mod)
    outs = []
    last = None
    csv_texts = [mod.EquationSolver.GenerateCSVtext('%d')]
    rendered = {}
    for op in h['ops']:
        if op[0] == 'get':
            try:
                v = mod.GetTimeSeries(op[2], cutoff=op[3], group_of_series=op[1])
                last = v
                outs.append(['ok', list(v)])
            except Exception as e:  # noqa
                outs.append(['err', common.exc_class(e)])
        elif op[0] == 'mutate':
            if last is not None:
                if op[1] == 'append':
                    last.append(op[2])
                elif op[1] == 'pop0':
                    if last:
                        last.pop(0)
                elif op[1] == 'clear':
                    del last[:]
                elif op[1] == 'set':
                    if op[2] < len(last):
                        last[op[2]] = op[3]
            outs.append(None)
        elif op[0] == 'suppress':
            mod.TimeSeriesSupressTimeZero = op[1]
            outs.append(None)
        elif op[0] == 'cutoff':
            mod.TimeSeriesCutoff = op[1]
            outs.append(None)
        elif op[0] == 'serieslist':
            lst = mod.EquationSolver.TimeSeries.GetSeriesList()
            if op[1] == 'reverse':
                lst.reverse()
            elif op[1] == 'sort_desc':
                lst.sort(reverse=True)
            elif lst:
                lst[0] = 'zzz_not_a_series'
            outs.append(None)
        elif op[0] == 'csv':
            try:
                t = mod.EquationSolver.GenerateCSVtext() if op[1] is None else mod.EquationSolver.GenerateCSVtext(op[1])
            except Exception as e:  # noqa  -- rendering must not depend on what callers did with returned lists
                t = 'RAISED ' + common.exc_class(e)
            rendered.setdefault(op[1], []).append(t)
            outs.append(None)
    try:
        csv_texts.append(mod.EquationSolver.GenerateCSVtext('%d'))
    except Exception as e:  # noqa
        csv_texts.append('RAISED ' + common.exc_class(e))
    return {'outs': outs, 'before': before, 'after': snapshot(mod), 'csv': csv_texts,
            'rendered': [[k, v] for k, v in rendered.items()]}


def run_impl_csv(c):
    from sfc_models.base_solver import BaseSolver
    vl = list(c['vl'])
    obj = BaseSolver(vl)
    for k, v in c['attrs'].items():
        setattr(obj, k, list(v))

    def call():
        try:
            return ['ok', obj.CreateCsvString()]
        except Exception as e:  # noqa
            return ['err', common.exc_class(e)]
    t1 = call()
    after = list(obj.VariableList)
    t2 = call()
    return {'t1': t1, 'after': after, 't2': t2, 'same_object': obj.VariableList is vl}


# ---------------------------------------------------------------- oracle (implementation only)
def expected_value(series, cutoff, suppress):
    v = list(series) if cutoff is None else list(series[0:cutoff + 1])
    if suppress:
        if not v:
            return ['err', 'IndexError']
        v = v[1:]
    return ['ok', v]


def oracle(h, res):
    fails = []
    if res['before'] != res['after']:
        fails.append({'key': 'GetTimeSeries:store-changed',
                      'what': 'stored series differ after a history of retrievals: before=%r after=%r ops=%r' % (
                          res['before'], res['after'], h['ops']),
                      'replay': {'kind': 'history', 'history': h}})
    if res['csv'][0] != res['csv'][1]:
        fails.append({'key': 'GenerateCSVtext:not-repeatable',
                      'what': 'GenerateCSVtext differs before/after the history', 'replay': {'kind': 'history', 'history': h}})
    for fmt, texts in res.get('rendered', []):
        ref = None
        from sfc_models.utils import TimeSeriesHolder
        if any(t != texts[0] for t in texts):
            fails.append({'key': 'GenerateCSVtext:not-repeatable',
                          'what': 'GenerateCSVtext(%r) gave different texts at different points of a history over the same stored series' % (fmt,),
                          'replay': {'kind': 'history', 'history': h}})
        # and the text is the one the requested (or default) format gives on the stored series
        holder = TimeSeriesHolder('k')
        for nm, vals in h['holders']['main']:
            holder[nm] = list(vals)
        want = '%.5g' if fmt is None else fmt
        if texts[0].startswith('RAISED '):
            continue
        rows = texts[0].split('\n')[1:-1]
        names = texts[0].split('\n')[0].split('\t') if texts[0] else []
        n = min([len(v) for _, v in h['holders']['main']] or [0])
        exp_rows = ['\t'.join(want % (dict(h['holders']['main'])[nm][i],) for nm in names) for i in range(n)]
        if texts[0] and rows != exp_rows:
            fails.append({'key': 'GenerateCSVtext:wrong-format', 'what': 'GenerateCSVtext(%r) rows %r, expected %r' % (fmt, rows[:2], exp_rows[:2]),
                          'replay': {'kind': 'history', 'history': h}})
    cutoff0, suppress = h['cutoff0'], h['suppress']
    init = {g: dict(v) for g, v in h['holders'].items()}
    for op, out in zip(h['ops'], res['outs']):
        if op[0] == 'suppress':
            suppress = op[1]
        elif op[0] == 'cutoff':
            cutoff0 = op[1]
        elif op[0] == 'get':
            g = op[1] if op[1] in ('step', 'initial') else 'main'
            if op[2] not in init[g]:
                exp = ['err', 'KeyError']
            else:
                c = op[3] if op[3] is not None else cutoff0
                exp = expected_value(init[g][op[2]], c, suppress)
            if out != exp:
                fails.append({'key': 'GetTimeSeries:wrong-value',
                              'what': 'retrieval %r returned %r, the stored (initial) series give %r' % (op, out, exp),
                              'replay': {'kind': 'history', 'history': h}})
                break
    return fails


def oracle_csv(c, res):
    fails = []
    if res['after'] != c['vl']:
        fails.append({'key': 'CreateCsvString:varlist-changed',
                      'what': 'VariableList %r became %r after CreateCsvString' % (c['vl'], res['after']),
                      'replay': {'kind': 'csv', 'case': c}})
    elif res['t1'] != res['t2']:
        fails.append({'key': 'CreateCsvString:not-repeatable', 'what': 'two calls gave %r then %r' % (res['t1'], res['t2']),
                      'replay': {'kind': 'csv', 'case': c}})
    return fails


# ---------------------------------------------------------------- Coq emission
def zl(vs):
    return coq_list([coq_Z(v) for v in vs])


def emit_history(h, res):
    heap, holders = [], {}
    for g in ('main', 'step', 'initial'):
        lst = []
        for nm, vals in h['holders'][g]:
            lst.append('(%s, %s)' % (coq_string(nm), coq_nat(len(heap))))
            heap.append(zl(vals))
        holders[g] = coq_list(lst)
    st0 = '(mkState %s %s %s %s %s %s None)' % (
        coq_list(heap), holders['main'], holders['step'], holders['initial'],
        coq_option(None if h['cutoff0'] is None else coq_nat(h['cutoff0'])), coq_bool(h['suppress']))
    ops = []
    for op in h['ops']:
        if op[0] in ('csv', 'serieslist'):
            continue
        if op[0] == 'get':
            ops.append('Get %s %s %s' % (coq_string(op[1]), coq_string(op[2]),
                                         coq_option(None if op[3] is None else coq_nat(op[3]))))
        elif op[0] == 'mutate':
            if op[1] == 'append':
                ops.append('MutateLast (MAppend %s)' % coq_Z(op[2]))
            elif op[1] == 'pop0':
                ops.append('MutateLast MPop0')
            elif op[1] == 'clear':
                ops.append('MutateLast MClear')
            else:
                ops.append('MutateLast (MSet %s %s)' % (coq_nat(op[2]), coq_Z(op[3])))
        elif op[0] == 'suppress':
            ops.append('SetSuppress %s' % coq_bool(op[1]))
        else:
            ops.append('SetCutoff %s' % coq_option(None if op[1] is None else coq_nat(op[1])))
    outs = []
    for op_, o in zip(h['ops'], res['outs']):
        if op_[0] in ('csv', 'serieslist'):
            continue
        if o is None:
            outs.append('None')
        elif o[0] == 'ok':
            outs.append('Some (Ok %s)' % zl(o[1]))
        else:
            outs.append('Some (Err %s)' % o[1])

    def view(g):
        return coq_list(['(%s, %s)' % (coq_string(k), zl(v)) for k, v in res['after'][g]])
    return 'c16_case %s %s %s %s %s %s' % (st0, coq_list(ops), coq_list(outs), view('main'), view('step'), view('initial'))


def emit_csv(c, res):
    attrs = coq_list(['(%s, %s)' % (coq_string(k), coq_list([coq_string(str(x)) for x in v]))
                      for k, v in c['attrs'].items()])

    def r(t):
        return 'Ok %s' % coq_string(t[1]) if t[0] == 'ok' else 'Err %s' % t[1]
    return 'c16_csv_case %s %s (%s) %s (%s)' % (coq_list([coq_string(x) for x in c['vl']]), attrs, r(res['t1']),
                                                coq_list([coq_string(x) for x in res['after']]), r(res['t2']))


# ---------------------------------------------------------------- entry points
def corpus_cases():
    import glob
    import os
    out = []
    for p in sorted(glob.glob(os.path.join(common.VERIF, 'corpus', PID, '*.json'))):
        out.append(json.load(open(p))['replay'])
    return out


def run(ctx):
    out = common.Outcome()
    out.proof = common.proof_status(FAMILY, PROPFILE)
    n_hist = ctx.scale(400, 6000)
    n_csv = ctx.scale(150, 2000)
    cases, metas, seen = [], [], set()
    stats = {'get': 0, 'mutate': 0, 'errors': 0, 'suppressed_runs': 0}
    items = [r for r in corpus_cases()]
    items += [{'kind': 'history', 'history': gen_history(ctx.rng)} for _ in range(n_hist)]
    items += [{'kind': 'csv', 'case': gen_csv_case(ctx.rng)} for _ in range(n_csv)]
    for it in items:
        if it['kind'] == 'history':
            h = it['history']
            res = run_impl(copy.deepcopy(h))
            out.failures.extend(oracle(h, res))
            cases.append(emit_history(h, res))
            stats['get'] += sum(1 for o in h['ops'] if o[0] == 'get')
            stats['mutate'] += sum(1 for o in h['ops'] if o[0] == 'mutate')
            stats['errors'] += sum(1 for o in res['outs'] if o and o[0] == 'err')
            stats['suppressed_runs'] += 1 if h['suppress'] else 0
            nontrivial = any(o[0] == 'get' for o in h['ops']) and any(o[0] == 'mutate' for o in h['ops'])
        else:
            c = it['case']
            res = run_impl_csv(copy.deepcopy(c))
            out.failures.extend(oracle_csv(c, res))
            cases.append(emit_csv(c, res))
            nontrivial = len(c['vl']) > 1
        metas.append(it)
        key = json.dumps(it, sort_keys=True)
        if nontrivial and key not in seen:
            seen.add(key)
    bad, errs = common.run_bool_cases(FAMILY, REQUIRES, cases, tag=PID)
    out.corr_errors = errs
    for i in bad[:20]:
        out.disagreements.append({'input': metas[i], 'case': cases[i][:600]})
    out.evaluations = len(cases)
    out.nontrivial = len(seen)
    out.rule = ('random retrieval histories on Model.GetTimeSeries over three hand-filled holders (1-12 ops: get with '
                'group/name/cutoff, mutation of the last returned list, suppression and default-cutoff changes) plus '
                'BaseSolver.CreateCsvString called twice on random variable lists; non-trivial = history has both a '
                'retrieval and a caller-side mutation (or a variable list of >1 names); distinct by full input')
    out.samples = [metas[0], metas[len(metas) // 2], metas[-1]]
    out.extra = {'input_distribution': stats, 'source_hashes': common.source_hashes(
        ['sfc_models/models.py', 'sfc_models/base_solver.py', 'sfc_models/utils.py'])}
    out.trusted_base = ['Coq 8.16.1 kernel + vm_compute', 'hand-written model coq/Out/Series.v, Csv.v (tied by this '
                        'correspondence)', 'Python list/dict semantics as rendered by harness/c16.py',
                        'no axioms (Print Assumptions: closed under the global context)']
    out.assumptions = ['values are Python ints in the generated histories (the model is parametric in the value type)',
                       'cutoff arguments are non-negative', "Python's str() of cells is trusted (CreateCsvString)"]
    return out


def replay(path):
    obj = json.load(open(path))
    r = obj.get('replay') or {}
    if r.get('kind') == 'history':
        res = run_impl(copy.deepcopy(r['history']))
        fails = oracle(r['history'], res)
    elif r.get('kind') == 'csv':
        res = run_impl_csv(copy.deepcopy(r['case']))
        fails = oracle_csv(r['case'], res)
    else:
        print('replay names a proof/correspondence obligation, nothing to execute:', json.dumps(obj)[:500])
        return 1
    for f in fails:
        print('FAILS:', f['key'], f['what'][:300])
    print('replay: %s' % ('property violated' if fails else 'property holds on this input'))
    return common.replay_status(PID, fails)
