"""GenPlumb: the semantic side conditions `sem_ok2` / `sem_ok2_multi` (coq/GenPlumb/Split2.v, Multi.v) of the program-level
C01 / C07 theorems, evaluated on generated programs.

The plumbing conjuncts of `no_conflict2` are theorems now (`Main2_plumbing_holds`: for every program), so nothing about them
is evaluated here; what remains a hypothesis of `Main2_stock_flow_consistent_sem / _multi` and `Main2_fx_valued_zero_sem /
_multi` is the semantic half, and this module reports on how many generated programs it holds:

  * `ProgGen(rng).any()` (all four shapes) and, for multi-zone shapes, gen_clear2's `two_foreign` variant (a goods market
    supplied from two other currency zones: outside `sem_ok2`, inside `sem_ok2_multi`);
  * rendered with gen_main2.render_program2 (imported, not copied);
  * Coq: `is_ok (build2 p)`, `sem_ok2 p`, `sem_ok2_multi p` under vm_compute; on the two_foreign variants additionally
    `negb (sem_ok2 p) && sem_ok2_multi p` (a mismatch is recorded in out.disagreements: the variant is built to be exactly
    the case the extension covers).

    PROOFS = [('GenPlumb', 'PropPlumb.v')]           (C01 / C04 / C07)
    PROOFS_ORDER = [('GenPlumb', 'PropPlumbOrder.v')]  (C08: nothing to evaluate, theorems only)
    extra(ctx, out, quick_n=36, thorough_n=500)   appends to out.*, distribution in out.extra['plumb_model']
    replay(obj)                                   nothing to replay (no implementation-side oracle of its own): 0
"""
import copy
import json

import common
import gen_common
import gen_main2
import gen_clear2
from gen_main import OutOfLanguage

PROOFS = [('GenPlumb', 'PropPlumb.v')]                 # C01 / C04 / C07 obligations
PROOFS_ORDER = [('GenPlumb', 'PropPlumbOrder.v')]       # C08 obligations (order_ok / order_ok2: structural parts, permutation invariance)
FAMILY = 'GenPlumb'
REQUIRES = ['From SFC.Base Require Import Res Str.', 'From SFC.Gen Require Import Fx Zone.',
            'From SFC.GenMain2 Require Import Program Classes Main Program2 Main2 Conflict Conflict2.',
            'From SFC.GenPlumb Require Import Split2 Multi.']

TRUSTED = [
    'coq/GenPlumb is about the hand-written pipeline models coq/GenMain2/Main.v / Main2.v (tied to the code by the '
    'whole-program correspondence of harness/gen_main2.py); it adds no model of its own',
]
ASSUMPTIONS = [
    'program-level C01 / C07 (and single-currency C04) theorems hold under the SEMANTIC side conditions sem_ok / sem_ok2 / '
    'sem_ok2_multi only (no user step overwrote or made exogenous a definition a booking group installed, suppliers '
    'registered once, names without "__", FX operations between real currencies, NET_<c> of EXT_FX not written by the user, '
    'a country besides EXT); the recomputation (plumbing) conjuncts of no_conflict / no_conflict2 are proved for every '
    'program (Main_plumbing_holds, Main2_plumbing_holds); markets supplied from two or more other currency zones are '
    'covered by Main2_stock_flow_consistent_multi / Main2_fx_valued_zero_multi',
]


def two_foreign(rng, prog, tries=12):
    """gen_clear2's `two_foreign` variant of a program (a goods market supplied from two other currency zones), or None."""
    for _ in range(tries):
        v = gen_clear2.variant(rng, prog)
        if v is not None and v[1] == 'two_foreign':
            return v[0]
    return None


def gen_programs(ctx, n):
    pg = gen_common.ProgGen(ctx.rng)
    out = []
    for _ in range(n):
        prog = pg.any()
        out.append((prog, prog.get('shape') or 'any'))
        if prog.get('shape') in ('multizone', 'gold') and ctx.rng.random() < 0.7:
            v = two_foreign(ctx.rng, prog)
            if v is not None:
                out.append((v, 'two_foreign'))
    # programs with three or more currency zones are rare: draw extra multi-zone programs for the two_foreign variant
    want = max(3, n // 8)
    for _ in range(8 * want):
        if want <= 0:
            break
        v = two_foreign(ctx.rng, pg.multizone(gold=ctx.rng.random() < 0.2), tries=6)
        if v is not None:
            out.append((v, 'two_foreign'))
            want -= 1
    return out


def render(prog):
    try:
        names = gen_main2.final_names2(prog)
    except Exception:
        names = gen_main2.static_names2(prog)
    return gen_main2.render_program2(prog, names)


def extra(ctx, out, quick_n=36, thorough_n=500):
    n = ctx.scale(quick_n, thorough_n)
    progs, metas, labels = [], [], []
    dist = {'programs': 0, 'shapes': {}, 'out_of_language': 0}
    for prog, label in gen_programs(ctx, n):
        try:
            coq_prog = render(prog)
        except (OutOfLanguage, KeyError):
            dist['out_of_language'] += 1
            continue
        progs.append(coq_prog)
        metas.append(gen_common.strip_prog(prog) if 'infos' in prog else prog)
        labels.append(label)
        dist['programs'] += 1
        dist['shapes'][label] = dist['shapes'].get(label, 0) + 1

    def run(fmt, tag, idx=None):
        idx = list(range(len(progs))) if idx is None else idx
        cases = [fmt % progs[i] for i in idx]
        bad, errs = common.run_bool_cases(FAMILY, REQUIRES, cases, tag=tag + ctx.pid, shard=8)
        out.corr_errors.extend(errs)
        return set(idx[i] for i in bad), cases

    # tie to the code: the same programs (two_foreign variants included) through the whole-program correspondence of
    # gen_main2 (implementation's final system or error class vs build2)
    import gen_main
    corr = [gen_main2.emit_case(progs[i], gen_main.run_impl(metas[i])) for i in range(len(progs))]
    cbad, cerrs = common.run_bool_cases(gen_main2.FAMILY, gen_main2.REQUIRES, corr, tag='plumbC' + ctx.pid, shard=8)
    out.corr_errors.extend(cerrs)
    for i in cbad[:5]:
        out.disagreements.append({'main2_program': metas[i], 'coq': corr[i][:3000]})
    if not progs:
        out.corr_errors.append('gen_plumb: no program was generated (nothing evaluated)')
    not_built, _ = run('is_ok (build2 %s)', 'plumbB')
    built = [i for i in range(len(progs)) if i not in not_built]
    sem_false, _ = run('sem_ok2 %s', 'plumbS', built)
    multi_false, _ = run('sem_ok2_multi %s', 'plumbM', built)
    tf = [i for i in built if labels[i] == 'two_foreign']
    tf_bad = set()
    if tf:
        cases = ['negb (sem_ok2 %s) && sem_ok2_multi %s' % (progs[i], progs[i]) for i in tf]
        bad, errs = common.run_bool_cases(FAMILY, REQUIRES, cases, tag='plumbT' + ctx.pid, shard=8)
        out.corr_errors.extend(errs)
        tf_bad = set(tf[i] for i in bad)
        for i in sorted(tf_bad)[:5]:
            out.disagreements.append({'plumb_program': metas[i], 'coq': cases[tf.index(i)][:3000],
                                      'what': 'two_foreign variant: expected sem_ok2 = false and sem_ok2_multi = true'})
    by_label = {}
    for i in built:
        d = by_label.setdefault(labels[i], {'built': 0, 'sem_ok2': 0, 'sem_ok2_multi': 0})
        d['built'] += 1
        d['sem_ok2'] += i not in sem_false
        d['sem_ok2_multi'] += i not in multi_false
    dist.update({
        'built': len(built), 'model_errors': len(not_built),
        'sem_ok2_true': len(built) - len(sem_false),
        'sem_ok2_multi_true': len(built) - len(multi_false),
        'two_foreign_evaluated': len(tf), 'two_foreign_as_expected': len(tf) - len(tf_bad),
        'by_shape': by_label,
        'sem_ok2_multi_false_samples': [metas[i] for i in sorted(multi_false)[:2]],
    })
    out.evaluations += 2 * len(built) + len(progs) + len(tf)
    out.nontrivial += len(set(progs[i] for i in built))
    out.extra['plumb_model'] = dist
    out.trusted_base = list(out.trusted_base or []) + TRUSTED
    out.assumptions = list(out.assumptions or []) + ASSUMPTIONS
    if metas:
        out.samples.append({'plumb_program': metas[0]})
    return out


def show_model(prog):
    p = render(prog)
    return common.coq_show(FAMILY, REQUIRES, '(is_ok (build2 %s), sem_ok2 %s, sem_ok2_multi %s, plumbing2 %s)' % (p, p, p, p))


def replay(obj):
    """No implementation-side oracle of its own: the side conditions are facts about the model's run."""
    return 0
