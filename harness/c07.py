"""C07 — cross-currency flows conserve value at the prevailing exchange rates.

Proof: coq/Gen/PropC07.v — (a) theorems over ALL send/receive sequences of the model of
ForexTransations (coq/Gen/Fx.v); (b) soundness of the emitted-system certificate.
Correspondence (a): random sequences of ExternalSector._SendMoney/_ReceiveMoney on real sector objects
in 2-4 currency zones; the term lists the implementation accumulates in NET_<currency> must equal the
model's ledger.
Validation (b): multi-currency programs (registered cross-zone flows, cross-zone suppliers, gold
purchases, time-varying non-unit rates): the emitted equations must imply
   sum_c NET_c * XR_c = 0  (numeraire included),  NET_NUMERAIRE = 0 when there are no gold purchases,
   every cross-rate variable A_B * XR_B = XR_A.
Oracle: the same on the solved series; cross-currency flows and suppliers without an ExternalSector
must be refused with LogicError.
"""
import json

import common
import gen_common as G
import gen_checks as GC
import gen_main2
import gen_plumb
import gen_witness
from common import coq_string, coq_list, coq_Z

PID = 'C07'
FAMILY = 'Gen'
PROPFILE = 'PropC07.v'
LEVEL = 'proof'


def V(n):
    return ('var', n)


def make_targets(a, prog):
    mod = a['mod']
    ext = mod.ExternalSector
    if ext is None:
        return []
    names = set(a['names'])
    fx, xr = ext['FX'], ext['XR']
    terms = []
    for v in fx.EquationBlock.GetEquationList():
        if v.startswith('NET_'):
            cur = v[4:]
            terms.append(('add', None, None))
            terms[-1] = (1, ('mul', V(fx.GetVariableName(v)), V(xr.GetVariableName(cur))))
    out = [('valued-zero', G.sum_ast(terms))]
    # the receiver of a cross-currency flow is credited amount * (sender rate / receiver rate): together with
    # valued-zero this is what the per-zone balances say (a 1:1 credit breaks the receiving zone's balance)
    import c01
    out.extend(c01.make_targets(a, prog))
    has_gold = any(n.endswith('__GOLDPURCHASES') for n in names)
    if not has_gold:
        out.append(('numeraire-zero', V(fx.GetVariableName('NET_' + ext.Currency))))
    # gold purchases conserve value: the ounces credited, valued at the gold price, equal the payment valued at the
    # buyer's exchange rate
    for s in mod.GetSectors():
        if 'GOLDPURCHASES' in s.EquationBlock and 'GOLD_OZ' in s.EquationBlock:
            cur = s.CurrencyZone.Currency
            oz = ('sub', V(s.GetVariableName('GOLD_OZ')), V(s.GetVariableName('LAG_GOLD_OZ')))
            out.append(('gold-value|%s' % s.FullCode,
                        ('sub', ('mul', oz, V(ext['GOLD'].GetVariableName('PRICE'))),
                         ('mul', V(s.GetVariableName('GOLDPURCHASES')), V(xr.GetVariableName(cur))))))
    for v in xr.EquationBlock.GetEquationList():
        if '_' in v:
            a_, b_ = v.split('_', 1)
            if a_ in xr.EquationBlock and b_ in xr.EquationBlock:
                out.append(('cross-rate|%s' % v, ('sub', ('mul', V(xr.GetVariableName(v)), V(xr.GetVariableName(b_))),
                                                   V(xr.GetVariableName(a_)))))
    return out


# ------------------------------------------------------------------ (a) FX bookkeeping correspondence
def gen_fx_case(rng):
    curs = rng.sample(['CAD', 'USD', 'JPY', 'EUR'], rng.choice([2, 2, 3, 4]))
    pos = rng.randint(0, len(curs))
    ops = []
    for _ in range(rng.randint(1, 10)):
        a, b = rng.sample(range(len(curs)), 2)
        var = rng.choice(['G', 'H', 'IMP', 'G'])
        if rng.random() < 0.5:
            ops.append(['send', a, var])
        else:
            ops.append(['recv', a, b, var])
        if rng.random() < 0.5:
            ops.append(['send', a, var]); ops.append(['recv', a, b, var])
    return {'curs': curs, 'ext_pos': pos, 'ops': ops}


def run_fx_impl(c):
    from sfc_models.models import Model, Country
    from sfc_models.sector import Sector
    from sfc_models.external import ExternalSector
    mod = Model()
    secs = []
    ext = None
    for i, cur in enumerate(c['curs']):
        if i == c['ext_pos']:
            ext = ExternalSector(mod)
        cn = Country(mod, 'C' + cur, currency=cur)
        s = Sector(cn, 'S')
        for v in ('G', 'H', 'IMP'):
            s.AddVariable(v, '', '1.0')
        secs.append(s)
    if ext is None:
        ext = ExternalSector(mod)
    fx = ext['FX']
    mod._GenerateFullSectorCodes()   # full names instead of placeholders (same bookkeeping either way)
    model_ops = []
    for op in c['ops']:
        if op[0] == 'send':
            s = secs[op[1]]
            name = s.GetVariableName(op[2])
            fx._SendMoney(s, op[2])
            model_ops.append('Send %s %s' % (coq_string(c['curs'][op[1]]), coq_string(name)))
        else:
            s, t = secs[op[1]], secs[op[2]]
            name = s.GetVariableName(op[3])
            fx._ReceiveMoney(t, s, op[3])
            model_ops.append('Receive %s %s %s' % (coq_string(c['curs'][op[1]]), coq_string(c['curs'][op[2]]), coq_string(name)))
    expected = []
    for cur in c['curs'] + ['NUMERAIRE']:
        tl = fx.EquationBlock['NET_' + cur].TermList
        terms = [(int(t.Constant), t.Term) for t in tl if not t.IsBlob]
        ok_int = all(float(int(t.Constant)) == t.Constant for t in tl if not t.IsBlob)
        expected.append((cur, terms, ok_int, [t.Term for t in tl if t.IsBlob]))
    return model_ops, expected


def fx_oracle(c, expected):
    """Implementation only: evaluate NET equations under random rational rates and amounts."""
    from fractions import Fraction
    import random
    rng = random.Random(json.dumps(c, sort_keys=True))
    fails = []
    val = {}

    def value(name):
        if name not in val:
            val[name] = Fraction(rng.randint(1, 40), rng.randint(1, 9))
        return val[name]
    total = Fraction(0)
    for cur, terms, ok_int, blobs in expected:
        s = Fraction(0)
        for coef, text in terms:
            p = Fraction(coef)
            for f in text.split('*'):
                m = None
                if f.startswith('EXT_XR__') and '_' in f[len('EXT_XR__'):]:
                    a_, b_ = f[len('EXT_XR__'):].split('_', 1)
                    p *= value('EXT_XR__' + a_) / value('EXT_XR__' + b_)
                else:
                    p *= value(f)
            s += p
        total += s * (Fraction(1) if cur == 'NUMERAIRE' else value('EXT_XR__' + cur))
    if total != 0:
        fails.append({'key': 'fx:valued-sum-nonzero', 'what': 'valued sum of NET_* after %r is %s' % (c['ops'], total),
                      'replay': {'kind': 'fx', 'case': c}})
    return fails


def emit_fx(model_ops, expected):
    exp = coq_list(['(%s, %s)' % (coq_string(cur), coq_list(['(%s, %s)' % (coq_Z(k), coq_string(t)) for k, t in terms]))
                    for cur, terms, _, _ in expected])
    return 'fx_case %s %s' % (coq_list(model_ops), exp)


def refused_oracle():
    """Cross-currency flow / supplier without an ExternalSector must raise LogicError."""
    from sfc_models.models import Model, Country
    from sfc_models.sector import Sector, Market
    from sfc_models.utils import LogicError
    fails = []
    # registered flow
    mod = Model()
    ca, us = Country(mod, 'CA'), Country(mod, 'US')
    a, b = Sector(ca, 'A'), Sector(us, 'B')
    a.AddVariable('G', '', '1.0')
    mod.RegisterCashFlow(a, b, 'G')
    try:
        mod._GenerateFullSectorCodes(); mod._GenerateEquations(); mod._FixAliases(); mod._GenerateRegisteredCashFlows()
        fails.append({'key': 'refused:cross-flow-accepted', 'what': 'cross-currency registered flow accepted without ExternalSector',
                      'replay': {'kind': 'refused'}})
    except LogicError:
        pass
    # supplier
    mod = Model()
    ca, us = Country(mod, 'CA'), Country(mod, 'US')
    m = Market(ca, 'GOOD')
    s1, s2 = Sector(ca, 'S1'), Sector(us, 'S2')
    s1.AddVariable('SUP_GOOD', '', '')
    m.AddSupplier(s1)
    m.AddSupplier(s2, '0.1*DEM_GOOD')
    try:
        mod._GenerateFullSectorCodes(); mod._GenerateEquations()
        fails.append({'key': 'refused:cross-supplier-accepted', 'what': 'cross-currency supplier accepted without ExternalSector',
                      'replay': {'kind': 'refused'}})
    except LogicError:
        pass
    return fails


def run(ctx):
    proofs__ = common.proof_status_async([(FAMILY, PROPFILE)] + gen_main2.PROOFS + gen_plumb.PROOFS + gen_witness.PROOFS)      # re-checked in the background while the cases run
    out, metas = GC.run_targets(
        ctx, PID, make_targets, 40, 500, kmin=1,
        gen=lambda pg: pg.multizone(gold=(pg.rng.random() < 0.25)),
        rule=('multi-currency programs from ProgGen.multizone: 2-3 zones, ExternalSector created at a random position, '
              'exogenous non-unit time-varying XR paths, 1-3 registered cross-zone gifts, 0-2 cross-zone suppliers '
              '(imports), optional gold-standard government; targets valued-zero / numeraire-zero / cross-rate '
              'definitions; plus random _SendMoney/_ReceiveMoney sequences against the Fx.v model'))
    out.proof = proofs__.result()
    # (a) bookkeeping correspondence
    n = ctx.scale(300, 4000)
    cases, cmeta = [], []
    for _ in range(n):
        c = gen_fx_case(ctx.rng)
        model_ops, expected = run_fx_impl(c)
        out.failures.extend(fx_oracle(c, expected))
        if not all(e[2] for e in expected):
            out.failures.append({'key': 'fx:non-integer-coefficient', 'what': 'non-integer coefficient in NET equation',
                                 'replay': {'kind': 'fx', 'case': c}})
        cases.append(emit_fx(model_ops, expected))
        cmeta.append(c)
    bad, errs = common.run_bool_cases(FAMILY, G.GEN_REQUIRES, cases, tag=PID + 'fx')
    out.corr_errors.extend(errs)
    for i in bad[:10]:
        out.disagreements.append({'fx_case': cmeta[i], 'coq': cases[i][:500]})
    out.failures.extend(refused_oracle())
    out.extra['fx_sequences'] = len(cases)
    out.evaluations += len(cases)
    out.nontrivial += len(set(json.dumps(c, sort_keys=True) for c in cmeta if len(c['ops']) >= 2))
    out.samples.append({'fx_sequence': cmeta[0]})
    out.trusted_base = [
        'Coq 8.16.1 kernel + vm_compute', 'axioms: Reals (sig_forall_dec, sig_not_dec), functional_extensionality_dep',
        'hand-written model coq/Gen/Fx.v of ForexTransations._SendMoney/_ReceiveMoney (tied by the correspondence on '
        'term lists); harness: EquationParser + Python ast -> Coq sys for the emitted-system certificate',
        'cut / non-zero hints untrusted']
    out.assumptions = ['exchange rates of receiving currencies are non-zero',
                       'topologies covered per generated program; valuations, rate paths and periods by the theorems']
    # whole-pipeline model of Model.main() for programs with several currency zones (coq/GenMain2, Main2.build2):
    # Main2_fx_valued_zero holds for ALL programs of the language; tied by the whole-program correspondence
    gen_main2.extra(ctx, out, 30, 300)
    gen_plumb.extra(ctx, out, 16, 150)      # Main2_fx_valued_zero_sem / _multi: semantic side condition only (coq/GenPlumb)
    return out


def replay(path):
    obj = json.load(open(path))
    r = obj.get('replay') or {}
    if r.get('kind') == 'fx':
        model_ops, expected = run_fx_impl(r['case'])
        fails = fx_oracle(r['case'], expected)
        for f in fails:
            print('FAILS:', f['what'][:300])
        print('replay: %s' % ('property violated' if fails else 'property holds on this input'))
        return 1 if fails else 0
    if r.get('kind') == 'main2':
        return gen_main2.replay(obj)
    if r.get('kind') == 'refused':
        fails = refused_oracle()
        for f in fails:
            print('FAILS:', f['what'])
        return 1 if fails else 0
    return GC.replay_program(path, make_targets, kmin=1)
