"""GenWitness: non-vacuity witnesses and the multi-currency two-period corollary for the program-level families built
on coq/GenMain2 (audit items M2c / L4 of DESIGN section 11).

Theorems and examples only (coq/GenWitness/PropWitness.v): everything is about models that are already tied to the
implementation (harness/gen_main2.py: Main.build / Main2.build2; gen_rename, gen_order, gen_order2, gen_plumb evaluate their
side conditions on generated programs), so there is no correspondence stream of its own.

    PROOFS = [('GenWitness', 'PropWitness.v')]

Obligations: C01 -> Main2_stock_flow_two_periods(_sem, _multi), Witness_SIM_balance, Witness_SIM_two_periods,
Witness_OPEN_fx, Witness_OPEN_two_periods, Witness_DEP_two_periods, Main2_stock_flow_prev_needed_refuted; C07 -> Witness_OPEN_fx; C18 -> Witness_rename_error, Witness_rename2_error;
C08 -> Witness_order_error, Witness_order2_error, Witness_order_ok_perm.
"""

PROOFS = [('GenWitness', 'PropWitness.v')]
