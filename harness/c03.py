"""C03 — equation reduction never changes any solution value.

Proof: coq/Reduce/PropC03.v (termination of the reduction loop, variable-set preservation, equality of
the solution sets of the simultaneous block before/after, acyclic decoration order; refutation of the
code before the D03 fix).
Correspondence: random equation blocks rich in alias chains (targets: endogenous, exogenous, lagged,
constant, other aliases), `+`-prefixed aliases, decorative chains and trees, initial conditions on any
class, equality loops, duplicate definitions.  The parser state after ParseString()+ValidateInputs()
is turned into the model's `prog` (right-hand sides as Python `ast` trees), EquationReduction() is run
on the implementation, and its Endogenous / Decoration (as ASTs, numbers exact) / Lagged / Exogenous /
InitialConditions are compared with `reduce` of the model.
Oracle (implementation only): every well-posed contractive block is solved with
EquationSolver(run_equation_reduction=True) and (...=False); every variable of the block must be in
both results with MaxTime+1 points, the k=0 row must be equal exactly, every later value within
TOL_FACTOR*tol*max(1,|v|) (the two runs stop on different iterates of the same contraction; values that
do not come out of the iteration - exogenous series, the time axis - differ by 0).  Blocks with equality
loops (reduction refuses them by design) and malformed blocks go to the correspondence only.
"""
import ast
import io
import json
import math
import re
import tokenize
from fractions import Fraction

import common
from common import coq_string, coq_list, coq_Q

PID = 'C03'
FAMILY = 'Reduce'
PROPFILE = 'PropC03.v'
LEVEL = 'proof'
REQUIRES = ['From SFC.Base Require Import Res Expr.', 'From SFC.Reduce Require Import Reduce CaseDefs.']

# tolerance factor: both runs stop when the summed change of one sweep is <= tol; for a map whose
# m-th iterate is a q-contraction (q <= 0.45, m <= 4 here) the stopped iterate is within m*tol/(1-q) of
# the fixed point; decorative/DAG layers multiply by at most 2**4 * 3: about 350*tol in the worst case.
# Observed maximum over 3000 blocks: 1.6*tol.  A wrong substitution moves values by O(1e-2) or more with
# the coefficient grid below.
TOL_FACTOR = 500.0

FN1 = {'abs': 'Fabs', 'sqrt': 'Fsqrt', 'float': 'Ffloat'}
FN2 = {'max': 'Fmax', 'min': 'Fmin'}


# ---------------------------------------------------------------- expressions (JSON-able nested lists)
def num(lit):
    return ['num', lit]


def var(x):
    return ['var', x]


PREC = {'add': 1, 'sub': 1, 'mul': 2, 'div': 2, 'neg': 3, 'pos': 3}
OPSYM = {'add': '+', 'sub': '-', 'mul': '*', 'div': '/'}


def prec(e):
    return PREC.get(e[0], 4)


def show(e, rng=None):
    """Canonical text: minimal parentheses, optional single spaces around binary operators and after
    commas, never a space after a unary sign, a bare name is never parenthesised."""
    def sp():
        return ' ' if (rng is not None and rng.random() < 0.3) else ''

    def go(e):
        k = e[0]
        if k == 'num':
            return e[1]
        if k == 'var':
            return e[1]
        if k in ('neg', 'pos'):
            s = go(e[1])
            if prec(e[1]) < 3:
                s = '(' + s + ')'
            return ('-' if k == 'neg' else '+') + s
        if k in OPSYM:
            p = PREC[k]
            a, b = go(e[1]), go(e[2])
            if prec(e[1]) < p:
                a = '(' + a + ')'
            if prec(e[2]) <= p:
                b = '(' + b + ')'
            s1 = sp()
            return a + s1 + OPSYM[k] + s1 + b
        if k == 'call1':
            return e[1] + '(' + go(e[2]) + ')'
        if k == 'call2':
            return e[1] + '(' + go(e[2]) + ',' + sp() + go(e[3]) + ')'
        raise ValueError(k)
    return go(e)


class NotInAst(Exception):
    pass


def from_pyast(n):
    if isinstance(n, ast.Expression):
        return from_pyast(n.body)
    if isinstance(n, ast.Constant):
        if type(n.value) in (int, float) and not (isinstance(n.value, float) and not math.isfinite(n.value)):
            return ['num', repr(n.value)]
        raise NotInAst('constant')
    if isinstance(n, ast.Name):
        return ['var', n.id]
    if isinstance(n, ast.UnaryOp):
        if isinstance(n.op, ast.USub):
            return ['neg', from_pyast(n.operand)]
        if isinstance(n.op, ast.UAdd):
            return ['pos', from_pyast(n.operand)]
        raise NotInAst('unary')
    if isinstance(n, ast.BinOp):
        for cls, k in ((ast.Add, 'add'), (ast.Sub, 'sub'), (ast.Mult, 'mul'), (ast.Div, 'div')):
            if isinstance(n.op, cls):
                return [k, from_pyast(n.left), from_pyast(n.right)]
        raise NotInAst('binop')
    if isinstance(n, ast.Call) and isinstance(n.func, ast.Name) and not n.keywords:
        f = n.func.id
        if f in FN1 and len(n.args) == 1:
            return ['call1', f, from_pyast(n.args[0])]
        if f in FN2 and len(n.args) == 2:
            return ['call2', f, from_pyast(n.args[0]), from_pyast(n.args[1])]
    raise NotInAst(type(n).__name__)


def parse_expr(text):
    try:
        tree = ast.parse(text.strip(), mode='eval')
    except (SyntaxError, ValueError, MemoryError, RecursionError):
        raise NotInAst('syntax')
    return from_pyast(tree)


def lit_fraction(lit):
    v = ast.literal_eval(lit)
    return Fraction(v)


def canon(e):
    """Structure with numbers by exact value (for equality of ASTs on the Python side)."""
    k = e[0]
    if k == 'num':
        return ('num', lit_fraction(e[1]))
    if k == 'var':
        return ('var', e[1])
    return (k,) + tuple(canon(x) if isinstance(x, list) else x for x in e[1:])


def coq_expr(e):
    k = e[0]
    if k == 'num':
        return '(ENum %s)' % coq_Q(lit_fraction(e[1]))
    if k == 'var':
        return '(EVar %s)' % coq_string(e[1])
    if k == 'neg':
        return '(ENeg %s)' % coq_expr(e[1])
    if k == 'pos':
        return '(EPos %s)' % coq_expr(e[1])
    if k in OPSYM:
        return '(E%s %s %s)' % (k.capitalize(), coq_expr(e[1]), coq_expr(e[2]))
    if k == 'call1':
        return '(ECall1 %s %s)' % (FN1[e[1]], coq_expr(e[2]))
    if k == 'call2':
        return '(ECall2 %s %s %s)' % (FN2[e[1]], coq_expr(e[2]), coq_expr(e[3]))
    raise ValueError(k)


def name_tokens(text):
    out = []
    try:
        for tok in tokenize.tokenize(io.BytesIO(text.encode('utf-8')).readline):
            if tok.type == tokenize.NAME:
                out.append(tok.string)
    except (tokenize.TokenError, SyntaxError, IndentationError):
        raise NotInAst('tokenize')
    return out


LAG_RE = re.compile(r'^\s*([A-Za-z_]\w*)\s*\(\s*([A-Za-z_]\w*)\s*-\s*1\s*\)\s*$')


def classify_entry(text):
    """AllEquations value -> model entry (as a Coq term)."""
    try:
        return 'EExpr %s' % coq_expr(parse_expr(text))
    except NotInAst:
        pass
    m = LAG_RE.match(text)
    if m:
        return 'ELag %s %s' % (coq_string(m.group(1)), coq_string(m.group(2)))
    return 'EOpaque %s' % coq_list([coq_string(t) for t in name_tokens(text)])


# ---------------------------------------------------------------- generation
NAME_POOL = ['x', 'y', 'z', 'w', 'x1', 'x11', 'xx', 'ax', 'a', 'b', 'ab', 'a_b', 'm', 'ma', 's', 'qs', 'F', 'HH__F',
             'GOV__T', 'T', 'u', 'v', 'p', 'q', 'r', 'g', 'h', 'c', 'cc', 'n', 'd', 'dd', 'e1', 'e2', 'ff', 'al',
             'bs', 'in_x', 'x_in', 'loat', 'flo']
COEFS = ['0.1', '0.2', '0.25', '0.05', '0.15', '.1', '0.3', '0.125']
BIGCOEFS = ['2', '1.5', '0.5', '3', '2.', '0.75', '1.25', '0.1']
CONSTS = ['1', '2.5', '3', '10', '0.5', '20.', '7', '100', '4.25', '12']


def lin_term(rng, coef, v):
    t = ['mul', num(coef), var(v)] if rng.random() < 0.8 else ['mul', var(v), num(coef)]
    return t


def build_sum(rng, terms):
    e = terms[0]
    if rng.random() < 0.15:
        e = ['neg', e] if e[0] != 'num' else e
    for t in terms[1:]:
        e = ['add' if rng.random() < 0.7 else 'sub', e, t]
    return e


def gen_block(rng, kind='wellposed'):
    """Returns a dict describing one block: 'lines' (text), 'vars' (all left-hand names), 'maxtime', 'tol',
    'features'.  kind: 'wellposed' (oracle + correspondence), 'loop' / 'malformed' (correspondence only)."""
    names = rng.sample(NAME_POOL, len(NAME_POOL))
    take = iter(names)
    feats = set()
    maxtime = rng.choice([2, 3, 4])
    use_t = rng.random() < 0.3
    n_core = rng.choice([1, 2, 2, 3, 4])
    n_exo = rng.choice([0, 1, 1, 2])
    n_const = rng.choice([0, 1, 1, 2])
    n_alias = rng.choice([0, 1, 2, 3, 4, 6])
    n_deco = rng.choice([0, 1, 2, 3, 5])
    core = [next(take) for _ in range(n_core)]
    exo = [next(take) for _ in range(n_exo)]
    consts = [next(take) for _ in range(n_const)]
    base0 = exo + consts + (['t'] if use_t else [])
    # lagged variables (sources: core, exogenous, constants; alias sources are added below)
    lag_src = [v for v in core + exo + consts if rng.random() < 0.45]
    lags = [('LAG_' + v, v) for v in lag_src]
    layer1 = list(core) + base0 + [l for l, _ in lags]          # may be referenced by core equations
    # aliases: each refers to an item defined "before" it in a hidden order => acyclic
    alias = []            # (name, target, plus?)
    l1_alias = []         # aliases resolving to a layer-1 variable, with chain depth
    depth = {}
    top = []              # layer 2 in hidden order: decorative formulas and aliases of them
    top_defs = {}
    alias_left = n_alias
    deco_left = n_deco
    while alias_left + deco_left > 0:
        if alias_left > 0 and (deco_left == 0 or rng.random() < 0.55):
            alias_left -= 1
            a = next(take)
            pool1 = layer1 + [x for x in l1_alias if depth[x] < 3]
            if top and rng.random() < 0.3:
                tgt = rng.choice(top)
                top.append(a)
                feats.add('alias-of-decorative')
            else:
                tgt = rng.choice(pool1)
                depth[a] = depth.get(tgt, 0) + 1
                l1_alias.append(a)
                if depth[a] > 1:
                    feats.add('alias-chain')
                if tgt in exo:
                    feats.add('alias-of-exogenous')
                elif tgt in consts:
                    feats.add('alias-of-constant')
                elif tgt.startswith('LAG_'):
                    feats.add('alias-of-lagged')
                elif tgt == 't':
                    feats.add('alias-of-t')
                elif tgt in core:
                    feats.add('alias-of-endogenous')
            plus = rng.random() < 0.3
            if plus:
                feats.add('plus-prefix')
            alias.append((a, tgt, plus))
            if rng.random() < 0.25 and not a.startswith('LAG_'):
                lags.append(('LAG_' + a, a))
                feats.add('lag-of-alias')
        else:
            deco_left -= 1
            d = next(take)
            pool = layer1 + l1_alias + top
            k = rng.choice([1, 1, 2, 3])
            vs = [rng.choice(pool) for _ in range(k)]
            terms = [lin_term(rng, rng.choice(BIGCOEFS), v) for v in vs]
            r = rng.random()
            if r < 0.3:
                terms.append(num(rng.choice(CONSTS)))
            elif r < 0.4 and len(vs) >= 2:
                terms = [['call2', rng.choice(['max', 'min']), var(vs[0]), var(vs[1])]] + terms[2:]
            elif r < 0.5:
                terms = [['call1', rng.choice(['abs', 'float']), terms[0]]] + terms[1:]
            elif r < 0.58:
                terms = [['div', var(vs[0]), num(rng.choice(['2', '4', '0.5']))]] + terms[1:]
            e = build_sum(rng, terms)
            if any(v in top for v in vs):
                feats.add('decorative-chain')
            if sum(1 for v in set(vs) if v in top) >= 2:
                feats.add('decorative-tree')
            top.append(d)
            top_defs[d] = e
            if rng.random() < 0.15:
                lags.append(('LAG_' + d, d))
    # core equations: row sums of |coef| <= 0.45 over everything that is not fixed within the period
    eqs = {}
    for x in core:
        pool = core + l1_alias + [l for l, _ in lags if l in layer1] + base0
        k = rng.choice([1, 2, 2, 3])
        budget = 0.45
        terms = []
        for _ in range(k):
            v = rng.choice(pool)
            cands = [c for c in COEFS if float(c) <= budget + 1e-12]
            if not cands:
                break
            c = rng.choice(cands)
            budget -= float(c)
            terms.append(lin_term(rng, c, v))
        if rng.random() < 0.85 or not terms:
            terms.append(num(rng.choice(CONSTS)))
        rng.shuffle(terms)
        eqs[x] = build_sum(rng, terms)
    for c in consts:
        eqs[c] = num(rng.choice(CONSTS)) if rng.random() < 0.8 else ['add', num(rng.choice(CONSTS)), num('1')]
    lines = []
    for x in core + consts:
        lines.append('%s = %s' % (x, show(eqs[x], rng)))
    for a, tgt, plus in alias:
        lines.append('%s = %s%s' % (a, '+' if plus else '', tgt))
    for d in top_defs:
        lines.append('%s = %s' % (d, show(top_defs[d], rng)))
    for l, s in lags:
        lines.append('%s = %s(%s-1)' % (l, s, rng.choice(['k', 'k', 't'])))
    allvars = core + consts + [a for a, _, _ in alias] + list(top_defs) + [l for l, _ in lags] + exo
    if use_t and rng.random() < 0.5:
        # user-defined time axis (still the identity so that both runs share it)
        lines.append('t = k')
    # initial conditions on any class
    n_ic = rng.choice([0, 0, 1, 1, 2, 3])
    ic_vars = rng.sample(allvars, min(n_ic, len(allvars)))
    for v in ic_vars:
        lines.append('%s(0) = %s' % (v, rng.choice(['7', '5.5', '1', '-2', '0.25', '40.', '0', '0.0', '0.', '-0.0'])))
        if any(v == a for a, _, _ in alias):
            feats.add('ic-on-alias')
        elif any(v == tgt for _, tgt, _ in alias):
            feats.add('ic-on-alias-target')
        elif v in top_defs:
            feats.add('ic-on-decorative')
        elif v.startswith('LAG_'):
            feats.add('ic-on-lagged')
        elif v in exo:
            feats.add('ic-on-exogenous')
        else:
            feats.add('ic-on-endogenous')
    rng.shuffle(lines)
    tol = None
    if rng.random() < 0.3:
        tol = rng.choice(['1e-8', '1e-6', '1e-9', '1e-7'])
        lines.insert(rng.randint(0, len(lines)), 'Err_Tolerance = ' + tol)
    lines.insert(rng.randint(0, len(lines)), 'MaxTime = %d' % maxtime)
    if rng.random() < 0.2:
        lines.insert(rng.randint(0, len(lines)), '# a comment line')
    exo_lines = []
    for g in exo:
        if rng.random() < 0.5:
            exo_lines.append('%s = %s' % (g, rng.choice(['20.', '5.', '1.5', '100.'])))
        else:
            vals = [rng.choice(['1.', '2.', '5.', '10.', '0.5', '20.']) for _ in range(maxtime + 1 + rng.randint(0, 2))]
            exo_lines.append('%s = [%s]' % (g, ', '.join(vals)))
    if exo_lines:
        lines.append(rng.choice(['exogenous', '# exogenous variables', 'Exogenous']))
        lines.extend(exo_lines)
    info = {'kind': kind, 'vars': sorted(set(allvars)), 'maxtime': maxtime, 'tol': tol or '1e-8'}
    if kind == 'loop':
        # equality loop among fresh names, spliced into the endogenous part
        ln = rng.choice([1, 2, 2, 3, 4])
        cyc = [next(take) for _ in range(ln)]
        extra = ['%s = %s%s' % (cyc[i], '+' if rng.random() < 0.3 else '', cyc[(i + 1) % ln]) for i in range(ln)]
        if rng.random() < 0.5:
            extra.append('%s = %s' % (next(take), rng.choice(cyc)))
        if rng.random() < 0.3:
            extra.append('%s(0) = 3' % rng.choice(cyc))
        for ex in extra:
            lines.insert(rng.randint(0, max(0, len(lines) - len(exo_lines) - (1 if exo_lines else 0))), ex)
        feats.add('equality-loop-%d' % ln)
    elif kind == 'malformed':
        endo_end = max(0, len(lines) - len(exo_lines) - (1 if exo_lines else 0))
        for _ in range(rng.choice([1, 1, 2])):
            r = rng.random()
            if r < 0.3 and allvars:
                v = rng.choice([z for z in allvars if not z.startswith('LAG_')] or ['x'])
                ex = '%s = %s' % (v, rng.choice([rng.choice(allvars), '3', '0.5*' + rng.choice(allvars)]))
                feats.add('duplicate-definition')
            elif r < 0.5:
                ex = '%s = %s' % (next(take), rng.choice(['MaxTime', '+MaxTime', 'Err_Tolerance', 'k', 'nowhere', '+nowhere']))
                feats.add('alias-of-parameter-or-unknown')
            elif r < 0.65 and allvars:
                v = rng.choice(allvars)
                ex = '%s = %s' % (next(take), rng.choice(['+ ' + v, '(' + v + ')', '++' + v, '-' + v, '1*' + v, v + ' ']))
                feats.add('near-alias')
            elif r < 0.8 and exo:
                ex = '%s = %s' % (next(take), rng.choice(exo) + '(0)' if rng.random() < 0.3 else rng.choice(allvars))
                feats.add('extra-alias')
            else:
                ex = rng.choice(['just some text', 'a = b = c', '= 4', '   ', 'zz(0) = 4'])
                feats.add('ignored-line')
            lines.insert(rng.randint(0, endo_end), ex)
    info['block'] = '\n'.join(lines)
    info['features'] = sorted(feats)
    return info


# ---------------------------------------------------------------- implementation drivers
def snapshot(p):
    return {
        'all': [(k, v) for k, v in p.AllEquations.items()],
        'endo': [(a, b) for a, b in p.Endogenous],
        'deco': [(a, b) for a, b in p.Decoration],
        'lagged': [(a, b) for a, b in p.Lagged],
        'exo': [a for a, _ in p.Exogenous],
        'ics': [(k, v) for k, v in p.InitialConditions.items()],
    }


def run_reduction(block):
    """ParseString + ValidateInputs (as EquationSolver.ParseString does), snapshot, EquationReduction, snapshot."""
    from sfc_models.equation_parser import EquationParser
    p = EquationParser()
    try:
        p.ParseString(block)
        p.ValidateInputs()
    except Exception as e:  # noqa
        return {'pre_err': common.exc_class(e)}
    pre = snapshot(p)
    try:
        p.EquationReduction()
    except Exception as e:  # noqa
        return {'pre': pre, 'post_err': common.exc_class(e)}
    return {'pre': pre, 'post': snapshot(p)}


def solve(block, reduction):
    from sfc_models.equation_solver import EquationSolver
    try:
        s = EquationSolver(block, run_equation_reduction=reduction)
        s.SolveEquation()
    except Exception as e:  # noqa
        return {'err': common.exc_class(e), 'msg': str(e)[:200]}
    return {'ts': {k: list(v) for k, v in s.TimeSeries.items()}}


# ---------------------------------------------------------------- oracle (implementation only)
def is_num(x):
    return isinstance(x, (int, float)) and not isinstance(x, bool)


def oracle(info):
    """Solve with reduction on and off; compare every variable of the block.  Returns (failures, stats)."""
    block = info['block']
    rep = {'kind': 'block', 'block': block, 'vars': info['vars'], 'maxtime': info['maxtime'], 'tol': info['tol']}
    on = solve(block, True)
    off = solve(block, False)
    fails = []
    if ('err' in on) or ('err' in off):
        if on.get('err') != off.get('err'):
            fails.append({'key': 'reduction:error-class-differs',
                          'what': 'reduction on: %s, off: %s on block\n%s' % (
                              on.get('err', 'solved') + ' ' + on.get('msg', ''), off.get('err', 'solved') + ' ' + off.get('msg', ''), block),
                          'replay': rep})
        return fails, {'solved': False}
    T = info['maxtime']
    tol = float(info['tol'])
    a, b = on['ts'], off['ts']
    allvars = list(info['vars']) + ['t', 'k']
    for v in allvars:
        for nm, ts in (('on', a), ('off', b)):
            if v not in ts or len(ts[v]) != T + 1:
                fails.append({'key': 'reduction:variable-missing',
                              'what': 'variable %s: with reduction %s the result has %s (expected %d points); block\n%s' % (
                                  v, nm, 'no such series' if v not in ts else '%d points' % len(ts[v]), T + 1, block),
                              'replay': rep})
                return fails, {'solved': True}
    extra = sorted((set(a) ^ set(b)))
    if extra:
        fails.append({'key': 'reduction:variable-missing',
                      'what': 'series present in only one of the two results: %r; block\n%s' % (extra, block), 'replay': rep})
        return fails, {'solved': True}
    maxdiff = 0.0
    for v in allvars:
        x0, y0 = a[v][0], b[v][0]
        if not (is_num(x0) and is_num(y0) and x0 == y0):
            fails.append({'key': 'reduction:k0-differs',
                          'what': '%s(0) = %r with reduction, %r without; block\n%s' % (v, x0, y0, block), 'replay': rep})
            return fails, {'solved': True}
    for v in allvars:
        for k in range(1, T + 1):
            x, y = a[v][k], b[v][k]
            ok = is_num(x) and is_num(y) and math.isfinite(x) and math.isfinite(y)
            if ok:
                d = abs(x - y)
                maxdiff = max(maxdiff, d)
                ok = d <= TOL_FACTOR * tol * max(1.0, abs(x), abs(y))
            if not ok:
                fails.append({'key': 'reduction:series-differ',
                              'what': '%s(%d) = %r with reduction, %r without (tolerance %g); block\n%s' % (
                                  v, k, x, y, TOL_FACTOR * tol, block), 'replay': rep})
                return fails, {'solved': True}
    return fails, {'solved': True, 'maxdiff': maxdiff}


# ---------------------------------------------------------------- Coq emission
def q_of_text(text):
    try:
        v = ast.literal_eval(text.strip())
        if type(v) in (int, float) and math.isfinite(v):
            return Fraction(v)
    except Exception:  # noqa
        pass
    return Fraction(0)


def emit_pairs(pairs):
    return coq_list(['(%s, %s)' % (coq_string(a), coq_expr(parse_expr(b))) for a, b in pairs])


def emit_case(res):
    """Coq bool term for one reduction run, or None when the parsed block is outside the model's domain."""
    pre = res['pre']
    try:
        all_ = coq_list(['(%s, %s)' % (coq_string(k), classify_entry(v)) for k, v in pre['all']])
        endo = emit_pairs(pre['endo'])
        deco = emit_pairs(pre['deco'])
        # a name that is both endogenous and (later) lagged/list-valued is outside the model
        d = dict(pre['all'])
        for a, _ in pre['endo']:
            parse_expr(d[a])
    except (NotInAst, KeyError):
        return None
    lagged = coq_list(['(%s, %s)' % (coq_string(a), coq_string(b)) for a, b in pre['lagged']])
    exo = coq_list([coq_string(a) for a in pre['exo']])
    ics = coq_list(['(%s, %s)' % (coq_string(k), coq_Q(q_of_text(v))) for k, v in pre['ics']])
    prog = '(mkProg %s %s %s %s %s %s)' % (all_, endo, deco, lagged, exo, ics)
    if 'post_err' in res:
        return 'c03_case %s (Err %s)' % (prog, res['post_err'])
    post = res['post']
    try:
        exp = '(%s, %s, %s, %s, %s)' % (
            emit_pairs(post['endo']), emit_pairs(post['deco']),
            coq_list(['(%s, %s)' % (coq_string(a), coq_string(b)) for a, b in post['lagged']]),
            coq_list([coq_string(a) for a in post['exo']]),
            coq_list([coq_string(k) for k, _ in post['ics']]))
    except NotInAst:
        # the implementation produced text that is no longer an arithmetic expression: certainly not the model's
        return 'false'
    return 'c03_case %s (Ok %s)' % (prog, exp)


# ---------------------------------------------------------------- entry points
FIXED_BLOCKS = [
    # D03 witness
    {'kind': 'wellposed', 'block': 'x(0)=7\nx=y\ny=3\nw=x+1\nLAG_w=w(k-1)\nv=LAG_w\nMaxTime=3',
     'vars': ['LAG_w', 'v', 'w', 'x', 'y'], 'maxtime': 3, 'tol': '1e-8', 'features': ['ic-on-alias', 'fixed:D03']},
    {'kind': 'wellposed', 'block': 'x = +y\ny = z\nz = 0.5*x + 1\nMaxTime=2',
     'vars': ['x', 'y', 'z'], 'maxtime': 2, 'tol': '1e-8', 'features': ['alias-chain', 'plus-prefix', 'fixed:design']},
    {'kind': 'wellposed', 'block': 'x = t\nt = z*1\nz=0.25*x+1\nMaxTime=2',
     'vars': ['x', 't', 'z'], 'maxtime': 2, 'tol': '1e-8', 'features': ['fixed:docstring']},
    {'kind': 'loop', 'block': 'x = t\nt = x', 'vars': ['x', 't'], 'maxtime': 0, 'tol': '1e-8',
     'features': ['equality-loop-2', 'fixed:docstring']},
    {'kind': 'wellposed', 'block': 'a = b\nb(0) = 9\nb = c\nc = 3\nw = a + 1\nMaxTime=2',
     'vars': ['a', 'b', 'c', 'w'], 'maxtime': 2, 'tol': '1e-8', 'features': ['ic-on-alias', 'alias-chain', 'fixed']},
    {'kind': 'wellposed', 'block': 'y = x\nz = y\nw = z + 1\nx = 0.5*w\nLAG_z = z(k-1)\nu = LAG_z\nMaxTime=3',
     'vars': ['y', 'z', 'w', 'x', 'LAG_z', 'u'], 'maxtime': 3, 'tol': '1e-8', 'features': ['stale-alias', 'lag-of-alias', 'fixed']},
]


def corpus_cases():
    import glob
    import os
    out = []
    for p in sorted(glob.glob(os.path.join(common.VERIF, 'corpus', PID, '*.json'))):
        r = json.load(open(p)).get('replay') or {}
        if r.get('kind') == 'block':
            out.append({'kind': 'wellposed', 'block': r['block'], 'vars': r['vars'], 'maxtime': r['maxtime'],
                        'tol': r['tol'], 'features': ['corpus']})
    return out


def run(ctx):
    out = common.Outcome()
    out.proof = common.proof_status(FAMILY, PROPFILE)
    n_well = ctx.scale(700, 12000)
    n_loop = ctx.scale(80, 1200)
    n_mal = ctx.scale(120, 1800)
    items = list(FIXED_BLOCKS) + corpus_cases()
    items += [gen_block(ctx.rng, 'wellposed') for _ in range(n_well)]
    items += [gen_block(ctx.rng, 'loop') for _ in range(n_loop)]
    items += [gen_block(ctx.rng, 'malformed') for _ in range(n_mal)]
    cases, metas, seen = [], [], set()
    stats = {'blocks': len(items), 'outside_model_domain': 0, 'parse_errors': 0, 'reduction_value_errors': 0,
             'aliases_substituted': 0, 'moved_to_decoration': 0, 'oracle_solved': 0, 'oracle_both_raise': 0,
             'max_abs_difference_on_vs_off': 0.0, 'features': {}}
    for it in items:
        res = run_reduction(it['block'])
        if 'pre_err' in res:
            stats['parse_errors'] += 1
            continue
        term = emit_case(res)
        if term is None:
            stats['outside_model_domain'] += 1
        else:
            cases.append(term)
            metas.append({'block': it['block'], 'kind': it['kind'],
                          'impl': res.get('post_err') or {'endo': res['post']['endo'], 'deco': res['post']['deco']}})
        nontrivial = False
        if 'post' in res:
            pre_e, post_e = dict(res['pre']['endo']), dict(res['post']['endo'] + res['post']['deco'])
            changed = sum(1 for k in pre_e if k in post_e and ''.join(pre_e[k].split()) != ''.join(post_e[k].split()))
            moved = len(res['post']['deco'])
            stats['aliases_substituted'] += changed
            stats['moved_to_decoration'] += moved
            nontrivial = changed > 0 or moved > 1
        else:
            stats['reduction_value_errors'] += 1
            nontrivial = True
        for f in it['features']:
            stats['features'][f] = stats['features'].get(f, 0) + 1
        if it['kind'] == 'wellposed':
            fails, st = oracle(it)
            out.failures.extend(fails)
            if st.get('solved'):
                stats['oracle_solved'] += 1
                stats['max_abs_difference_on_vs_off'] = max(stats['max_abs_difference_on_vs_off'], st.get('maxdiff', 0.0))
            elif not fails:
                stats['oracle_both_raise'] += 1
        if nontrivial and it['block'] not in seen:
            seen.add(it['block'])
    bad, errs = common.run_bool_cases(FAMILY, REQUIRES, cases, tag=PID, shard=150)
    out.corr_errors = errs
    for i in bad[:20]:
        out.disagreements.append({'input': metas[i], 'case': cases[i][:1500]})
    out.evaluations = len(cases)
    out.nontrivial = len(seen)
    out.rule = ('random equation blocks: 1-4 contractive simultaneous equations (row sum of |coefficients| <= 0.45), 0-2 '
                'exogenous series/constants, 0-2 constant equations, lag definitions (k-1 or t-1), 0-6 aliases (optionally '
                '+-prefixed) of endogenous/exogenous/lagged/constant/alias/decorative variables in acyclic chains of depth '
                '<= 3, 0-5 decorative formulas forming chains and trees, 0-3 initial conditions on any class, shuffled '
                'line order, optional Err_Tolerance, names sharing substrings; plus streams with equality loops of '
                'length 1-4 and malformed blocks (duplicate definitions, aliases of MaxTime/unknown names, near-aliases '
                'such as "+ x", "(x)", "++x").  Non-trivial = the reduction substituted at least one alias, moved more '
                'than the time axis to Decoration, or raised; distinct by block text')
    out.samples = [{'block': m['block'], 'impl': m['impl']} for m in (metas[:1] + metas[len(metas) // 2:len(metas) // 2 + 1] + metas[-1:])]
    stats['max_abs_difference_on_vs_off'] = float('%.3g' % stats['max_abs_difference_on_vs_off'])
    out.extra = {'input_distribution': stats, 'source_hashes': common.source_hashes(
        ['sfc_models/equation_parser.py', 'sfc_models/equation_solver.py', 'sfc_models/utils.py'])}
    out.trusted_base = [
        'Coq 8.16.1 kernel + vm_compute',
        'hand-written model coq/Reduce/Reduce.v (tied to EquationParser.EquationReduction by this correspondence)',
        "Python's ast.parse as the reading of right-hand-side text: the model works on ASTs; an endogenous right-hand "
        "side is an alias of y iff its AST is `y` or `+y`, which coincides with the implementation's textual test "
        "(strip, drop one leading '+', dictionary lookup) because the generated text never has a space after a leading "
        "'+' nor parentheses around a bare name",
        "token replacement (tokenize/untokenize + removal of spaces) is AST substitution of a name on arithmetic "
        "expressions; function names (abs, max, ...) are not variable names (ValidateInputs rejects them)",
        'Print Assumptions: classical reals of the Coq standard library (ClassicalDedekindReals.sig_forall_dec, '
        'sig_not_dec, FunctionalExtensionality.functional_extensionality_dep) for the theorems stated over R; '
        'the computational theorems are closed under the global context',
    ]
    out.assumptions = [
        'no variable is defined twice and the block was just parsed (Decoration empty): hypothesis `wf` of '
        'C03_solutions / C03_deco_order (C03_terminates and C03_variables hold without it)',
        'right-hand sides are arithmetic expressions over + - * / abs sqrt float max min (the AST of coq/Base/Expr.v)',
        '"same series" is proved as same solution set of the simultaneous block over the reals; the float iteration '
        'itself (C02) and the k=0 passes are exercised by the oracle, not proved here',
        'oracle tolerance: %g * Err_Tolerance * max(1,|v|) for k >= 1, exact equality at k = 0' % TOL_FACTOR,
    ]
    return out


def replay(path):
    obj = json.load(open(path))
    r = obj.get('replay') or {}
    if r.get('kind') != 'block':
        print('replay names a proof/correspondence obligation, nothing to execute:', json.dumps(obj)[:500])
        return 1
    fails, _ = oracle({'block': r['block'], 'vars': r['vars'], 'maxtime': r['maxtime'], 'tol': r['tol']})
    for f in fails:
        print('FAILS:', f['key'], f['what'][:600])
    print('replay: %s' % ('property violated' if fails else 'property holds on this input'))
    return common.replay_status(PID, fails)
