"""C20 — the generated stand-alone solver agrees with the in-process solver.

Proof: coq/Codegen/PropC20.v (no NameError on closed blocks, stop-test / own-lags / supplied-paths
theorem, series lengths, two-solver agreement over R, table header).
Correspondence: random equation blocks are given to IterativeMachineGenerator; the lists it holds after
ParseString are turned into the model's `block`; the module written by `.main(path)` (scratch directory
from tempfile.mkdtemp, outside /repo and /verif) is imported and run; AllVariables / NonLagged, every
series (bit-exact) or the exception class, and the CreateCsvString text must equal `run (gen b)`.
Oracle (implementation only): the generated module imports and runs; its rows, substituted back into
the block's own equations (lags from its own previous row, exogenous values from the supplied paths),
leave residuals within c*tol; its series equal EquationSolver's (no reduction) within the two
tolerances when the k=0 values of the lag sources are the same; the table header is `t` first and then
every non-lagged variable once.
"""
import ast
import importlib.util
import json
import math
import os
import shutil
import sys
import tempfile
import warnings

import common
from common import coq_string, coq_list, coq_float, coq_nat, coq_option

PID = 'C20'
FAMILY = 'Codegen'
PROPFILE = 'PropC20.v'
LEVEL = 'proof'
REQUIRES = ['From SFC.Base Require Import Res Expr.', 'From SFC.Codegen Require Import Gen CaseDefs.']

ENDO_POOL = ['x', 'y', 'z', 'w', 'u', 'v', 'C', 'Y', 'HH__F', 'GOV__T', 'BUS__PROF', 'alpha', 'a1', 'b_2', 'W', 'q', 'T']
EXO_POOL = ['G', 'R', 'Gbar', 'TAX', 'N0', 'K']
FUNCS = {'sqrt': math.sqrt, 'abs': abs, 'max': max, 'min': min, 'float': float}
NUMERIC = ('ZeroDiv', 'ValueError', 'OverflowError')
DOCSTRING_STRESS = ['# data from C:\\Users\\brian\\model.txt', '# the """best""" guess of the parameters',
                    '# written to output\\unittest_output_2.py', '# uses \\N{EN DASH} and \\x in the notes']


# ------------------------------------------------------------------------------------------------
# block generation (structured description -> text)

def fnum(rng, lo, hi, digits=3):
    x = round(rng.uniform(lo, hi), digits)
    s = repr(float(x))
    if rng.random() < 0.15 and s.startswith('0.'):
        s = s[1:]                      # '.5' style
    return s


def coef(rng, scale):
    """a positive float literal text and its sign"""
    mag = round(rng.uniform(0.05, 1.0) * scale, 4)
    if mag == 0.0:
        mag = 0.01
    return ('-' if rng.random() < 0.35 else '+'), repr(float(mag))


def gen_term(rng, var, scale, spice):
    sign, c = coef(rng, scale)
    r = rng.random()
    if not spice or r < 0.7:
        body = '%s*%s' % (c, var) if rng.random() < 0.85 else '%s * %s' % (var, c)
    elif r < 0.76:
        body = '%s*sqrt(abs(%s)+1.0)' % (c, var)
    elif r < 0.82:
        body = '%s*max(%s, %s)' % (c, var, fnum(rng, -1, 2))
    elif r < 0.88:
        body = '%s*min(%s, %s)' % (c, fnum(rng, 0, 5), var)
    elif r < 0.92:
        body = '%s*abs(%s)' % (c, var)
    elif r < 0.96:
        body = '%s/%s' % (var, rng.choice(['2', '4', '2.5', '10.0']))
    else:
        body = '%s*float(%s)' % (c, var)
    return sign, body


def join_terms(rng, terms):
    if not terms:
        return fnum(rng, -2, 5)
    out = ''
    for i, (sign, body) in enumerate(terms):
        if i == 0:
            out += ('-' if sign == '-' else ('+' if rng.random() < 0.05 else '')) + body
        else:
            sp = ' ' if rng.random() < 0.6 else ''
            out += sp + sign + sp + body
    return out


def gen_block(rng):
    kind = rng.choices(['contract', 'wild', 'malformed'], [70, 17, 13])[0]
    n = rng.choice([1, 2, 2, 3, 3, 4, 5])
    endo = rng.sample(ENDO_POOL, n)
    n_exo = rng.choice([0, 1, 1, 2])
    exo = rng.sample(EXO_POOL, n_exo)
    T = rng.choice([1, 2, 3, 4, 5, 6, 8]) if rng.random() < 0.88 else rng.choice([None, 0])
    Tn = T or 0
    case = {'kind': kind, 'endo': [], 'lags': [], 'exo': [], 'ics': [], 'maxtime': T, 'tol': None,
            'reduction': rng.random() < 0.2, 'lag_style': rng.choice(['k', 'k', 't'])}
    # constants (parameters): right-hand sides float() accepts
    consts = [v for v in endo if rng.random() < 0.2]
    # lags
    lags = []
    for src in rng.sample(endo + exo, min(len(endo + exo), rng.choice([0, 1, 1, 2, 3]))):
        if src in consts:
            continue
        lags.append(['LAG_' + src if rng.random() < 0.8 else 'L' + src.lower() + '1', src])
    # user time axis
    tstyle = rng.choices(['none', 'endo', 'tm1', 'exo', 'usesk'], [52, 20, 8, 10, 10])[0]
    case['tstyle'] = tstyle
    scale = (0.6 / n) if kind == 'contract' else 3.0
    spice = rng.random() < 0.35
    for v in endo:
        if v in consts:
            case['endo'].append([v, rng.choice([fnum(rng, 0, 2), '.5', '2.', '1e-1', '0.75', '-0.25', '3.0'])])
            continue
        terms = []
        pool_sim = [w for w in endo]
        for w in rng.sample(pool_sim, min(len(pool_sim), rng.choice([0, 1, 1, 2]))):
            if kind == 'contract' and w in consts:
                # parameter times variable (the classic alpha*Y form)
                others = [z for z in endo if z not in consts and z != v]
                if others:
                    terms.append((rng.choice('+-'), '%s*%s' % (w, rng.choice(others))))
                continue
            terms.append(gen_term(rng, w, scale, spice))
        for lv, src in lags:
            if rng.random() < 0.5:
                terms.append(gen_term(rng, lv, 0.9 if kind == 'contract' else 2.0, spice))
        for g in exo:
            if rng.random() < 0.5:
                terms.append(gen_term(rng, g, 1.0, False))
        if rng.random() < 0.6:
            terms.append((rng.choice('+-'), fnum(rng, 0.1, 5)))
        if rng.random() < 0.08:
            terms.append(('+', '%s*k' % fnum(rng, 0.1, 1)))
        if tstyle != 'none' and rng.random() < 0.08:
            terms.append(('+', '%s*t' % fnum(rng, 0.1, 1)))
        if kind == 'wild':
            r = rng.random()
            a, b = rng.choice(endo), rng.choice(endo)
            if r < 0.25:
                terms.append((rng.choice('+-'), '%s*%s' % (a, b)))
            elif r < 0.4:
                terms.append(('+', '%s/%s' % (fnum(rng, 0.5, 2), a)))
            elif r < 0.5:
                terms.append(('+', 'sqrt(%s)' % a))
            elif r < 0.6:
                terms.append(('+', '%s/(%s - %s)' % (a, b, fnum(rng, 0, 2, 0))))
            elif r < 0.65:
                terms.append(('+', '1e200*%s*%s' % (a, a)))
        rng.shuffle(terms)
        case['endo'].append([v, join_terms(rng, terms)])
    case['lags'] = lags
    nonconst = [v for v in endo if v not in consts]
    if kind == 'contract' and nonconst and rng.random() < 0.25:
        # a steep derived-only equation: nothing depends on it, so equation reduction sets it aside as decoration
        case['reduction'] = True
        case['endo'].append(['DSTEEP', '%s*%s' % (rng.choice(['1000.', '250.', '4000.']), rng.choice(nonconst))])
    for g in exo:
        r = rng.random()
        L = Tn + 1 + rng.choice([0, 0, 1, 5])
        if r < 0.45:
            txt = '[' + ', '.join(fnum(rng, -2, 20, 2) for _ in range(L)) + ']'
        elif r < 0.8:
            txt = '[%s, ] * %d' % (rng.choice(['20.', '1.5', '0.', '-3.25']), L)
        else:
            txt = '[%s] * 2 + [%s] * %d' % (fnum(rng, 0, 5, 1), fnum(rng, 0, 5, 1), max(L - 2, 0) + 1)
        case['exo'].append([g, txt])
    for v in endo:
        if rng.random() < 0.3:
            case['ics'].append([v, rng.choice([fnum(rng, -3, 30, 2), '100.', '1.5', '-2.0'])])
    if tstyle == 'endo':
        case['endo'].insert(rng.randint(0, len(case['endo'])), ['t', 'LAG_t + 1.0'])
        case['lags'].append(['LAG_t', 't'])
    elif tstyle == 'tm1':
        case['endo'].append(['t', 't_minus_1 + 1.0'])
        case['lags'].append(['t_minus_1', 't'])
    elif tstyle == 'exo':
        case['exo'].append(['t', '[%s]' % ', '.join(repr(2000.0 + 0.25 * i) for i in range(Tn + 2))])
    elif tstyle == 'usesk':
        case['endo'].append(['t', '2010.0 + 0.25*k'])
    if rng.random() < 0.5:
        case['tol'] = rng.choice(['1e-6', '.001', '1e-10', '1e-4', '1e-8', '0.5', '2'])
    if kind == 'contract' and rng.random() < 0.04 and case['lags']:
        # D20b: a lag of a lagged variable (the in-process solver supports it)
        lv, src = rng.choice(case['lags'])
        case['lags'].append(['LAG2_' + src, lv])
        if case['endo']:
            i = rng.randrange(len(case['endo']))
            if case['endo'][i][0] not in consts and case['endo'][i][0] != 't':
                case['endo'][i][1] += ' + 0.1*LAG2_' + src
    if kind == 'malformed':
        m = rng.choice(['undefined', 'duplicate', 'scalar_exo', 'short_exo', 'lag_undefined', 'new_prefix',
                        'empty_exo', 'lag_of_lagged', 'dup_exo_endo', 'lag_k'])
        case['malformation'] = m
        if m == 'undefined':
            i = rng.randrange(len(case['endo']))
            case['endo'][i][1] += ' + 0.5*undefined_var'
        elif m == 'duplicate':
            v, r = rng.choice(case['endo'])
            case['endo'].append([v, fnum(rng, 0, 3) if rng.random() < 0.5 else r + ' + 1.0'])
        elif m == 'scalar_exo':
            case['exo'].append(['S', '5.0'])
            case['endo'][0][1] += ' + 0.1*S'
        elif m == 'short_exo':
            case['exo'].append(['S', '[1., 2.]' if Tn >= 2 else '[]'])
            case['endo'][0][1] += ' + 0.1*S'
        elif m == 'lag_undefined':
            case['lags'].append(['LAG_nobody', 'nobody'])
            case['endo'][0][1] += ' + 0.1*LAG_nobody'
        elif m == 'new_prefix':
            v = rng.choice([e[0] for e in case['endo']])
            case['endo'].append(['NEW_' + v, fnum(rng, 1, 3)])
            case['endo'].insert(rng.randint(0, len(case['endo'])), ['p9', 'NEW_%s + 1.0' % v])
        elif m == 'empty_exo':
            case['exo'].append(['S', '[]'])
        elif m == 'lag_of_lagged' and case['lags']:
            lv, src = rng.choice(case['lags'])
            case['lags'].append(['LL_' + src, lv])
            case['endo'][0][1] += ' + 0.1*LL_' + src
        elif m == 'dup_exo_endo':
            case['exo'].append([case['endo'][0][0], '[1., 2., 3., 4., 5., 6., 7., 8., 9., 10.]'])
        elif m == 'lag_k':
            case['lags'].append(['LAG_k', 'k'])
            case['endo'][0][1] += ' + 0.1*LAG_k'
    case['text'] = render(rng, case)
    return case


def render(rng, case):
    lines = []
    if rng.random() < 0.3:
        lines.append('# system generated for the C20 check')
    body = []
    for v, r in case['endo']:
        sp = rng.choice([' = ', '=', ' =', '= '])
        body.append(v + sp + r + ('   # eq' if rng.random() < 0.1 else ''))
    rng.shuffle(body) if rng.random() < 0.0 else None      # order of equations is part of the case
    lag_lines = ['%s = %s(%s-1)' % (lv, src, case['lag_style']) for lv, src in case['lags']]
    ic_lines = ['%s(0) = %s' % (v, x) for v, x in case['ics']]
    extra = []
    if case['maxtime'] is not None:
        extra.append('MaxTime = %d' % case['maxtime'])
    if case['tol'] is not None:
        extra.append('Err_Tolerance = %s' % case['tol'])
    # equations keep their relative order; lags / ICs / settings are interleaved at random places
    rest = lag_lines + ic_lines + extra
    rng.shuffle(rest)
    merged = list(body)
    for ln in rest:
        merged.insert(rng.randint(0, len(merged)), ln)
    for ln in merged:
        lines.append(('    ' if rng.random() < 0.2 else '') + ln)
        if rng.random() < 0.1:
            lines.append('')
    if rng.random() < 0.06:
        # the block text is quoted in the generated module's docstring (D20d)
        lines.insert(rng.randint(0, len(lines)), rng.choice(DOCSTRING_STRESS))
    if case['exo'] or rng.random() < 0.3:
        lines.append(rng.choice(['exogenous', 'Exogenous', '# Exogenous Variables']))
        for g, txt in case['exo']:
            lines.append('%s = %s' % (g, txt))
        # settings may also sit in the exogenous section
    return '\n'.join(lines) + ('\n' if rng.random() < 0.5 else '')


# ------------------------------------------------------------------------------------------------
# implementation driver

_counter = [0]


def to_expr(node):
    """Python ast -> Coq term of type `expr float` (None when outside the modelled fragment)."""
    if isinstance(node, ast.Expression):
        return to_expr(node.body)
    if isinstance(node, ast.Constant) and type(node.value) in (int, float):
        if type(node.value) is int and abs(node.value) > 2 ** 53:
            return None
        return '(ENum %s)' % coq_float(float(node.value))
    if isinstance(node, ast.Name):
        return '(EVar %s)' % coq_string(node.id)
    if isinstance(node, ast.UnaryOp) and isinstance(node.op, (ast.USub, ast.UAdd)):
        a = to_expr(node.operand)
        return None if a is None else '(%s %s)' % ('ENeg' if isinstance(node.op, ast.USub) else 'EPos', a)
    if isinstance(node, ast.BinOp):
        ops = {ast.Add: 'EAdd', ast.Sub: 'ESub', ast.Mult: 'EMul', ast.Div: 'EDiv'}
        c = ops.get(type(node.op))
        a, b = to_expr(node.left), to_expr(node.right)
        return None if (c is None or a is None or b is None) else '(%s %s %s)' % (c, a, b)
    if isinstance(node, ast.Call) and isinstance(node.func, ast.Name) and not node.keywords:
        f = node.func.id
        args = [to_expr(a) for a in node.args]
        if any(a is None for a in args):
            return None
        if f in ('abs', 'sqrt', 'float') and len(args) == 1:
            return '(ECall1 %s %s)' % ({'abs': 'Fabs', 'sqrt': 'Fsqrt', 'float': 'Ffloat'}[f], args[0])
        if f in ('max', 'min') and len(args) == 2:
            return '(ECall2 %s %s %s)' % ('Fmax' if f == 'max' else 'Fmin', args[0], args[1])
    return None


def rhs_to_coq(text):
    try:
        return to_expr(ast.parse(text.strip(), mode='eval'))
    except SyntaxError:
        return None


def py_float_accepts(text):
    try:
        return float(text.strip())
    except ValueError:
        return None


def eval_const(text):
    return eval(text, dict(vars(math)))  # noqa: the value strings of our own generated blocks


def flist(vals):
    return coq_list([coq_float(x) for x in vals])


def block_to_coq(g):
    """The lists IterativeMachineGenerator holds after ParseString -> Coq `block` (None if outside the model)."""
    endo = []
    for name, eqn in g['Endogenous']:
        e = rhs_to_coq(eqn)
        if e is None:
            return None
        lit = py_float_accepts(eqn)
        endo.append('(%s, %s, %s)' % (coq_string(name), e, coq_option(None if lit is None else coq_float(lit))))
    lagged = ['(%s, %s)' % (coq_string(a), coq_string(b)) for a, b in g['Lagged']]
    exo = []
    for name, txt in g['Exogenous']:
        try:
            val = eval_const(txt)
        except Exception:  # noqa
            return None
        if type(val) is float:
            exo.append('(%s, ExScalar %s)' % (coq_string(name), coq_float(val)))
        elif type(val) is list and all(type(x) is float for x in val):
            exo.append('(%s, ExList %s)' % (coq_string(name), flist(val)))
        else:
            return None
    ics = []
    for name, txt in g['InitialConditions'].items():
        try:
            val = eval_const(txt)
        except Exception:  # noqa
            return None
        if type(val) not in (int, float):
            return None
        ics.append('(%s, %s)' % (coq_string(name), coq_float(float(val))))
    try:
        tol = float(eval_const(g['Err_Tolerance']))
        maxiter = int(g['MaxIterations'])
    except Exception:  # noqa
        return None
    if g['MaxTime'] < 0 or maxiter < 0 or maxiter > 2000:
        return None
    return '(mkBlock %s %s %s %s %s %s %s)' % (coq_list(endo), coq_list(lagged), coq_list(exo), coq_list(ics),
                                                coq_nat(g['MaxTime']), coq_float(tol), coq_nat(maxiter))


def run_generated(text, reduction):
    """Generate, import and run the stand-alone module.  Returns a dict:
    status 'rejected' (the parser / generator constructor refused the block) | 'ok' | 'err'."""
    from sfc_models.deprecated.iterative_machine_generator import IterativeMachineGenerator
    with warnings.catch_warnings():
        warnings.simplefilter('ignore')
        try:
            g = IterativeMachineGenerator(text, run_equation_reduction=reduction)
        except Exception as e:  # noqa
            return {'status': 'rejected', 'cls': common.exc_class(e), 'msg': str(e)[:200]}
    res = {'lists': {'Endogenous': [list(x) for x in g.Endogenous], 'Lagged': [list(x) for x in g.Lagged],
                     'Exogenous': [list(x) for x in g.Exogenous], 'InitialConditions': dict(g.InitialConditions),
                     'MaxTime': g.MaxTime, 'Err_Tolerance': g.Err_Tolerance, 'MaxIterations': g.MaxIterations}}
    _counter[0] += 1
    modname = 'sfc_c20_generated_%d_%d' % (os.getpid(), _counter[0])
    d = tempfile.mkdtemp(prefix='sfc_c20_')
    old_flag = sys.dont_write_bytecode
    sys.dont_write_bytecode = True
    obj = None
    try:
        with warnings.catch_warnings():
            warnings.simplefilter('ignore')
            try:
                path = os.path.join(d, modname + '.py')
                g.main(path)
                res['AllVariables'] = list(g.AllVariables)
                res['NonLagged'] = list(g.NonLagged)
                spec = importlib.util.spec_from_file_location(modname, path)
                mod = importlib.util.module_from_spec(spec)
                spec.loader.exec_module(mod)
                obj = mod.SFCModel()
                obj.main()
                res['status'] = 'ok'
            except Exception as e:  # noqa
                res['status'] = 'err'
                res['cls'] = common.exc_class(e)
                res['pycls'] = type(e).__name__
                res['msg'] = str(e)[:200]
                res.setdefault('AllVariables', list(g.AllVariables))
                res.setdefault('NonLagged', list(g.NonLagged))
        if res['status'] == 'ok':
            vl = list(obj.VariableList)
            res['VariableList'] = vl
            res['series'] = {}
            res['cells'] = {}
            bad = False
            for v in vl:
                vals = getattr(obj, v)
                if not all(type(x) in (int, float) for x in vals):
                    bad = True
                res['series'][v] = [float(x) for x in vals]
                res['cells'][v] = [str(x) for x in vals]
            res['nonfloat'] = bad
            try:
                res['csv1'] = obj.CreateCsvString()
                res['csv2'] = obj.CreateCsvString()
            except Exception as e:  # noqa
                res['csv_err'] = common.exc_class(e)
    finally:
        sys.dont_write_bytecode = old_flag
        sys.modules.pop(modname, None)
        shutil.rmtree(d, ignore_errors=True)
    return res


def run_inprocess(text):
    from sfc_models.equation_solver import EquationSolver
    with warnings.catch_warnings():
        warnings.simplefilter('ignore')
        try:
            es = EquationSolver(text, run_equation_reduction=False)
            es.SolveEquation()
            return {'status': 'ok', 'series': {k: [float(x) for x in v] for k, v in es.TimeSeries.items()},
                    'tol': float(es.Parser.Err_Tolerance)}
        except Exception as e:  # noqa
            return {'status': 'err', 'cls': common.exc_class(e), 'msg': str(e)[:200]}


# ------------------------------------------------------------------------------------------------
# oracle (implementation only; the block's equations come from the structured description)

def names_of(text):
    try:
        tree = ast.parse(text.strip(), mode='eval')
    except SyntaxError:
        return None
    out = []
    for nd in ast.walk(tree):
        if isinstance(nd, ast.Name) and nd.id not in FUNCS:
            out.append(nd.id)
    return out


def analyse(case):
    """Structural reading of the block in the equation language (k is the built-in step number, t the
    default time axis).  `wf` = the block is one the property speaks about: every name is defined once,
    lag sources are stored variables, exogenous values are lists covering 0..MaxTime."""
    T = case['maxtime'] or 0
    endo = [v for v, _ in case['endo']]
    lagn = [v for v, _ in case['lags']]
    exon = [v for v, _ in case['exo']]
    user_t = any(v in ('t', 't_minus_1') for v in endo + lagn + exon)
    eqs = [(v, r) for v, r in case['endo']]
    if not user_t:
        endo = endo + ['t']
        eqs = eqs + [('t', 'k')]
    reasons = []
    allv = endo + lagn + exon
    if len(set(allv)) != len(allv):
        reasons.append('duplicate')
    if any(v.startswith('NEW_') for v in allv):
        reasons.append('reserved-prefix')
    defined = set(allv) | {'k'}
    for v, r in eqs:
        ns = names_of(r)
        if ns is None or any(nm not in defined for nm in ns):
            reasons.append('undefined-name')
            break
    lag_of_lagged = False
    for lv, src in case['lags']:
        if src in lagn:
            lag_of_lagged = True
        elif src not in set(endo + exon) | {'k'}:
            reasons.append('lag-of-undefined')
    paths = {}
    for g, txt in case['exo']:
        try:
            val = eval_const(txt)
        except Exception:  # noqa
            reasons.append('exo-unparsable')
            continue
        if type(val) is not list:
            reasons.append('exo-not-a-list')
        elif len(val) < T + 1:
            reasons.append('exo-too-short')
        else:
            paths[g] = [float(x) for x in val]
    paths.setdefault('k', [float(i) for i in range(T + 1)])
    return {'T': T, 'endo': endo, 'eqs': eqs, 'lags': case['lags'], 'exo': exon, 'user_t': user_t,
            'wf': not reasons, 'reasons': reasons, 'lag_of_lagged': lag_of_lagged, 'paths': paths}


def F_eval(an, codes, envbase, xs):
    env = dict(envbase)
    for (v, _), x in zip(an['eqs'], xs):
        env[v] = x
    out = []
    for (v, _), c in zip(an['eqs'], codes):
        out.append(float(eval(c, FUNCS, env)))  # noqa
    return out


def jacobians(an, codes, envbase, xs, lagvals):
    """numeric |dF_i/dx_j| (endogenous) and |dF_i/dlag_j| at the point, one-sided maxima"""
    n = len(xs)

    def col(setter, x0):
        h = 1e-6 * (1.0 + abs(x0))
        cols = []
        f0 = F_eval(an, codes, envbase, xs)
        for sgn in (1.0, -1.0):
            try:
                fi = setter(x0 + sgn * h)
                cols.append([abs(a - b) / h for a, b in zip(fi, f0)])
            except Exception:  # noqa
                cols.append([float('inf')] * n)
        return [max(a, b) for a, b in zip(*cols)]
    Je = []
    for j in range(n):
        def setter(val, j=j):
            ys = list(xs)
            ys[j] = val
            return F_eval(an, codes, envbase, ys)
        Je.append(col(setter, xs[j]))
    Jl = []
    for lv, x0 in lagvals:
        def setter(val, lv=lv):
            e2 = dict(envbase)
            e2[lv] = val
            return F_eval(an, codes, e2, xs)
        Jl.append((lv, col(setter, x0)))
    return Je, Jl


def oracle(case, gen, inp):
    """Returns (failures, facts).  gen: run_generated result; inp: run_inprocess result."""
    fails = []
    facts = {}
    an = analyse(case)
    facts['wf'] = an['wf']
    replay = {'kind': 'block', 'case': case}

    def fail(key, what):
        fails.append({'key': key, 'what': what + ' | block: ' + case['text'].replace('\n', '; ')[:600], 'replay': replay})
    if gen['status'] == 'rejected':
        facts['rejected'] = True
        return fails, facts
    T = an['T']
    if gen['status'] == 'err':
        cls, pycls, msg = gen['cls'], gen.get('pycls', ''), gen.get('msg', '')
        facts['gen_error'] = cls
        if cls in NUMERIC:
            # divergence, no convergence within the cap, division by zero / domain error in a sweep: the plain
            # Jacobi iteration of this block is not defined / does not converge; nothing to agree with
            facts['numeric_error'] = True
            facts['numeric_error_inprocess_ok'] = inp['status'] == 'ok'
            return fails, facts
        if cls == 'NameError' and "'k'" in msg and not an['user_t']:
            fail('generated:NameError-k-undefined',
                 "generated module raised NameError(%s): the parser's default time axis 't = k' needs k" % msg)
        elif pycls == 'SyntaxError' and an['wf'] and ('\\' in case['text'] or '"""' in case['text']):
            fail('generated:SyntaxError-block-text-in-docstring',
                 'generated module does not import: %s(%s); the block text (a comment with a backslash or triple quotes) '
                 'is pasted into a non-raw docstring' % (pycls, msg))
        elif pycls == 'AttributeError' and an['lag_of_lagged'] and an['wf']:
            fail('generated:AttributeError-lag-of-lagged',
                 'generated module raised AttributeError(%s): a lagged variable is the source of another lag; '
                 'lagged variables are not stored by the generated module' % msg)
        elif an['wf']:
            fail('generated:import-or-run-error', 'generated module failed with %s(%s) on a well-formed block' % (pycls, msg))
        return fails, facts
    # ---- the module ran
    series = gen['series']
    vl = gen['VariableList']
    # table
    if not an['wf']:
        return fails, facts
    if 'csv_err' in gen:
        fail('generated:table-header', 'CreateCsvString raised ' + gen['csv_err'])
    else:
        rows = gen['csv1'].split('\n')
        hdr = rows[0].split('\t')
        expect = [v for v in an['endo'] + an['exo']]
        extra_k = [] if 'k' in expect else ['k']
        ok = sorted(hdr) == sorted(expect) or sorted(hdr) == sorted(expect + extra_k)
        if an['wf'] and len(set(hdr)) != len(hdr):
            ok = False
        if 't' in expect and hdr[0] != 't':
            ok = False
        if an['wf'] and not ok:
            fail('generated:table-header', 'header %r; non-lagged variables of the block are %r (time axis first)' % (hdr, expect))
        elif an['wf'] and (len(rows) != T + 3 or rows[-1] != ''):
            fail('generated:table-header', 'table has %d lines for MaxTime=%d' % (len(rows), T))
        elif an['wf']:
            for ridx in (1, len(rows) - 2):
                cells = rows[ridx].split('\t')
                want = [gen['cells'][v][ridx - 1] for v in hdr]
                if cells != want:
                    fail('generated:table-header', 'row %d of the table is %r, the series hold %r' % (ridx - 1, cells, want))
                    break
        if gen['csv1'] != gen.get('csv2'):
            fail('generated:table-header', 'CreateCsvString is not repeatable')
    # lengths and finiteness
    for v in an['endo'] + an['exo']:
        if v not in series or len(series[v]) != T + 1:
            fail('generated:equation-not-satisfied', 'series %s has %s points, MaxTime=%d' % (v, len(series.get(v, [])), T))
            return fails, facts
    nonfinite = [v for v in an['endo'] if not all(math.isfinite(x) for x in series[v][1:])]
    if nonfinite:
        fail('generated:non-finite-values-reported',
             'the run ended without error but %s holds %r' % (nonfinite[0], series[nonfinite[0]]))
        return fails, facts
    for g in an['exo']:
        if series[g] != an['paths'][g][:T + 1]:
            fail('generated:equation-not-satisfied', 'exogenous %s reported as %r, supplied %r' % (g, series[g], an['paths'][g][:T + 1]))
            return fails, facts
    if T == 0:
        facts['no_steps'] = True
        return fails, facts
    tol_g = float(eval_const(case['tol'])) if case['tol'] is not None else 1e-8
    if not (tol_g < 1.0):
        # the loop starts from err = 1. (as the in-process solver's does): with a tolerance >= 1 no sweep is
        # made at all and "within the stated tolerance" says nothing
        facts['tolerance_ge_1'] = True
        return fails, facts
    codes = [compile(r.strip(), '<rhs>', 'eval') for _, r in an['eqs']]
    bounds_ok = True
    E_prev = 0.0
    worst = 0.0
    compared = inp['status'] == 'ok'
    if compared:
        for lv, src in an['lags']:
            if src in inp['series'] and src in series and inp['series'][src][0] != series[src][0]:
                compared = False
                facts['k0_differs'] = True
                break
    facts['inprocess_status'] = inp['status'] if inp['status'] == 'ok' else inp.get('cls')
    for k in range(1, T + 1):
        envbase = {}
        lagvals = []
        for lv, src in an['lags']:
            val = series[src][k - 1] if src in series else an['paths'][src][k - 1]
            envbase[lv] = val
            if src in an['endo']:
                lagvals.append((lv, val))
        for g in an['exo']:
            envbase[g] = an['paths'][g][k]
        envbase['k'] = an['paths']['k'][k]
        xs = [series[v][k] for v, _ in an['eqs']]
        try:
            fx = F_eval(an, codes, envbase, xs)
            Je, Jl = jacobians(an, codes, envbase, xs, lagvals)
        except Exception as e:  # noqa
            fail('generated:equation-not-satisfied', 'period %d: substituting the reported row raises %s' % (k, type(e).__name__))
            return fails, facts
        lip = sum(sum(c) for c in Je)
        scale = 1.0 + sum(abs(x) for x in xs) + sum(abs(v) for v in envbase.values())
        c = 4.0 * (1.0 + lip)
        slack = c * tol_g + 1e-11 * scale * (1.0 + lip)
        res = [abs(a - b) for a, b in zip(fx, xs)]
        if not (sum(res) <= slack):
            i = max(range(len(res)), key=lambda j: res[j] if res[j] == res[j] else float('inf'))
            fail('generated:equation-not-satisfied',
                 'period %d: %s = %r but its equation gives %r on the same row (sum of residuals %.3g, allowed %.3g = c*tol, c=%.3g)'
                 % (k, an['eqs'][i][0], xs[i], fx[i], sum(res), slack, c))
            return fails, facts
        worst = max(worst, sum(res) / slack if slack > 0 else 0.0)
        if compared:
            q = max(sum(Je[j][i] for i in range(len(xs))) for j in range(len(xs))) if xs else 0.0   # column sums: Je[j] is d F / d x_j
            q = 1.2 * q + 0.01
            ell = sum(sum(cj) for _, cj in Jl)
            b = [inp['series'][v][k] if v in inp['series'] and len(inp['series'][v]) > k else None for v, _ in an['eqs']]
            if any(x is None for x in b) or q >= 0.9:
                bounds_ok = False
                facts['not_contractive'] = True
                compared = False
                continue
            S = sum(max(1.0, abs(x), abs(y)) for x, y in zip(xs, b))
            tol_i = inp['tol']
            E = (q * tol_g + tol_i * S + 1.2 * ell * E_prev + 1e-11 * scale) / (1.0 - q)
            allowed = 2.0 * E
            if allowed > 1e-2 * scale:
                compared = False
                facts['bound_too_loose'] = True
                continue
            dist = sum(abs(x - y) for x, y in zip(xs, b))
            if not (dist <= allowed):
                i = max(range(len(xs)), key=lambda j: abs(xs[j] - b[j]))
                fail('generated:differs-from-inprocess',
                     'period %d: generated %s = %r, in-process solver %r (1-norm distance %.3g, allowed %.3g; q=%.3g)'
                     % (k, an['eqs'][i][0], xs[i], b[i], dist, allowed, q))
                return fails, facts
            E_prev = E
    facts['substituted'] = True
    facts['compared_with_inprocess'] = compared and bounds_ok
    facts['worst_residual_ratio'] = worst
    return fails, facts


# ------------------------------------------------------------------------------------------------
# Coq emission

def emit(gen):
    blk = block_to_coq(gen['lists'])
    if blk is None:
        return None
    sl = lambda xs: coq_list([coq_string(x) for x in xs])  # noqa
    if gen['status'] == 'err' and gen.get('pycls') == 'SyntaxError':
        return None            # the text of the module is not modelled
    if gen['status'] == 'ok':
        if gen.get('nonfloat'):
            return None
        exp = 'Ok %s' % coq_list([flist(gen['series'][v]) for v in gen['VariableList']])
        if 'csv1' in gen:
            cells = coq_list(['(%s, %s)' % (coq_string(v), coq_list([coq_string(c) for c in gen['cells'][v]]))
                              for v in dict.fromkeys(gen['VariableList'])])
            table = '(Some (%s, %s))' % (cells, coq_string(gen['csv1']))
        else:
            table = 'None'
    else:
        exp = 'Err %s' % gen['cls']
        table = 'None'
    return 'c20_case %s %s %s (%s) %s' % (blk, sl(gen['AllVariables']), sl(gen['NonLagged']), exp, table)


# ------------------------------------------------------------------------------------------------
# entry points

FIXED = [
    # DESIGN.md section 7, D20
    {'kind': 'fixed', 'endo': [['x', '0.5*LAG_x+G']], 'lags': [['LAG_x', 'x']], 'exo': [['G', '[1.,2.,3.,4.]']], 'ics': [],
     'maxtime': 3, 'tol': None, 'reduction': False, 'tstyle': 'none',
     'text': 'x=0.5*LAG_x+G\nLAG_x=x(k-1)\nexogenous\nG=[1.,2.,3.,4.]\nMaxTime=3'},
    # the block of the generator's own end-to-end test (test_main)
    {'kind': 'fixed', 'endo': [['x', 'y'], ['y', 't + 2.0'], ['z', 'LAG_x + 1.0']], 'lags': [['LAG_x', 'x']],
     'exo': [['G', '[20., ] * 20']], 'ics': [], 'maxtime': 4, 'tol': None, 'reduction': False, 'tstyle': 'none',
     'text': '\n# Test system used in unit tests.\nx = y\nLAG_x = x(t-1)\ny = t + 2.0\nz = LAG_x + 1.0\nMaxTime = 4\n# Exogenous\nG = [20., ] * 20\n        '},
    # user-defined time axis, initial condition, constant parameter
    {'kind': 'fixed', 'endo': [['alpha', '.5'], ['x', 'alpha*y + 1.0'], ['y', '0.25*x + 0.5*LAG_y'], ['t', 'LAG_t + 1.0']],
     'lags': [['LAG_y', 'y'], ['LAG_t', 't']], 'exo': [], 'ics': [['y', '8.']], 'maxtime': 5, 'tol': '1e-6',
     'reduction': False, 'tstyle': 'endo',
     'text': 'alpha = .5\nx = alpha*y + 1.0\ny = 0.25*x + 0.5*LAG_y\nLAG_y = y(k-1)\ny(0) = 8.\nt = LAG_t + 1.0\nLAG_t = t(k-1)\nMaxTime = 5\nErr_Tolerance = 1e-6'},
    # D20c: overflow, the error sum becomes NaN
    {'kind': 'fixed', 'endo': [['x', 'x*x + 2.0'], ['t', 'LAG_t + 1.0']], 'lags': [['LAG_t', 't']], 'exo': [], 'ics': [],
     'maxtime': 2, 'tol': None, 'reduction': False, 'tstyle': 'endo',
     'text': 'x = x*x + 2.0\nt = LAG_t + 1.0\nLAG_t = t(k-1)\nMaxTime = 2'},
    # D20d: comments with a backslash / triple quotes end up in the module docstring
    {'kind': 'fixed', 'endo': [['x', '0.5*x + 1.0']], 'lags': [], 'exo': [], 'ics': [], 'maxtime': 2, 'tol': None,
     'reduction': False, 'tstyle': 'none',
     'text': '# data from C:\\Users\\brian\\model.txt\n# the """best""" guess\nx = 0.5*x + 1.0\nMaxTime = 2'},
    # no MaxTime line: main() makes no step
    {'kind': 'fixed', 'endo': [['x', '0.5*x + 1.0']], 'lags': [], 'exo': [], 'ics': [], 'maxtime': None, 'tol': None,
     'reduction': False, 'tstyle': 'none', 'text': 'x = 0.5*x + 1.0'},
]


def process(case):
    gen = run_generated(case['text'], case.get('reduction', False))
    inp = run_inprocess(case['text']) if gen['status'] != 'rejected' else {'status': 'err', 'cls': 'rejected'}
    fails, facts = oracle(case, gen, inp)
    return gen, inp, fails, facts


def run(ctx):
    out = common.Outcome()
    out.proof = common.proof_status(FAMILY, PROPFILE)
    n = ctx.scale(700, 18000)
    cases = [dict(c) for c in FIXED] + [gen_block(ctx.rng) for _ in range(n)]
    coq_cases, metas, seen = [], [], set()
    stats = {'contract': 0, 'wild': 0, 'malformed': 0, 'fixed': 0, 'docstring_stress_comments': 0, 'rejected_by_parser': 0, 'outside_model_fragment': 0,
             'ran_ok': 0, 'run_error': {}, 'user_time_axis': 0, 'default_time_axis': 0, 'with_lags': 0, 'with_ic': 0,
             'with_exogenous': 0, 'with_constants': 0, 'with_decoration': 0, 'reduction': 0, 'no_steps': 0,
             'substituted_back': 0, 'compared_with_inprocess': 0, 'skipped_k0_differs': 0, 'skipped_not_contractive': 0,
             'skipped_inprocess_failed': 0, 'skipped_bound_too_loose': 0, 'numeric_error_but_inprocess_ok': 0,
             'not_wellformed': 0, 'tolerance_ge_1': 0}
    for case in cases:
        gen, inp, fails, facts = process(case)
        out.failures.extend(fails)
        stats[case['kind']] += 1
        stats['docstring_stress_comments'] += 1 if ('\\' in case['text'] or '"""' in case['text']) else 0
        if gen['status'] == 'rejected':
            stats['rejected_by_parser'] += 1
            continue
        term = emit(gen)
        if term is None:
            stats['outside_model_fragment'] += 1
        else:
            coq_cases.append(term)
            metas.append({'text': case['text'], 'reduction': case.get('reduction', False),
                          'impl': gen['status'] if gen['status'] == 'ok' else gen['cls']})
        an_user_t = case.get('tstyle', 'none') != 'none'
        stats['user_time_axis' if an_user_t else 'default_time_axis'] += 1
        stats['with_lags'] += 1 if case['lags'] else 0
        stats['with_ic'] += 1 if case['ics'] else 0
        stats['with_exogenous'] += 1 if case['exo'] else 0
        stats['with_constants'] += 1 if any(py_float_accepts(r) is not None for _, r in case['endo']) else 0
        stats['reduction'] += 1 if case.get('reduction') else 0
        stats['with_decoration'] += 1 if case.get('reduction') and [x[0] for x in gen['lists']['Endogenous']] != \
            [v for v, _ in case['endo']] + ([] if an_user_t else ['t']) else 0
        if gen['status'] == 'ok':
            stats['ran_ok'] += 1
        else:
            stats['run_error'][gen['cls']] = stats['run_error'].get(gen['cls'], 0) + 1
        stats['no_steps'] += 1 if facts.get('no_steps') else 0
        stats['tolerance_ge_1'] += 1 if facts.get('tolerance_ge_1') else 0
        stats['not_wellformed'] += 0 if facts.get('wf') else 1
        stats['substituted_back'] += 1 if facts.get('substituted') else 0
        stats['compared_with_inprocess'] += 1 if facts.get('compared_with_inprocess') else 0
        stats['skipped_k0_differs'] += 1 if facts.get('k0_differs') else 0
        stats['skipped_not_contractive'] += 1 if facts.get('not_contractive') else 0
        stats['skipped_bound_too_loose'] += 1 if facts.get('bound_too_loose') else 0
        if facts.get('substituted') and facts.get('inprocess_status') != 'ok':
            stats['skipped_inprocess_failed'] += 1
        stats['numeric_error_but_inprocess_ok'] += 1 if facts.get('numeric_error_inprocess_ok') else 0
        if facts.get('substituted') and (case['lags'] or case['exo']):
            seen.add(case['text'])
    bad, errs = common.run_bool_cases(FAMILY, REQUIRES, coq_cases, tag=PID, shard=120)
    out.corr_errors = errs
    for i in bad[:20]:
        out.disagreements.append({'input': metas[i], 'case': coq_cases[i][:1500]})
    out.evaluations = len(coq_cases)
    out.nontrivial = len(seen)
    out.rule = ('random equation blocks rendered from a structured description: 1-5 endogenous equations (linear '
                'contraction with sqrt/abs/max/min/float/division spice, or wild coefficients with products and divisions by '
                'variables), 0-3 lagged variables of endogenous or exogenous sources, 0-2 exogenous lists, initial conditions, '
                'constant parameters, default time axis or a user t (endogenous with lag, t_minus_1, exogenous list, function '
                'of k), explicit use of k, MaxTime 0-8 or absent, several Err_Tolerance values, generator run with and without '
                'equation reduction (decorative variables), plus a malformed stream (undefined names, duplicate definitions, '
                'bare-float or too-short exogenous values, lags of lagged/undefined variables, NEW_ names); every block is '
                'generated, imported and run; non-trivial = the module ran >= 1 step on a well-formed block with a lag or an '
                'exogenous path and its rows were substituted back; distinct by block text')
    out.samples = [{'text': c['text'], 'reduction': c.get('reduction', False)} for c in (cases[0], cases[len(FIXED)], cases[-1])]
    out.extra = {'input_distribution': stats, 'source_hashes': common.source_hashes(
        ['sfc_models/deprecated/iterative_machine_generator.py', 'sfc_models/base_solver.py', 'sfc_models/equation_parser.py',
         'sfc_models/equation_solver.py'])}
    axioms = sorted({a for v in (out.proof.get('assumptions') or {}).values() if v for a in v})
    out.trusted_base = ['Coq 8.16.1 kernel + vm_compute (primitive floats)',
                        'hand-written model coq/Codegen/Gen.v (tied to the executed generated module by this correspondence)',
                        'coq/Base/Expr.v evalF (IEEE doubles with Python exceptions) and the Python-ast -> expr conversion in harness/c20.py',
                        "Python's float()/eval of literals, exogenous value strings and initial conditions (pre-evaluated by the harness)",
                        "Python's str() of a cell (CreateCsvString)",
                        'the text templating of GenerateFile is not modelled: the emitted module is executed'] + \
                       (['standard-library axioms in Print Assumptions: ' + ', '.join(axioms)] if axioms else
                        ['no axioms in the float theorems'])
    out.assumptions = ['numeric literals, initial conditions and exogenous lists are floats (integer literals appear only next to a '
                       'float operand), so every value in the generated module is a float',
                       'free names of equations are not Python builtins / math names / locals of the template; variable names do '
                       'not collide with attributes of the generated class (STEP, MaxTime, ...)',
                       'oracle: arithmetic failures of the plain Jacobi iteration (No Convergence!, ZeroDivisionError, math domain '
                       'error) are not counted as violations; they are counted in input_distribution',
                       'oracle: the comparison with EquationSolver needs equal k=0 values of the lag sources and a numerically '
                       'estimated 1-norm contraction factor < 0.9; skipped blocks are counted',
                       'C20_agrees is proved over the reals (exact arithmetic), for any interpretation of the literals']
    return out


def replay(path):
    common.use_impl()
    obj = json.load(open(path))
    r = obj.get('replay') or {}
    if r.get('kind') != 'block':
        print('replay names a proof/correspondence obligation, nothing to execute:', json.dumps(obj)[:500])
        return 1
    case = r['case']
    gen, inp, fails, facts = process(case)
    print('block:\n' + case['text'])
    print('generated module: %s %s' % (gen['status'], gen.get('pycls', '') + ' ' + gen.get('msg', '') if gen['status'] != 'ok' else
                                       json.dumps(gen.get('series'))[:400]))
    for f in fails:
        print('FAILS:', f['key'], f['what'][:400])
    print('replay: %s' % ('property violated' if fails else 'property holds on this input'))
    return common.replay_status(PID, fails)
