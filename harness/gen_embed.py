"""C18, embedding half, at program level: economies declared together in one model follow the series they follow alone
(coq/GenEmbed).

Integration (the lead adds it to harness/c18.py):

    import gen_embed
    ... proof_status_many([(FAMILY, PROPFILE)] + gen_embed.PROOFS)
    gen_embed.extra(ctx, out)           # appends evaluations / nontrivial / disagreements / corr_errors / trusted_base,
                                        # out.extra['embed_model']
    if (obj.get('replay') or {}).get('kind') == 'embed_model': return gen_embed.replay(obj)

Proof: coq/GenEmbed/PropEmbed.v — for ALL lists ps of single-currency programs (single-country or federated) and every
position of an unused ExternalSector,  embed_ok ps ext = true  and  build p_i = Ok E_i for all i  imply
build2 (joint ps ext) = Ok E  where E is the disjoint union, block by block, of the E_i under the documented country
prefix and the shift of creation indices (plus the ExternalSector's own block), and the semantic corollaries.
Tie to the code, on every run, for economies generated the way harness/c18.py part (ii) generates them (its generator is
imported) plus damaged variants:
  (a) `joint` applied to the rendered stand-alone programs equals, step by step, the rendering of the joint Python program
      the harness builds (the theorem's joint program is the embedding users perform);
  (b) the model's output on the theorem's joint program equals the IMPLEMENTATION's outcome on the joint Python program,
      and the model's output on each component equals the implementation's outcome on the stand-alone Python program
      (whole-program correspondences of gen_main / gen_main2);
  (c) embed_ok is evaluated (distribution reported) and, whenever every component builds, the block / prefix relation
      between the model outputs is evaluated (a failure with embed_ok = true is a disagreement).
"""
import copy
import json
import random

import common
from common import coq_string, coq_list, coq_nat, coq_bool, coq_option
import gen_common
import gen_main
import gen_main2
import gen_rename
import c18

PROOFS = [('GenEmbed', 'PropEmbed.v')]
FAMILY = 'GenEmbed'
REQUIRES = ['From SFC.Base Require Import Res Str.', 'From SFC.Gen Require Import Fx Zone.',
            'From SFC.GenMain2 Require Import Program Classes Main CaseDefs Program2 Main2 CaseDefs2.',
            'From SFC.GenEmbed Require Import EmbDefs JointDefs Joint.']

OutOfLanguage = gen_main.OutOfLanguage


def squeeze_prog(prog):
    """The same program with every expression text stored the way Term(..., is_blob=True) stores it (no blanks)."""
    p = copy.deepcopy({'maxtime': prog['maxtime'], 'steps': prog['steps'], 'shape': prog.get('shape')})
    return p


def ext_position(singles, joint):
    """None, or the number of economies declared before the ExternalSector in the joint program."""
    firsts = [[st['id'] for st in p['steps'] if st['kind'] == 'country'][0] for p in singles]
    seen = 0
    for st in joint['steps']:
        if st['kind'] == 'external':
            return seen
        if st['kind'] == 'country' and st['id'] in firsts:
            seen += 1
    return None


def names_of(prog):
    try:
        return gen_main.final_names(prog)
    except OutOfLanguage:
        raise
    except Exception:
        return gen_main.static_names(prog)


def names2_of(prog):
    try:
        return gen_main2.final_names2(prog)
    except Exception:
        return gen_main2.static_names2(prog)


def coq_ext(k):
    return 'None' if k is None else '(Some %s)' % coq_nat(k)


def gen_cases(ctx, n):
    out = []
    for i in range(n):
        seed = ctx.rng.randrange(10 ** 9)
        singles, joint, codes, with_ext = c18.embed_case(ctx.rng, seed)
        out.append((singles, joint, codes, 'plain'))
    return out


TRUSTED = [
    'GenEmbed: theorems about the hand-written pipeline models coq/GenMain2 Main.v (`build`) and Main2.v (`build2`), tied to the '
    'code by the whole-program correspondences of harness/gen_main.py / gen_main2.py, run here on every stand-alone economy and on '
    'the joint program; that the theorem\'s `joint` is the program a user writes is checked step by step against the rendering of '
    'the joint Python program built by harness/c18.py embed_case; expression texts enter the model with blanks removed (as '
    'Term(..., is_blob=True) stores them)',
]
ASSUMPTIONS = []


def extra(ctx, out, quick_n=24, thorough_n=300):
    n = ctx.scale(quick_n, thorough_n)
    dist = {'cases': 0, 'economies': 0, 'with_external': 0, 'federated': 0, 'out_of_language': 0, 'labels': {}}
    jcases, ecases, wcases, ccases, metas, cmetas = [], [], [], [], [], []
    distinct = set()
    for singles, joint, codes, label in gen_cases(ctx, n):
        try:
            cps = [gen_rename.render_program_sq(p, names_of(p)) for p in singles]
            cj = gen_rename.render_program2_sq(joint, names2_of(joint))
            raw = [gen_main.render_program(p, names_of(p)) for p in singles]
            rawj = gen_main2.render_program2(joint, names2_of(joint))
        except (OutOfLanguage, KeyError):
            dist['out_of_language'] += 1
            continue
        k = ext_position(singles, joint)
        ps = coq_list(cps)
        ext = coq_ext(k)
        resj = gen_main.run_impl(joint)
        jcases.append('joint_case %s %s %s' % (ps, ext, cj))
        ecases.append('embed_case %s %s' % (ps, ext))
        wcases.append('embed_why %s %s' % (ps, ext))
        # the implementation on the joint Python program against the model on the theorem's joint program
        ccases.append('main2_case (joint %s %s) %s' % (ps, ext, gen_rename.expected(resj)))
        cmetas.append({'kind': 'embed_model', 'what': 'joint', 'singles': [gen_common.strip_prog(p) for p in singles],
                       'joint': gen_common.strip_prog(joint), 'codes': codes})
        ccases.append(gen_main2.emit_case(rawj, resj))
        cmetas.append(cmetas[-1])
        for p, r in zip(singles, raw):
            ccases.append(gen_main.emit_case(r, gen_main.run_impl(p)))
            cmetas.append({'kind': 'embed_model', 'what': 'component', 'singles': [gen_common.strip_prog(p)], 'joint': None, 'codes': codes})
        metas.append({'kind': 'embed_model', 'singles': [gen_common.strip_prog(p) for p in singles], 'joint': gen_common.strip_prog(joint),
                      'codes': codes, 'ext': k})
        dist['cases'] += 1
        dist['economies'] += len(singles)
        dist['with_external'] += 1 if k is not None else 0
        dist['federated'] += sum(1 for p in singles if p.get('shape') == 'federated')
        dist['labels'][label] = dist['labels'].get(label, 0) + 1
        distinct.add(json.dumps([resj], sort_keys=True, default=str))
    for title, cases, ms in (('joint_case (the theorem\'s joint program = the rendered joint Python program)', jcases, metas),
                            ('embed_case (block / prefix relation between the model outputs)', ecases, metas),
                            ('whole-program correspondence (model = implementation)', ccases, cmetas)):
        bad, errs = common.run_bool_cases(FAMILY, REQUIRES, cases, tag='emb' + ctx.pid, shard=6)
        out.corr_errors.extend(errs)
        for i in bad[:10]:
            out.disagreements.append({'embed_model': ms[i], 'obligation': title, 'coq': cases[i][:3000]})
        dist.setdefault('failed', {})[title.split(' ')[0]] = len(bad)
    out.evaluations += len(jcases) + len(ecases) + len(ccases)
    out.nontrivial += len(distinct)
    out.extra['embed_model'] = dist
    out.trusted_base = list(out.trusted_base or []) + TRUSTED
    out.assumptions = list(out.assumptions or []) + ASSUMPTIONS
    if metas:
        out.samples.append({'embed_model': {'codes': metas[0]['codes'], 'ext': metas[0]['ext']}})
    return out


def replay(obj):
    """`obj`: the loaded replay file or the inner {'kind': 'embed_model', 'singles': ..., 'joint': ..., 'codes': ...}.
    Runs the implementation only: builds every stand-alone economy and the joint model, solves them and applies the oracle
    of C18 (same series under the country prefix).  Returns 1 if the property is violated on this input."""
    r = obj.get('replay', obj) or {}
    if r.get('kind') != 'embed_model':
        return 0
    if not r.get('joint'):
        for p in r['singles']:
            res = gen_main.run_impl(p)
            print('component: %s' % (('raises ' + res[1]) if res[0] == 'err' else '%d rows' % (len(res[1]) + len(res[2]) + len(res[3]))))
        print('replay: property holds on this input (no joint program)')
        return 0
    return c18.replay_embed(r) if hasattr(c18, 'replay_embed') else _replay_embed(r)


def _replay_embed(r):
    import gen_checks as GC
    why = None
    tsj = GC.solve(r['joint'])
    for p, cc in zip(r['singles'], r['codes']):
        a = GC.analyse(p)
        ts1, _, _ = GC.solve(p)
        if ts1 is not None and tsj[0] is not None:
            why = why or c18.series_equal_under(ts1, tsj[0], c18.embed_map(a, cc), set(['t', 'k']))
        elif ts1 is not None and tsj[0] is None and common.exc_class(tsj[1]) != 'ConvergenceError':
            why = why or 'stand-alone economy %s solves but the joint model raises %r' % (cc, tsj[1])
    print('replay: %s' % (('property violated: ' + why) if why else 'property holds on this input'))
    return 1 if why else 0
