"""C18, embedding half, at program level: economies declared together in one model follow the series they follow alone
(coq/GenEmbed).

Integration (the lead adds it to harness/c18.py):

    import gen_embed
    ... proof_status_many([(FAMILY, PROPFILE)] + gen_embed.PROOFS)
    gen_embed.extra(ctx, out)           # appends evaluations / nontrivial / disagreements / corr_errors / trusted_base,
                                        # out.extra['embed_model']
    if (obj.get('replay') or {}).get('kind') == 'embed_model': return gen_embed.replay(obj)

Proof: coq/GenEmbed/PropEmbed.v — for ALL lists ps of single-currency programs (single-country or federated) and every
position of an unused ExternalSector,  embed_ok ps ext = true  and  build p_i = Ok E_i for all i  imply
build2 (joint ps ext) = Ok E  where E is the disjoint union, block by block, of the E_i under the documented country
prefix and the shift of creation indices (plus the ExternalSector's own block), and the semantic corollaries.
Tie to the code, on every run, for economies generated the way harness/c18.py part (ii) generates them (its generator is
imported) plus damaged variants:
  (a) `joint` applied to the rendered stand-alone programs equals, step by step, the rendering of the joint Python program
      the harness builds (the theorem's joint program is the embedding users perform);
  (b) the model's output on the theorem's joint program equals the IMPLEMENTATION's outcome on the joint Python program,
      and the model's output on each component equals the implementation's outcome on the stand-alone Python program
      (whole-program correspondences of gen_main / gen_main2);
  (c) embed_ok is evaluated (distribution reported) and, whenever every component builds, the block / prefix relation
      between the model outputs is evaluated (a failure with embed_ok = true is a disagreement); whenever the pipeline of a
      component fails, the joint model's build is evaluated (a success with embed_ok = true is a disagreement).
"""
import copy
import json
import random

import common
from common import coq_string, coq_list, coq_nat, coq_bool, coq_option
import gen_common
import gen_main
import gen_main2
import gen_rename
import c18

PROOFS = [('GenEmbed', 'PropEmbed.v')]
FAMILY = 'GenEmbed'
REQUIRES = ['From SFC.Base Require Import Res Str.', 'From SFC.Gen Require Import Fx Zone.',
            'From SFC.GenMain2 Require Import Program Classes Main CaseDefs Program2 Main2 CaseDefs2.',
            'From SFC.GenEmbed Require Import EmbDefs JointDefs Joint EvalOk CaseDefs.']

OutOfLanguage = gen_main.OutOfLanguage


def squeeze_prog(prog):
    """The same program with every expression text stored the way Term(..., is_blob=True) stores it (no blanks)."""
    p = copy.deepcopy({'maxtime': prog['maxtime'], 'steps': prog['steps'], 'shape': prog.get('shape')})
    return p


def ext_position(singles, joint):
    """None, or the number of economies declared before the ExternalSector in the joint program."""
    firsts = [[st['id'] for st in p['steps'] if st['kind'] == 'country'][0] for p in singles]
    seen = 0
    for st in joint['steps']:
        if st['kind'] == 'external':
            return seen
        if st['kind'] == 'country' and st['id'] in firsts:
            seen += 1
    return None


def names_of(prog):
    try:
        return gen_main.final_names(prog)
    except OutOfLanguage:
        raise
    except Exception:
        return gen_main.static_names(prog)


def names2_of(prog):
    try:
        return gen_main2.final_names2(prog)
    except Exception:
        return gen_main2.static_names2(prog)


def coq_ext(k):
    return 'None' if k is None else '(Some %s)' % coq_nat(k)


def make_joint(singles, pos):
    """The joint program harness/c18.py builds from stand-alone ones: the declarations of the economies one after the other
    (an unused ExternalSector before economy `pos`, or after the last one), then the user operations of all of them."""
    n = len(singles)
    steps = []
    for j in range(n):
        if pos is not None and j == pos:
            steps.append({'kind': 'external', 'id': 'ext'})
        steps.extend(copy.deepcopy(singles[j]['steps']))
    if pos is not None and pos >= n:
        steps.append({'kind': 'external', 'id': 'ext'})
    decl = [st for st in steps if st['kind'] != 'op']
    ops = [st for st in steps if st['kind'] == 'op']
    return {'maxtime': 4, 'steps': decl + ops, 'shape': 'joint'}


def gen_cases(ctx, n):
    """(singles, joint, codes, label): the well-formed stream is exactly harness/c18.py part (ii) (its embed_case is called);
    the malformed stream breaks one part of the side condition or one component."""
    out = []
    for i in range(n):
        seed = ctx.rng.randrange(10 ** 9)
        singles, joint, codes, with_ext = c18.embed_case(ctx.rng, seed)
        r = ctx.rng.random()
        if r < 0.72:
            out.append((singles, joint, codes, 'plain'))
            continue
        pos = ext_position(singles, joint)
        if r < 0.82 and all(p.get('shape') == 'single' for p in singles[:2]):
            # two economies with the same country code (hence the same currency): outside the quantifier; the joint model
            # refuses the second country
            s2 = copy.deepcopy(singles)
            for st in s2[1]['steps']:
                if st['kind'] == 'country':
                    st['code'] = codes[0]
            out.append((s2, make_joint(s2, pos), [codes[0]] + codes[:1] + codes[2:], 'same_country_code'))
        elif r < 0.92:
            # one economy damaged (error paths, overwritten definitions): the stand-alone build may fail
            s2 = copy.deepcopy(singles)
            j = ctx.rng.randrange(len(s2))
            d = gen_main.damage(ctx.rng, s2[j])
            if d is None or any(st['kind'] == 'country' and st['id'] in ('cdup', 'clate') for st in d[0]['steps']):
                out.append((singles, joint, codes, 'plain'))
                continue
            s2[j] = {'maxtime': 4, 'steps': d[0]['steps'], 'shape': s2[j].get('shape')}
            out.append((s2, make_joint(s2, pos), codes, 'damaged:' + d[1]))
        else:
            out.append((singles, joint, codes, 'plain'))
    return out


WHY = {0: 'holds', 1: 'no economy', 2: 'static naming conditions of a component', 3: 'country codes not pairwise different',
       4: 'currencies not pairwise different', 5: 'NUMERAIRE used as a country code', 11: 'evaluated: zone description',
       12: 'evaluated: calls (market suppliers / class texts)', 13: 'evaluated: supplier references', 14: 'evaluated: flow references',
       15: 'evaluated: exogenous specifications', 16: 'evaluated: initial-condition references', 17: 'evaluated: row texts',
       18: 'evaluated: lagged row of a market names a bare supply variable'}


TRUSTED = [
    'GenEmbed: theorems about the hand-written pipeline models coq/GenMain2 Main.v (`build`) and Main2.v (`build2`), tied to the '
    'code by the whole-program correspondences of harness/gen_main.py / gen_main2.py, run here on every stand-alone economy and on '
    'the joint program; that the theorem\'s `joint` is the program a user writes is checked step by step against the rendering of '
    'the joint Python program built by harness/c18.py embed_case; expression texts enter the model with blanks removed (as '
    'Term(..., is_blob=True) stores them)',
]
ASSUMPTIONS = [
    'GenEmbed: Main2_embedding holds under the decidable side condition embed_ok ps ext: at least one economy; per economy the '
    'static conditions comp_static (steps refer to declared sectors only, expression texts without white space, exogenous '
    'specifications not starting with an identifier containing "_", clean sector / good / labour codes, country codes made of '
    'letters and digits, no market code of the form <country>_x); country codes (and EXT) pairwise different, NUMERAIRE not a '
    'country code; and conditions evaluated on each economy\'s own stand-alone construction and run (static description of its '
    'sectors, residual suppliers found by search are not markets, supplier / flow / exogenous / initial-condition references '
    'inside the economy, and for economies that gain the prefix the syntactic text_ok of their final equations and, for the '
    'semantic corollary, that no lagged row of a market names a bare SUP_<code> variable); evaluated on every generated case and '
    'reported in extra.embed_model.  Main2_embedding_err (an economy whose pipeline fails alone makes the joint model fail) is '
    'about the pipeline WITHOUT the final "There are no equations in the system" check of Model.main(): an economy without '
    'equations fails alone while a joint model containing it builds (EmbedWitness.empty_economy_refuted)',
]


def _run_nat_cases(cases, tag, shard=6, jobs=8):
    """Evaluate Coq terms of type nat; returns (values or None per case, errors)."""
    import re
    from concurrent.futures import ThreadPoolExecutor
    header = common.STD_HEADER + '\n'.join(REQUIRES) + '\n'
    shards = [(i, cases[i:i + shard]) for i in range(0, len(cases), shard)]
    vals, errors = [None] * len(cases), []

    def one(sh):
        off, cs = sh
        body = 'Eval vm_compute in (%s).' % coq_list(['(%s)' % c for c in cs])
        rc, out_ = common.coq_run(FAMILY, header, body, tag=tag)
        return off, cs, rc, out_

    with ThreadPoolExecutor(max_workers=jobs) as ex:
        for off, cs, rc, out_ in ex.map(one, shards):
            flat = ' '.join(out_.split())
            m = re.search(r'= \[(.*?)\](?:%nat)? : list nat', flat)
            if rc != 0 or not m:
                errors.append({'offset': off, 'n': len(cs), 'output': out_[-1500:]})
                continue
            xs = [int(x.replace('%nat', '')) for x in m.group(1).split(';') if x.strip()]
            if len(xs) != len(cs):
                errors.append({'offset': off, 'n': len(cs), 'output': 'case count mismatch'})
                continue
            for j, x in enumerate(xs):
                vals[off + j] = x
    return vals, errors


def extra(ctx, out, quick_n=22, thorough_n=300):
    n = ctx.scale(quick_n, thorough_n)
    dist = {'cases': 0, 'economies': 0, 'with_external': 0, 'federated': 0, 'out_of_language': 0, 'labels': {}, 'embed_ok': {},
            'joint_errors': {}, 'component_errors': 0}
    jcases, ecases, wcases, tcases, ccases, metas, cmetas, labels, xcases = [], [], [], [], [], [], [], [], []
    distinct = set()
    for singles, joint, codes, label in gen_cases(ctx, n):
        try:
            cps = [gen_rename.render_program_sq(p, names_of(p)) for p in singles]
            cj = gen_rename.render_program2_sq(joint, names2_of(joint))
            raw = [gen_main.render_program(p, names_of(p)) for p in singles]
            rawj = gen_main2.render_program2(joint, names2_of(joint))
        except (OutOfLanguage, KeyError):
            dist['out_of_language'] += 1
            continue
        k = ext_position(singles, joint)
        ps = coq_list(cps)
        ext = coq_ext(k)
        resj = gen_main.run_impl(joint)
        meta = {'kind': 'embed_model', 'label': label, 'singles': [gen_common.strip_prog(p) for p in singles],
                'joint': gen_common.strip_prog(joint), 'codes': codes, 'ext': k}
        jcases.append('joint_case %s %s %s' % (ps, ext, cj))
        ecases.append('embed_case %s %s' % (ps, ext))
        tcases.append('embed_thm_case %s %s' % (ps, ext))
        wcases.append('embed_ok_why %s %s' % (ps, ext))
        xcases.append('embed_err_why %s %s' % (ps, ext))
        metas.append(meta)
        labels.append(label)
        # the implementation on the joint Python program against the model on the theorem's joint program, and on the rendered one
        ccases.append('main2_case (joint %s %s) %s' % (ps, ext, gen_rename.expected(resj)))
        cmetas.append(dict(meta, what='theorem joint program vs implementation'))
        ccases.append(gen_main2.emit_case(rawj, resj))
        cmetas.append(dict(meta, what='rendered joint program vs implementation'))
        comp_err = False
        for p, r in zip(singles, raw):
            res1 = gen_main.run_impl(p)
            comp_err = comp_err or res1[0] == 'err'
            ccases.append(gen_main.emit_case(r, res1))
            cmetas.append({'kind': 'embed_model', 'label': label, 'what': 'component vs implementation',
                           'singles': [gen_common.strip_prog(p)], 'joint': None, 'codes': codes, 'ext': None})
        dist['cases'] += 1
        dist['economies'] += len(singles)
        dist['with_external'] += 1 if k is not None else 0
        dist['federated'] += sum(1 for p in singles if p.get('shape') == 'federated')
        dist['labels'][label] = dist['labels'].get(label, 0) + 1
        dist['component_errors'] += 1 if comp_err else 0
        if resj[0] == 'err':
            dist['joint_errors'][resj[1]] = dist['joint_errors'].get(resj[1], 0) + 1
        distinct.add(json.dumps([resj], sort_keys=True, default=str))
    whys, errs = _run_nat_cases(wcases, 'embw' + ctx.pid)
    out.corr_errors.extend(errs)
    for title, cases, ms in (('joint_case (the theorem\'s joint program = the rendered joint Python program)', jcases, metas),
                            ('embed_case (block / prefix relation between the model outputs)', ecases, metas),
                            ('embed_thm_case (embed_ok implies the relation: the statement of Main2_embedding, evaluated)', tcases, metas),
                            ('whole-program correspondence (model = implementation)', ccases, cmetas)):
        bad, errs = common.run_bool_cases(FAMILY, REQUIRES, cases, tag='emb' + ctx.pid, shard=6)
        out.corr_errors.extend(errs)
        if cases is ecases:
            # outside the quantifier of the theorem (two economies with one country code) the relation may fail: reported, not
            # a disagreement (embed_thm_case is the obligation there)
            outside = [i for i in bad if labels[i] == 'same_country_code']
            dist['relation_fails_outside_side_condition'] = len(outside)
            bad = [i for i in bad if labels[i] != 'same_country_code']
        for i in bad[:10]:
            out.disagreements.append({'embed_model': ms[i], 'obligation': title, 'coq': cases[i][:3000]})
        dist.setdefault('failed', {})[title.split(' ')[0]] = len(bad)
    # the side condition must hold on the well-formed stream (otherwise the theorem would say nothing about it)
    for i, w in enumerate(whys):
        if w is None:
            continue
        key = '%s: %s' % ('plain' if labels[i] == 'plain' else 'malformed', WHY.get(w, str(w)))
        dist['embed_ok'][key] = dist['embed_ok'].get(key, 0) + 1
        if labels[i] == 'plain' and w != 0:
            out.disagreements.append({'embed_model': metas[i], 'obligation': 'embed_ok fails on a well-formed case: %s' % WHY.get(w, str(w)),
                                      'coq': wcases[i][:3000]})
    # the error direction (Main2_embedding_err, evaluated as a cross-check): an economy whose pipeline fails alone makes the
    # joint model fail
    xs, errs = _run_nat_cases(xcases, 'embx' + ctx.pid)
    out.corr_errors.extend(errs)
    dist['error_direction'] = {'component fails, joint fails too': sum(1 for x in xs if x == 1),
                               'component fails, embed_ok, joint builds': sum(1 for x in xs if x == 2),
                               'component fails, outside embed_ok, joint builds': sum(1 for x in xs if x == 3)}
    for i, x in enumerate(xs):
        if x == 2:
            out.disagreements.append({'embed_model': metas[i], 'obligation': 'an economy fails alone, embed_ok holds, but the joint model builds',
                                      'coq': xcases[i][:3000]})
    out.evaluations += len(jcases) + len(ecases) + len(tcases) + len(ccases) + len(xcases)
    out.nontrivial += len(distinct)
    # minimum-count guard: an empty or almost empty stream must not pass for a tie
    n_eval__ = max([v for k, v in dist.items() if isinstance(v, int) and k in ('programs', 'pairs', 'cases', 'sets', 'joints', 'evaluated')] + [0])
    if n_eval__ < 5:
        out.corr_errors.append('gen_embed: only %d cases were evaluated (distribution %r)' % (n_eval__, {k: v for k, v in dist.items() if isinstance(v, int)}))

    out.extra['embed_model'] = dist
    out.trusted_base = list(out.trusted_base or []) + TRUSTED
    out.assumptions = list(out.assumptions or []) + ASSUMPTIONS
    if metas:
        out.samples.append({'embed_model': {'codes': metas[0]['codes'], 'ext': metas[0]['ext'], 'label': metas[0]['label']}})
    return out


def replay(obj):
    """`obj`: the loaded replay file or the inner {'kind': 'embed_model', 'singles': ..., 'joint': ..., 'codes': ...}.
    Runs the implementation only: builds every stand-alone economy and the joint model, solves them and applies the oracle
    of C18 (same series under the country prefix).  Returns 1 if the property is violated on this input."""
    r = obj.get('replay', obj) or {}
    if r.get('kind') != 'embed_model':
        return 0
    if not r.get('joint'):
        for p in r['singles']:
            res = gen_main.run_impl(p)
            print('component: %s' % (('raises ' + res[1]) if res[0] == 'err' else '%d rows' % (len(res[1]) + len(res[2]) + len(res[3]))))
        print('replay: property holds on this input (no joint program)')
        return 0
    return c18.replay_embed(r) if hasattr(c18, 'replay_embed') else _replay_embed(r)


def _replay_embed(r):
    import gen_checks as GC
    why = None
    tsj = GC.solve(r['joint'])
    for p, cc in zip(r['singles'], r['codes']):
        a = GC.analyse(p)
        ts1, _, _ = GC.solve(p)
        if ts1 is not None and tsj[0] is not None:
            why = why or c18.series_equal_under(ts1, tsj[0], c18.embed_map(a, cc), set(['t', 'k']))
        elif ts1 is not None and tsj[0] is None and common.exc_class(tsj[1]) != 'ConvergenceError':
            why = why or 'stand-alone economy %s solves but the joint model raises %r' % (cc, tsj[1])
    print('replay: %s' % (('property violated: ' + why) if why else 'property holds on this input'))
    return 1 if why else 0
