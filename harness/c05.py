"""C05 — the generated system is closed, canonical and free of placeholder names.

Proof: coq/Gen/PropC05.v (reflection of the boolean closedness / no-placeholder / same-meaning checks).
Validation on every run: programs from the shared generator, extended with name requests made
*before* full codes exist and embedded in every place a name can be embedded (another sector's
equation, a model-level equation, an exogenous definition, the defining expression of a cash flow),
and with name requests made after main().  For each: the emitted system must pass check_closed
(kernel-evaluated); every left-hand side must be exactly <full code>__<local name> of some sector
variable (or a declared model-level name), each once; every sector equation's final right-hand side
must be the local one under the local->full renaming (same_meaning).
Oracle (implementation only): regex scan of FinalEquations for `_<digits>__`, names used but not
defined, duplicates; the model must then solve (a dangling name makes the solver die).
"""
import json
import re

import common
import gen_common as G
import gen_checks as GC
import gen_main
import gen_main2
from common import coq_string, coq_list

PID = 'C05'
FAMILY = 'Gen'
PROPFILE = 'PropC05.v'
LEVEL = 'proof'


def add_embeddings(rng, prog):
    """Append ops that request names before main() and embed them."""
    infos = prog['infos']
    secs = []
    for info in infos:
        for role in ('HH', 'BUS', 'GOV'):
            if role in info['sectors']:
                secs.append(info['sectors'][role])
    ops = []
    kinds = []
    if len(secs) >= 2 and rng.random() < 0.7:
        a, b = rng.sample(secs, 2)
        ops.append({'kind': 'op', 'op': 'AddVariable', 'sector': a, 'name': 'XREF', 'eqn': '{%s:F} + 0.5*{%s:INC} - INC' % (b, b)})
        kinds.append('sector-equation')
    if secs and rng.random() < 0.7:
        a = rng.choice(secs)
        b = rng.choice(secs)
        ops.append({'kind': 'op', 'op': 'AddGlobalEquation', 'name': 'WEALTH', 'eqn': '{%s:F} + {%s:F}' % (a, b)})
        kinds.append('global-equation')
    if secs and rng.random() < 0.4:
        a = rng.choice(secs)
        ops.append({'kind': 'op', 'op': 'AddGlobalEquation', 'name': 'tt', 'eqn': '1950. + k'})
        kinds.append('global-no-alias')
    if len(secs) >= 2 and rng.random() < 0.5:
        a, b = rng.sample(secs, 2)
        ops.append({'kind': 'op', 'op': 'AddVariable', 'sector': a, 'name': 'BONUS', 'eqn': ''})
        ops.append({'kind': 'op', 'op': 'AddTermToEq', 'sector': a, 'name': 'BONUS', 'term': '{%s:INC}*LAG_F' % b})
        if rng.random() < 0.5:
            ops.append({'kind': 'op', 'op': 'AddTermToEq', 'sector': a, 'name': 'BONUS', 'term': '-{%s:F}' % b})
        kinds.append('product-term')
    if len(secs) >= 2 and rng.random() < 0.4:
        a, b = rng.sample(secs, 2)
        ops.append({'kind': 'op', 'op': 'AddCashFlow', 'sector': a, 'term': 'XFLOW', 'eqn': '0.01*{%s:INC}' % b, 'is_income': False})
        ops.append({'kind': 'op', 'op': 'AddCashFlow', 'sector': b, 'term': '-XFLOW', 'eqn': '0.01*INC', 'is_income': False})
        kinds.append('cash-flow-definition')
    if any(st['kind'] == 'external' for st in prog['steps']) and secs and rng.random() < 0.6:
        # names embedded in equations of the external sector's own sectors (exchange-rate rule, gold note)
        a = rng.choice(secs)
        ops.append({'kind': 'op', 'op': 'AddVariable', 'sector': 'XR', 'name': 'RULE', 'eqn': '1.0 + 0.001*{%s:INC}' % a})
        ops.append({'kind': 'op', 'op': 'AddVariable', 'sector': 'GOLD', 'name': 'NOTE', 'eqn': '2.0*{XR:RULE} + {%s:F}' % a})
        kinds.append('external-sector-equation')
    steps = list(prog['steps'])
    if rng.random() < 0.3:
        # the public debug dump Model.LogInfo() called in the middle of construction
        idx = [i for i, st in enumerate(steps) if st['kind'] == 'country']
        pos = rng.choice(idx[1:] + [len([st for st in steps if st['kind'] != 'op'])]) if len(idx) > 0 else len(steps)
        steps.insert(pos, {'kind': 'op', 'op': 'LogInfo'})
        kinds.append('loginfo-mid-construction')
    prog['steps'] = steps + ops
    prog['embeddings'] = kinds
    return prog


def expected_names(mod):
    out = {}
    for s in mod.GetSectors():
        for v in s.EquationBlock.GetEquationList():
            out[s.GetVariableName(v)] = (s, v)
    return out


def oracle_text(text, prog):
    fails = []
    from sfc_models.utils import list_tokens
    m = re.search(r'_\d+__\w+', text)
    if m:
        fails.append({'key': 'final:placeholder-survives', 'what': 'placeholder %s survives in FinalEquations (embedding sites: %s)' % (
            m.group(0), prog.get('embeddings')), 'replay': {'kind': 'program', 'prog': G.strip_prog(prog)}})
    raw, parser = G.parse_final(text)
    defined = [v for v, _ in raw]
    dups = sorted(set(v for v in defined if defined.count(v) > 1))
    if dups:
        fails.append({'key': 'final:defined-twice', 'what': 'defined more than once: %r' % dups[:5],
                      'replay': {'kind': 'program', 'prog': G.strip_prog(prog)}})
    ok = set(defined) | {'k'} | {'abs', 'max', 'min', 'sqrt', 'float', 'pow', 'sum', 'round'}
    for v, (k, x) in raw:
        if k == 'def':
            for tok in list_tokens(x):
                if tok not in ok and not re.match(r'_\d+__', tok):
                    fails.append({'key': 'final:dangling-name', 'what': 'name %s used in %s = %s is not defined' % (tok, v, x[:80]),
                                  'replay': {'kind': 'program', 'prog': G.strip_prog(prog)}})
                    return fails
    return fails


def run(ctx):
    out = common.Outcome()
    out.proof = None
    pg = G.ProgGen(ctx.rng)
    n = ctx.scale(60, 1500)
    cases, metas, seen = [], [], set()
    stats = {'shapes': {}, 'embeddings': {}, 'same_meaning_equations': 0, 'after_main_requests': 0}
    for i in range(n):
        prog = add_embeddings(ctx.rng, pg.any())
        try:
            a = GC.analyse(prog)
        except G.Unsupported as e:
            # a placeholder that survives is still parseable; anything else unsupported is skipped
            continue
        except Exception as e:  # noqa
            out.failures.append({'key': 'build:exception', 'what': 'program failed to build: %r' % e,
                                 'replay': {'kind': 'program', 'prog': G.strip_prog(prog)}})
            continue
        mod = a['mod']
        stats['shapes'][prog['shape']] = stats['shapes'].get(prog['shape'], 0) + 1
        for k in prog['embeddings']:
            stats['embeddings'][k] = stats['embeddings'].get(k, 0) + 1
        out.failures.extend(oracle_text(a['text'], prog))
        # canonical names: every sector variable under fullcode__local, once; plus model-level names
        exp = expected_names(mod)
        globals_ = set(v for v, _, _ in mod.GlobalVariables)
        emitted = [v for v, _ in a['system']]
        full_codes = set(s.FullCode for s in mod.GetSectors())
        multi = len(mod.CountryList) > 1
        for s in mod.GetSectors():
            want = (s.Parent.Code + '_' + s.Code) if multi else s.Code
            if s.FullCode != want:
                out.failures.append({'key': 'names:full-code', 'what': 'sector %s has full code %s, expected %s' % (s.Code, s.FullCode, want),
                                     'replay': {'kind': 'program', 'prog': G.strip_prog(prog)}})
        extra = [v for v in emitted if v not in exp and v not in globals_ and v != 't']
        missing = [v for v in exp if v not in emitted]
        if extra or missing:
            out.failures.append({'key': 'names:not-canonical', 'what': 'emitted names not canonical: extra=%r missing=%r' % (extra[:4], missing[:4]),
                                 'replay': {'kind': 'program', 'prog': G.strip_prog(prog)}})
        # after main(): names requested now are canonical
        for s in mod.GetSectors()[:3]:
            for v in s.EquationBlock.GetEquationList()[:2]:
                stats['after_main_requests'] += 1
                if s.GetVariableName(v) != s.FullCode + '__' + v:
                    out.failures.append({'key': 'names:after-main', 'what': 'GetVariableName after main gave %s' % s.GetVariableName(v),
                                         'replay': {'kind': 'program', 'prog': G.strip_prog(prog)}})
        # Coq: closedness + same meaning of every sector equation
        sysd = dict(a['system'])
        sm = []
        for s in mod.GetSectors():
            lookup = [(v, s.GetVariableName(v)) for v in s.EquationBlock.GetEquationList()]
            for v in s.EquationBlock.GetEquationList():
                full = s.GetVariableName(v)
                kind = sysd.get(full)
                if not kind or kind[0] != 'def':
                    continue
                rhs = s.EquationBlock[v].RHS()
                if 'EXOGENOUS' in rhs or '(k' in rhs:
                    continue
                try:
                    local = G.to_ast(rhs)
                except G.Unsupported:
                    continue
                used = set(G.ast_names(local))
                mlist = coq_list(['(%s, %s)' % (coq_string(x), coq_string(y)) for x, y in lookup if x in used])
                sm.append('same_meaning %s %s %s' % (mlist, G.coq_expr(local), G.coq_expr(kind[1])))
        stats['same_meaning_equations'] += len(sm)
        case = '(closed_case [%s] %s) && forallb (fun b : bool => b) %s' % (
            coq_string('k'), G.coq_sys(a['system']), coq_list(sm))
        cases.append(case)
        metas.append({'prog': G.strip_prog(prog), 'embeddings': prog['embeddings']})
        seen.add(json.dumps(G.strip_prog(prog), sort_keys=True))
    bad, errs = common.run_bool_cases(FAMILY, G.GEN_REQUIRES, cases, tag=PID, shard=6, jobs=14)
    out.corr_errors = errs
    for i in bad[:10]:
        out.disagreements.append({'program': metas[i]['prog'], 'embeddings': metas[i]['embeddings'],
                                  'obligation': 'check_closed / same_meaning rejected the emitted system'})
    out.evaluations = len(cases)
    out.nontrivial = len(seen)
    out.samples = metas[:2]
    out.rule = ('shared program generator (all shapes) extended with name requests before main() embedded in another '
                "sector's equation, a model-level equation, a cash-flow definition; names requested after main(); "
                'non-trivial = program built; distinct by full program')
    out.extra = {'input_distribution': stats, 'programs': len(cases), 'source_hashes': common.source_hashes(
        ['sfc_models/sector.py', 'sfc_models/models.py', 'sfc_models/utils.py'])}
    out.trusted_base = ['Coq 8.16.1 kernel + vm_compute', 'axioms: Reals axioms + functional_extensionality_dep only in '
                        'C05_same_meaning (evalR); the closedness certificate is closed under the global context',
                        'harness: EquationParser + Python ast -> Coq sys; local equations read from Sector.EquationBlock']
    out.assumptions = ['topologies and embedding histories covered per generated program',
                       'local names equal to a function name or k are not generated (they would capture it)']
    # whole-pipeline model of Model.main() (single-currency programs): canonical names / defined once for ALL programs
    out.proof = common.proof_status_many([(FAMILY, PROPFILE)] + gen_main2.PROOFS)
    gen_main.extra(ctx, out, 50, 500)
    gen_main2.extra(ctx, out, 80, 600)
    return out


def replay(path):
    obj = json.load(open(path))
    r = obj.get('replay') or {}
    if r.get('kind') == 'main':
        return gen_main.replay(obj)
    if r.get('kind') == 'main2':
        return gen_main2.replay(obj)
    if r.get('kind') != 'program':
        print('replay names a proof/validation obligation, nothing to execute:', json.dumps(obj)[:600])
        return 1
    prog = r['prog']
    prog.setdefault('embeddings', [])
    mod, objs = G.build(prog)
    text = G.generate_equations(mod)
    fails = oracle_text(text, prog)
    for f in fails:
        print('FAILS:', f['key'], f['what'][:300])
    print('replay: %s' % ('property violated' if fails else 'property holds on this input'))
    return common.replay_status(PID, fails)
