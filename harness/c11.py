"""C11 — unsolvable or invalid input fails loudly and in bounded work.

Proof: coq/Solve/PropC11.v (sweeps per period <= cap+1 with structural fuel, error classes of a failing
period, periods already solved stay intact and of equal length, reserved names rejected before anything is
evaluated, and the exact-arithmetic contraction-implies-success theorem) about the model in
coq/Solve/{Step,Run,Validate}.v.
Correspondence: shared solver generator weighted towards caps 0..5, poles, overflow and oscillation; plus
EquationParser.ValidateInputs against the model's `validate` fed with the interpreter's reserved lists.
Oracle (implementation only): traced sweep count <= cap+1; a failing solve raises ValueError /
ConvergenceError (NameError only for an undefined name); after a failure all non-exogenous series have the
same length j, the exogenous ones MaxTime+1, and rows 0..j-1 equal a successful run with MaxTime=j-1;
diverging systems do not return; random contractions (factor <= 0.8, <= 12 variables, constants <= 1e3,
tolerance >= 1e-8) are solved with the default cap; every name drawn from keyword.kwlist, dir(builtins),
dir(math), 'k' is rejected with NameError at parse time; ill-formed model declarations raise
LogicError / ValueError before any numbers exist.
"""
import builtins
import json
import keyword
import math

import common
import solve_common as sc
from common import coq_string, coq_list

PID = 'C11'
FAMILY = sc.FAMILY
PROPFILE = 'PropC11.v'
LEVEL = 'proof'
WEIGHTS = {'affine': 4, 'expansive': 2, 'oscillating': 2, 'overflow': 2, 'pole': 4, 'tree': 3, 'deco': 2, 'reject': 0.7,
           'weird': 0.7}
ALLOWED_TOKENS = ('float', 'max', 'min', 'sum', 'pow', 'abs', 'round')


def oracle(case, res):
    fails = []
    if res is None or res['parse_error'] is not None or case['kind'] == 'weird':
        return fails
    rep = {'kind': 'solve', 'case': case}
    if res.get('hang'):
        return [{'key': 'hang', 'what': 'SolveEquation did not return within %d s: %s' % (
            sc.CASE_TIMEOUT, sc.block_text(case).replace('\n', ' | ')), 'replay': rep}]
    s = res['solver']
    T = s.Parser.MaxTime
    ts = res['ts_raw']
    txt = sc.block_text(case).replace('\n', ' | ')
    # bounded work
    if res.get('sweeps') is not None and res['sweeps'] > case['cap'] + 1:
        fails.append({'key': 'sweeps:over-cap', 'what': '%d sweeps with MaxIterations=%d (%s)' % (res['sweeps'], case['cap'], txt),
                      'replay': rep})
        return fails
    info = case.get('info', {})
    if res['outcome'] is None:
        if info.get('expect_fail') and T >= 1:
            fails.append({'key': 'solved:diverging', 'what': 'a diverging system returned normally: %s' % txt, 'replay': rep})
        return fails
    # error class
    undefined = sc.undefined_names(case)
    raw = res['raw_exc']
    if not (res.get('exc_is_value_error') or (raw == 'NameError' and undefined)):
        fails.append({'key': 'fail-class:' + raw, 'what': 'solve failed with %s (not a convergence/value error): %s' % (raw, txt),
                      'replay': rep})
        return fails
    if len(ts) == 0:
        return fails          # refused by SetInitialConditions: nothing stored
    # equal lengths
    vc = sc.var_classes(s)
    nonexo = list(vc['endo']) + [v for v, _ in vc['lagged']] + list(vc['deco'])
    lens = sorted(set(len(ts[v]) for v in nonexo if v in ts))
    if len(lens) != 1 or any(len(ts[v]) != T + 1 for v in vc['exo'] if v in ts):
        fails.append({'key': 'intact:unequal-lengths', 'what': 'after %s the series lengths are %r (%s)' % (
            raw, {v: len(ts[v]) for v in ts}, txt), 'replay': rep})
        return fails
    j = lens[0]
    if j < 1 or j > T:
        fails.append({'key': 'intact:unequal-lengths', 'what': 'after %s non-exogenous series have %d values, MaxTime=%d' % (raw, j, T),
                      'replay': rep})
        return fails
    # the solved prefix is what a shorter run gives
    c2 = json.loads(json.dumps(case))
    c2['maxtime'] = j - 1
    c2['trace'] = None
    if c2.get('solver_maxtime') is not None:
        c2['solver_maxtime'] = j - 1
    try:
        r2 = sc.drive(c2, want_state=False)
    except sc.Unsupported:
        return fails
    if r2['outcome'] is not None:
        fails.append({'key': 'intact:prefix-run-fails', 'what': 'failed at period %d, but MaxTime=%d alone fails with %s (%s)' % (
            j, j - 1, r2['raw_exc'], txt), 'replay': rep})
        return fails
    for v in ts:
        a, b = ts[v][:j], r2['ts_raw'].get(v, [])
        if len(a) != len(b) or not all(sc.same_number(x, y) for x, y in zip(a, b)):
            fails.append({'key': 'intact:prefix-differs', 'what': '%s: rows 0..%d are %r, a run with MaxTime=%d gives %r' % (
                v, j - 1, a, j - 1, b), 'replay': rep})
            return fails
    return fails


# ---------------------------------------------------------------- contractions must be solved
def oracle_contraction(case, res):
    if res is None or res['parse_error'] is not None:
        return []
    if res['outcome'] is not None:
        return [{'key': 'contraction:not-solved', 'what': 'sup-norm contraction (row sums <= %r, %d variables, tol %s) failed with %s: %s' % (
            case['info'].get('L'), case['info'].get('n'), case['tol'], res['raw_exc'], sc.block_text(case).replace('\n', ' | ')),
            'replay': {'kind': 'contraction', 'case': case}}]
    return []


def gen_contraction(rng):
    c = sc.gen_affine(rng, 'affine')
    c['kind'] = 'contraction'
    c['cap'] = 400
    c['tol'] = rng.choice(['1e-3', '1e-4', '1e-6', '1e-8'])
    c['maxtime'] = rng.choice([1, 2, 4, 8])
    if c.get('trace') is not None and c['trace'] > c['maxtime']:
        c['trace'] = None
    if c['exo'] and c['exo'][0][1].startswith(('[', '(')):
        c['exo'][0][1] = '[' + ', '.join(repr(round(rng.uniform(-100, 100), 2)) for _ in range(c['maxtime'] + 1)) + ']'
    return c


# ---------------------------------------------------------------- reserved names
def reserved_sets():
    bad_vars = ['self', 'None', 'k'] + list(keyword.kwlist) + dir(builtins) + dir(math)
    bad_tokens = [x for x in ['self', 'None'] + list(keyword.kwlist) + dir(builtins) if x not in ALLOWED_TOKENS]
    return bad_vars, bad_tokens


def gen_name_case(rng, bad_vars, bad_tokens):
    good = ['x', 'y', 'GOV__T', 'HH_F', 'alpha', 'Y2']
    kind = rng.choice(['var', 'var', 'token', 'token', 'clean', 'allowed_token', 'mathtoken'])
    lines = ['%s = 0.5*%s + 1.0' % (good[0], good[0])]
    if kind == 'var':
        nm = rng.choice(bad_vars)
        # as an ordinary, a lagged (nm = x(k-1)) or an exogenous variable
        rhs = rng.choice(['2.0', 'x + 1.0', '0.5*y', 'x(k-1)', 'x(k-1)', 'EXO'])
        if rhs == 'EXO':
            lines += ['exogenous', '%s = %s' % (nm, rng.choice(['[1.0, 2.0, 3.0]', '4.0']))]
            return {'kind': kind, 'text': '\n'.join(['MaxTime = 1'] + lines)}
        lines.insert(rng.randint(0, 1), '%s = %s' % (nm, rhs))
    elif kind == 'token':
        tok = rng.choice(bad_tokens)
        lines.insert(rng.randint(0, 1), 'y = 2.0*%s + x' % tok)
    elif kind == 'allowed_token':
        lines.append('y = %s(x, 2.0)' % rng.choice(['max', 'min', 'pow']))
    elif kind == 'mathtoken':
        lines.append('y = x + %s' % rng.choice(['pi', 'e', 'sqrt(2.0)', 'k']))
    else:
        lines.append('y = 0.25*x')
    if rng.random() < 0.3:
        lines += ['exogenous', 'G = [1.0, 2.0, 3.0]']
    return {'kind': kind, 'text': '\n'.join(lines + ['MaxTime = 1'])}


def run_names(ctx, out, n, stats):
    from sfc_models.equation_parser import EquationParser
    from sfc_models.equation_solver import EquationSolver
    from sfc_models.utils import get_invalid_variable_names, get_invalid_tokens
    bad_vars, bad_tokens = reserved_sets()
    impl_bv, impl_bt = list(get_invalid_variable_names()), list(get_invalid_tokens())
    terms, metas = [], []
    for i in range(n):
        nc = gen_name_case(ctx.rng, bad_vars, bad_tokens)
        # systematic sweep over every reserved name in the thorough tier / a slice in quick
        stats['names:' + nc['kind']] = stats.get('names:' + nc['kind'], 0) + 1
        out.failures.extend(oracle_names(nc))
        p = EquationParser()
        try:
            p.ParseString(nc['text'])
            p.GenerateTokenList()
            alleqs = [(v, list(p.Tokens[v])) for v in p.AllEquations]
            p2 = EquationParser()
            p2.ParseString(nc['text'])
            try:
                p2.ValidateInputs()
                oe = 'None'
            except Exception as e:  # noqa
                oe = '(Some %s)' % common.exc_class(e)
            terms.append('validate_case %s bv__ bt__ %s' % (
                coq_list(['(%s, %s)' % (coq_string(v), coq_list([coq_string(t) for t in toks])) for v, toks in alleqs]), oe))
            metas.append(nc)
        except Exception:  # noqa   (tokenizer refused: outside the model)
            stats['names:untokenizable'] = stats.get('names:untokenizable', 0) + 1
    defs = 'Definition bv__ : list string := %s.\nDefinition bt__ : list string := %s.' % (
        coq_list([coq_string(x) for x in impl_bv]), coq_list([coq_string(x) for x in impl_bt]))
    bad, errs = common.run_bool_cases(FAMILY, sc.REQUIRES, terms, tag=PID + 'n', defs=defs, shard=200)
    out.corr_errors.extend(errs)
    for b in bad[:10]:
        out.disagreements.append({'input': metas[b], 'case': terms[b][:800]})
    return len(terms)


def oracle_names(nc):
    """the property: a reserved variable name / token is rejected with NameError when the block is handed over,
    before any number is produced; allowed names are not."""
    from sfc_models.equation_solver import EquationSolver
    bad_vars, bad_tokens = reserved_sets()
    fails = []
    rep = {'kind': 'names', 'case': nc}
    try:
        s = EquationSolver(nc['text'])
        err = None
    except Exception as e:  # noqa
        err = e
    if nc['kind'] in ('var', 'token'):
        if not isinstance(err, NameError):
            fails.append({'key': 'names:accepted:' + nc['kind'], 'what': 'reserved name accepted (%r): %s' % (
                err, nc['text'].replace('\n', ' | ')), 'replay': rep})
    else:
        if err is not None:
            fails.append({'key': 'names:valid-rejected', 'what': 'valid block rejected with %r: %s' % (err, nc['text'].replace('\n', ' | ')),
                          'replay': rep})
    return fails


def oracle_all_names():
    """every reserved name once (cheap: parsing only)"""
    bad_vars, bad_tokens = reserved_sets()
    fails = []
    for nm in sorted(set(bad_vars)):
        fails.extend(oracle_names({'kind': 'var', 'text': 'x = 0.5*x + 1.0\n%s = 2.0' % nm}))
        fails.extend(oracle_names({'kind': 'var', 'text': 'x = 0.5*x + 1.0\n%s = x(k-1)' % nm}))
        fails.extend(oracle_names({'kind': 'var', 'text': 'x = 0.5*x + 1.0\nexogenous\n%s = 2.0' % nm}))
    for tok in sorted(set(bad_tokens)):
        fails.extend(oracle_names({'kind': 'token', 'text': 'x = 0.5*x + 1.0\ny = 2.0*%s + x' % tok}))
    return fails, 3 * len(set(bad_vars)) + len(set(bad_tokens))


# ---------------------------------------------------------------- ill-formed declarations
DECLS = ['dup_country', 'dup_sector', 'dunder_var', 'no_supplier', 'two_suppliers', 'cross_currency_flow',
         'cross_currency_supplier']


def oracle_decl(d):
    from sfc_models.models import Model, Country
    from sfc_models.sector import Sector, Market
    from sfc_models.utils import LogicError
    what, a, b = d['what'], d['a'], d['b']
    rep = {'kind': 'decl', 'case': d}
    mod = Model()
    err = None
    try:
        if what == 'dup_country':
            Country(mod, a, 'one')
            Country(mod, a, 'two')
        elif what == 'dup_sector':
            c = Country(mod, a, 'c')
            Sector(c, b, 'one')
            Sector(c, b, 'two')
        elif what == 'dunder_var':
            c = Country(mod, a, 'c')
            sec = Sector(c, b, 's')
            sec.AddVariable('X__' + b, 'bad name', '1.0')
        elif what in ('no_supplier', 'two_suppliers'):
            c = Country(mod, a, 'c')
            buyer = Sector(c, 'BUY', 'buyer')
            buyer.AddVariable('DEM_' + b, 'demand', '20.')
            Market(c, b, 'market')
            if what == 'two_suppliers':
                for code in ('S1', 'S2'):
                    sup = Sector(c, code, 'supplier')
                    sup.AddVariable('SUP_' + b, 'supply', '')
            mod.main()
        elif what == 'cross_currency_flow':
            c1 = Country(mod, a, 'one')
            c2 = Country(mod, a + 'X', 'two')
            s1 = Sector(c1, b, 'src')
            s1.AddVariable('GIFT', 'gift', '5.')
            s2 = Sector(c2, b, 'dst')
            mod.RegisterCashFlow(s1, s2, 'GIFT')
            mod.main()
        else:  # cross_currency_supplier
            c1 = Country(mod, a, 'one', currency='AAA')
            c2 = Country(mod, a + 'X', 'two', currency='BBB')
            gov = Sector(c1, 'GOV', 'gov')
            gov.AddVariable('DEM_' + b, 'desc', '20.')
            market = Market(c1, b, 'market')
            home = Sector(c1, 'BUS', 'home supplier')
            away = Sector(c2, 'BUS', 'foreign supplier')
            market.AddSupplier(home)
            market.AddSupplier(away, '10.')
            mod.main()
    except Exception as e:  # noqa
        err = e
    produced = len(mod.EquationSolver.TimeSeries) > 0
    if err is None or not isinstance(err, (LogicError, ValueError)) or produced:
        return [{'key': 'decl:' + what, 'what': 'ill-formed declaration %s: outcome %r, numbers produced: %r' % (what, err, produced),
                 'replay': rep}]
    return []


def gen_decl(rng):
    return {'what': rng.choice(DECLS), 'a': rng.choice(['CA', 'US', 'c', 'Z9']), 'b': rng.choice(['GOOD', 'HH', 'LAB', 'W1'])}


# ---------------------------------------------------------------- entry points
def nontrivial(case, res):
    if res is None or res['parse_error'] is not None or res['state'] is None:
        return False
    return res['outcome'] is not None and len(res['ts_raw']) > 0 or (res.get('sweeps') or 0) >= 2


def run(ctx):
    out = common.Outcome()
    out.proof = common.proof_status(FAMILY, PROPFILE)
    n = ctx.scale(2000, 30000)
    cases = sc.corpus_cases(PID) + [sc.gen_case(ctx.rng, WEIGHTS) for _ in range(n)]
    cases = [c['case'] if 'case' in c else c for c in cases]
    for c in cases:
        if c['kind'] != 'corpus' and ctx.rng.random() < 0.35:
            c['cap'] = ctx.rng.choice([0, 1, 2, 3, 4, 5])
    ncontr = ctx.scale(500, 8000)
    contr = [gen_contraction(ctx.rng) for _ in range(ncontr)]
    stats = {}
    results, nterms = sc.run_correspondence(out, cases + contr, stats, PID)
    seen = set()
    kinds = {}
    for case, res in zip(cases + contr, results):
        sc.classify(case, res, stats)
        kinds[case['kind']] = kinds.get(case['kind'], 0) + 1
        out.failures.extend(oracle(case, res))
        if case['kind'] == 'contraction':
            out.failures.extend(oracle_contraction(case, res))
        if nontrivial(case, res):
            seen.add(sc.case_key(case))
    nnames = ctx.scale(300, 3000)
    nval = run_names(ctx, out, nnames, stats)
    f_all, n_all = oracle_all_names()
    out.failures.extend(f_all)
    ndecl = ctx.scale(70, 500)
    for _ in range(ndecl):
        d = gen_decl(ctx.rng)
        stats['decl:' + d['what']] = stats.get('decl:' + d['what'], 0) + 1
        out.failures.extend(sc.guarded(oracle_decl, d, 'decl:hang', 'decl'))
    out.evaluations = len(cases) + ncontr + nnames + n_all + ndecl
    out.nontrivial = len(seen)
    out.rule = ('random equation blocks (shared solver generator) weighted towards caps 0..5, expansive / oscillating / '
                'overflowing systems and transient or persistent 1/(y-c), sqrt poles; a stream of sup-norm contractions '
                '(row sums <= 0.8, <= 12 variables, |constants| <= 1e3, tolerance >= 1e-8, cap 400); blocks using every name of '
                'keyword.kwlist, dir(builtins), dir(math), k as a variable or token; ill-formed Model declarations. '
                'Non-trivial = a solve that failed after SetInitialConditions, or a traced period with >= 2 sweeps; distinct by '
                'block text + configuration')
    out.samples = [sc.block_text(c) for c in (cases[0], cases[len(cases) // 2], contr[-1])]
    stats['by_stream'] = kinds
    stats['model_cases'] = nterms
    stats['validate_cases'] = nval
    stats['reserved_names_tried'] = n_all
    out.extra = {'input_distribution': stats, 'source_hashes': common.source_hashes(
        sc.SOURCES + ['sfc_models/models.py', 'sfc_models/sector.py'])}
    import c02
    out.trusted_base = c02.TRUSTED + ["Python's tokenizer (utils.list_tokens) supplies the token lists given to the model's validate"]
    out.assumptions = c02.ASSUMPTIONS[:4] + [
        'C11_intact assumes a well-formed parser state (every name defined once, lag sources defined): an ill-formed state '
        'fails a Python assert / KeyError, mirrored by the model and the correspondence but outside the theorem',
        'C11_contraction is the exact-arithmetic (real number) instance; the float implementation is checked on random '
        'contractions by the oracle (support, not proof)',
        'construction-time guards of models.py / sector.py (duplicate codes, "__", suppliers, cross-currency) are exercised by '
        'the oracle only; their model belongs to the generator family',
    ]
    return out


def replay(path):
    obj = json.load(open(path))
    r = obj.get('replay') or {}
    kind = r.get('kind')
    if kind in ('solve', 'contraction'):
        try:
            res = sc.drive(r['case'], want_state=False)
        except sc.Unsupported:
            res = None
        fails = oracle(r['case'], res)
        if kind == 'contraction':
            fails += oracle_contraction(r['case'], res)
    elif kind == 'names':
        fails = oracle_names(r['case'])
    elif kind == 'decl':
        fails = oracle_decl(r['case'])
    else:
        print('replay names a proof/correspondence obligation, nothing to execute:', json.dumps(obj)[:600])
        return 1
    for f in fails:
        print('FAILS:', f['key'], f['what'][:400])
    print('replay: %s' % ('property violated' if fails else 'property holds on this input'))
    return common.replay_status(PID, fails)
