"""Booking-level model of a goods/labour Market (coq/GenMarket) against sfc_models.sector.Market.

Part of C04 (markets clear, supply fully allocated) and C01 (the market group's bookings cancel); the
lead integrates it with

    import gen_market
    ...                                 # in run(ctx), where out.proof is set:
    out.proof = common.merge_proofs([common.proof_status(FAMILY, PROPFILE)] +
                                    [common.proof_status(f, p) for f, p in gen_market.PROOFS])
    ...                                 # at the end of run(ctx), just before `return out`
    gen_market.extra(ctx, out)          # correspondence + oracle; appends to out.* (also trusted_base/assumptions)
    ...                                 # at the top of replay(path):
    obj = json.load(open(path))
    if (obj.get('replay') or {}).get('kind') == 'market':
        return gen_market.replay(obj)
(gen_market.merge_proof(out) does the same merge in place for a harness without common.merge_proofs.)

Proof: coq/GenMarket/PropMarket.v — theorems over ALL zones / markets / supplier lists / valuations about
the Gallina model coq/GenMarket/Market.v of Market._SearchSupplier, _GenerateTermsLowLevel,
_GenerateMultiSupply, _GenerateEquations (with Sector.AddCashFlow, AddTermToEquation and
ForexTransations._SendMoney/_ReceiveMoney from coq/Gen/Zone.v and Fx.v).
Correspondence: random zones built with the public API; after `mod._GenerateFullSectorCodes();
market._GenerateEquations()` every variable of every sector (blob text, list of (coefficient, term text)),
the FX NET_* term lists and the cross-rate variables, or the exception class, must equal the model's.
Oracle (implementation only): the market aggregates exactly the sectors that declare a demand; SUP = DEM;
allocations add up; a fresh supplier variable equals its allocation (x cross rate); the entries booked on
the F equations of the zone (plus the FX position in that currency) cancel under random rational valuations.
"""
import ast
import json
import random as _random
import re
from fractions import Fraction

import common
from common import coq_string, coq_list, coq_Z, coq_nat, coq_bool, coq_option

PROOFS = [('GenMarket', 'PropMarket.v')]
FAMILY = 'GenMarket'
REQUIRES = ['From SFC.Base Require Import Res Str.', 'From SFC.Gen Require Import Fx Zone.',
            'From SFC.GenMarket Require Import Market CaseDefs.']

HOME_CUR, ABROAD_CUR = 'CAD', 'USD'
BLOBS = ['', '', '', '0.0', '5.', 'alpha*YD', ' 0.0 ', 'X + 1']


# ----------------------------------------------------------------------------------------------
# generator

def gen_case(rng):
    """A JSON-able description of one model: countries (in creation order) with their sectors, where
    the ExternalSector is created, the market, the AddSupplier calls."""
    n_home = rng.choice([1, 1, 2, 2, 3])
    home_codes = rng.sample(['CA', 'ON', 'QC'], n_home)
    foreign = rng.random() < 0.35
    ext = None
    n_countries = n_home + (1 if foreign else 0)
    if foreign:
        ext = rng.randint(0, n_countries) if rng.random() < 0.85 else None
    elif rng.random() < 0.15:
        ext = rng.randint(0, n_countries)
    countries = [{'code': c, 'cur': HOME_CUR, 'sectors': []} for c in home_codes]
    if foreign:
        countries.insert(rng.randint(0, n_home), {'code': 'US', 'cur': ABROAD_CUR, 'sectors': []})
    mcode = rng.choice(['GOOD', 'GOOD', 'LAB'])
    home_idx = [i for i, c in enumerate(countries) if c['cur'] == HOME_CUR]
    mci = rng.choice(home_idx)
    mcc = countries[mci]['code']
    multi = (len(countries) + (1 if ext is not None else 0)) > 1
    mfull = (mcc + '_' + mcode) if multi else mcode
    names = ['DEM_' + mcode, 'DEM_' + mfull, 'SUP_' + mcode, 'SUP_' + mcc + '_' + mcode]
    pool = ['HH', 'BUS', 'GOV', 'CAP', 'X1']
    for ci, c in enumerate(countries):
        for code in rng.sample(pool, rng.randint(1, 4)):
            vs = []
            for n in names:
                p = 0.45 if n.startswith('DEM_') else 0.25
                if rng.random() < p and n not in [v[0] for v in vs]:
                    pre = []
                    if n.startswith('SUP_') and rng.random() < 0.15:
                        pre = [rng.choice(['Q', 'Q', mfull + '__SUP_' + (c['code'] + '_' + code if multi else code)])]
                    vs.append([n, rng.choice(BLOBS) if not pre else '', pre])
            rng.shuffle(vs)
            excl = [n for n in names if rng.random() < 0.1]
            c['sectors'].append({'code': code, 'hasF': rng.random() >= 0.03, 'vars': vs, 'excl': excl})
    countries[mci]['sectors'].insert(rng.randint(0, len(countries[mci]['sectors'])), {'market': mcode})
    plain = [(ci, si) for ci, c in enumerate(countries) for si, s in enumerate(c['sectors']) if 'market' not in s]
    plain_home = [p for p in plain if countries[p[0]]['cur'] == HOME_CUR]
    plain_abroad = [p for p in plain if countries[p[0]]['cur'] != HOME_CUR]
    residual, others = None, []
    texts = ['0.3*DEM_' + mcode, '0.25 * SUP_' + mcode, 'DEM_%s/4' % mcode, '0.1*DEM_' + mcode, 'beta*SUP_' + mcode]
    r = rng.random()
    if r < 0.78:
        def pick():
            if plain_abroad and rng.random() < 0.45:
                return rng.choice(plain_abroad)
            return rng.choice(plain_home if plain_home else plain)
        residual = list(pick())
        for _ in range(rng.choice([0, 0, 1, 1, 2])):
            others.append(list(pick()) + [rng.choice(texts)])
        if rng.random() > 0.06:
            # normally every supplier is registered once (the rare duplicate exercises the model's quirks only)
            seen, keep = {tuple(residual)}, []
            for o in others:
                if tuple(o[:2]) not in seen:
                    seen.add(tuple(o[:2])); keep.append(o)
            others = keep
    elif r < 0.84:
        # others but no residual: the residual is searched
        p = rng.choice(plain)
        others.append(list(p) + [rng.choice(texts)])
    pre_cross = ext is not None and foreign and rng.random() < 0.2
    return {'countries': countries, 'ext': ext, 'residual': residual, 'others': others, 'pre_cross': pre_cross}


# ----------------------------------------------------------------------------------------------
# implementation driver

def build(c):
    from sfc_models.models import Model, Country
    from sfc_models.sector import Sector, Market
    from sfc_models.external import ExternalSector
    mod = Model()
    ext = None
    objs = {}
    order = []
    market = None
    cobjs = []
    for ci, cd in enumerate(c['countries']):
        if c['ext'] == ci:
            ext = ExternalSector(mod)
        cobjs.append(Country(mod, cd['code'], currency=cd['cur']))
    if c['ext'] is not None and ext is None:
        ext = ExternalSector(mod)
    for ci, cd in enumerate(c['countries']):
        for si, sd in enumerate(cd['sectors']):
            if 'market' in sd:
                s = Market(cobjs[ci], sd['market'])
                market = s
            else:
                s = Sector(cobjs[ci], sd['code'], has_F=sd['hasF'])
                for n, blob, pre in sd['vars']:
                    s.AddVariable(n, '', blob)
                    for t in pre:
                        s.AddTermToEquation(n, t)
                for n in sd['excl']:
                    mod.AddCashFlowIncomeExclusion(s, n)
            objs[(ci, si)] = s
            order.append((ci, si))
    if c['residual'] is not None:
        market.AddSupplier(objs[tuple(c['residual'])])
    for ci, si, text in c['others']:
        market.AddSupplier(objs[(ci, si)], text)
    if c.get('pre_cross') and ext is not None:
        ext.GetCrossRate(HOME_CUR, ABROAD_CUR)
    mod._GenerateFullSectorCodes()
    return {'mod': mod, 'ext': ext, 'objs': objs, 'order': order, 'market': market, 'countries': cobjs}


_TERM_RE = re.compile(r'([+-]?)(?:(\d+(?:\.\d*)?)\*)?([A-Za-z_]\w*)')


def parse_sum(text):
    """'A+B-2.0*C' -> [(1,'A'),(1,'B'),(-2,'C')]; None when the text is not such a sum."""
    if text == '':
        return []
    out, pos = [], 0
    while pos < len(text):
        m = _TERM_RE.match(text, pos)
        if not m or m.end() == pos or (pos > 0 and m.group(1) == ''):
            return None
        k = 1.0 if m.group(2) is None else float(m.group(2))
        if m.group(1) == '-':
            k = -k
        if float(int(k)) != k:
            return None
        out.append((int(k), m.group(3)))
        pos = m.end()
    return out


def snapshot_eq(eq, structured=False):
    """(blob text, [(coefficient, term text)], ok) of one Equation object."""
    blob, terms, ok = '', [], True
    for i, t in enumerate(eq.TermList):
        if t.IsBlob:
            if i != 0:
                ok = False
            blob = t.Term
        else:
            if float(int(t.Constant)) != t.Constant:
                ok = False
            terms.append((int(t.Constant), t.Term))
    if structured:
        p = parse_sum(blob)
        if p is not None:
            blob, terms = '', p + terms
    return blob, terms, ok


def structured_names(b):
    """the three right-hand sides the market writes as text and the model keeps in parsed form"""
    m = b['market']
    out = {'DEM_' + m.Code, 'SUP_' + m.Code}
    if m.ResidualSupply is not None:
        out.add('SUP_' + m.ResidualSupply.FullCode)
    return out


def snapshot(b, structured=()):
    """state of every generated sector, the FX ledger and the cross-rate variables"""
    secs = []
    for key in b['order']:
        s = b['objs'][key]
        vs = []
        for name, eq in s.EquationBlock.Equations.items():
            st = (s is b['market']) and name in structured
            vs.append((name,) + snapshot_eq(eq, st))
        secs.append((key, vs))
    fx, cr = [], []
    if b['ext'] is not None:
        fxs = b['ext']['FX']
        for name in sorted(fxs.EquationBlock.Equations):
            if name.startswith('NET_'):
                blob, terms, ok = snapshot_eq(fxs.EquationBlock[name])
                fx.append((name[4:], terms, ok and blob == ''))
        cr = sorted(k for k in b['ext']['XR'].EquationBlock.Equations if '_' in k)
    return {'secs': secs, 'fx': fx, 'cr': cr}


def run_impl(c):
    """Build, record the state, run the market, record the state (or the error class)."""
    b = build(c)
    m = b['market']
    before = snapshot(b)
    # demanders / candidates recomputed from the public object model, before the call
    info = {'demanders': [], 'candidates': []}
    for s in m.CurrencyZone.GetSectors():
        if s is m:
            continue
        name = ('DEM_' + m.Code) if s.Parent is m.Parent else ('DEM_' + m.FullCode)
        if name in s.EquationBlock.Equations:
            info['demanders'].append((s, name))
    for s in m.Parent.GetSectors():
        if s is not m and ('SUP_' + m.Code) in s.EquationBlock.Equations:
            info['candidates'].append(s)
    info['residual_set'] = m.ResidualSupply is not None
    info['others'] = [s for s, _ in m.OtherSuppliers]
    info['before_rhs'] = {}
    for key in b['order']:
        s = b['objs'][key]
        for name, eq in s.EquationBlock.Equations.items():
            info['before_rhs'][(key, name)] = eq.RHS()
    err = None
    try:
        m._GenerateEquations()
    except Exception as e:                       # noqa: the class is the observable
        err = common.exc_class(e)
    after = None if err is not None else snapshot(b, structured_names(b))
    return b, before, after, err, info


# ----------------------------------------------------------------------------------------------
# Coq emission

def _terms(ts):
    return coq_list(['(%s, %s)' % (coq_Z(k), coq_list([coq_string(f) for f in t.split('*')])) for k, t in ts])


def _exp_terms(ts):
    return coq_list(['(%s, %s)' % (coq_Z(k), coq_string(t)) for k, t in ts])


def emit_case(c, b, before, after, err):
    ids = {key: i for i, key in enumerate(b['order'])}
    m = b['market']

    def zone(cur):
        out = []
        for key, vs in before['secs']:
            s = b['objs'][key]
            if s.CurrencyZone.Currency != cur:
                continue
            cd = c['countries'][key[0]]
            sd = cd['sectors'][key[1]]
            excl = [] if 'market' in sd else sd['excl']
            out.append('mkSector %s %s %s %s %s false %s %s %s' % (
                coq_nat(ids[key]), coq_string(s.Code), coq_string(cd['code']), coq_string(s.FullCode),
                coq_bool(s.HasF), coq_bool(s is m), coq_list([coq_string(x) for x in excl]),
                coq_list(['(%s, mkEqn %s %s)' % (coq_string(n), coq_string(bl), _terms(ts)) for n, bl, ts, _ in vs])))
        return coq_list(out)

    def exp_zone(cur):
        out = []
        for key, vs in after['secs']:
            if b['objs'][key].CurrencyZone.Currency != cur:
                continue
            out.append('(%s, %s)' % (coq_nat(ids[key]), coq_list(
                ['(%s, (%s, %s))' % (coq_string(n), coq_string(bl), _exp_terms(ts)) for n, bl, ts, _ in vs])))
        return coq_list(out)
    if b['ext'] is None:
        fxl = 'None'
    else:
        fxl = '(Some %s)' % coq_list(['(%s, %s)' % (coq_string(cur), _terms(ts)) for cur, ts, _ in before['fx']])
    world = '(mkWorld %s %s %s %s)' % (zone(HOME_CUR), zone(ABROAD_CUR), fxl,
                                       coq_list([coq_string(x) for x in before['cr']]))
    mid = [k for k in b['order'] if b['objs'][k] is m][0]
    residual = coq_option(None if c['residual'] is None else coq_nat(ids[tuple(c['residual'])]))
    others = coq_list(['(%s, %s)' % (coq_nat(ids[(ci, si)]), coq_string(text.replace(' ', '')))
                       for ci, si, text in c['others']])
    if err is not None:
        exp = '(ExpErr %s)' % err
    else:
        exp = '(ExpOk %s %s %s %s)' % (
            exp_zone(HOME_CUR), exp_zone(ABROAD_CUR),
            coq_list(['(%s, %s)' % (coq_string(cur), _exp_terms(ts)) for cur, ts, _ in after['fx']]),
            coq_list([coq_string(x) for x in after['cr']]))
    return 'market_case %s %s %s %s %s %s %s' % (coq_string(HOME_CUR), coq_string(ABROAD_CUR), world,
                                                 coq_nat(ids[mid]), residual, others, exp)


# ----------------------------------------------------------------------------------------------
# oracle (implementation only)

class _Uneval(Exception):
    pass


def _eval(text, lookup):
    try:
        tree = ast.parse(text, mode='eval').body
    except SyntaxError:
        raise _Uneval(text)

    def go(n):
        if isinstance(n, ast.BinOp):
            a, b_ = go(n.left), go(n.right)
            if isinstance(n.op, ast.Add):
                return a + b_
            if isinstance(n.op, ast.Sub):
                return a - b_
            if isinstance(n.op, ast.Mult):
                return a * b_
            if isinstance(n.op, ast.Div):
                if b_ == 0:
                    raise _Uneval(text)
                return a / b_
            raise _Uneval(text)
        if isinstance(n, ast.UnaryOp) and isinstance(n.op, (ast.USub, ast.UAdd)):
            x = go(n.operand)
            return -x if isinstance(n.op, ast.USub) else x
        if isinstance(n, ast.Name):
            return lookup(n.id)
        if isinstance(n, ast.Constant) and isinstance(n.value, (int, float)):
            return Fraction(repr(n.value))
        raise _Uneval(text)
    return go(tree)


def oracle(c, b, before, after, err, info):
    """The property, tested on the implementation alone.  Returns (failures, nontrivial?)."""
    fails = []
    m = b['market']
    rp = {'kind': 'market', 'case': c}

    def fail(key, what):
        fails.append({'key': key, 'what': what, 'replay': rp})
    # --- supplier search / refusal paths
    if not info['residual_set']:
        n = len(info['candidates'])
        if n != 1 and err != 'LogicError':
            fail('market:search-supplier', 'market %s has %d candidate suppliers in its country and no AddSupplier, '
                 'but _GenerateEquations ended with %r instead of LogicError' % (m.FullCode, n, err))
        if n == 1 and err == 'LogicError' and not any(
                s.CurrencyZone.ID != m.CurrencyZone.ID for s in info['others']) :
            fail('market:search-supplier', 'market %s has exactly one candidate supplier %s but raised LogicError'
                 % (m.FullCode, info['candidates'][0].FullCode))
    if err is not None:
        return fails, False
    sup_entries = list(m.OtherSuppliers)          # after the call: others followed by the residual
    sups = [s for s, _ in sup_entries]
    foreign = [s for s in sups if s.CurrencyZone.ID != m.CurrencyZone.ID]
    if foreign and b['ext'] is None:
        fail('market:foreign-supplier-accepted', 'supplier %s is in another currency zone and there is no '
             'ExternalSector, yet the market generated its equations' % foreign[0].FullCode)
        return fails, False
    # --- who is aggregated
    dem_eq = m.EquationBlock['DEM_' + m.Code]
    agg = parse_sum(dem_eq.RHS() if dem_eq.RHS() != '0.0' else '')
    want = sorted(s.GetVariableName(n) for s, n in info['demanders'])
    if agg is None or any(k != 1 for k, _ in agg):
        fail('market:demander-skipped', 'total demand of %s is not a plain sum of demand variables: %r'
             % (m.FullCode, dem_eq.RHS()))
        return fails, False
    got = sorted(n for _, n in agg)
    missing = [x for x in want if x not in got]
    extra_ = [x for x in got if x not in want] or ([] if len(got) == len(set(got)) else ['(duplicate summand)'])
    if missing:
        fail('market:demander-skipped', 'market %s aggregates %r; the sectors of its currency zone declaring a demand '
             'are %r: missing %r' % (m.FullCode, got, want, missing))
    if extra_:
        fail('market:demander-extra', 'market %s aggregates %r but only %r declare a demand: extra %r'
             % (m.FullCode, got, want, extra_))
    dup = len(set(s.ID for s in sups)) != len(sups)
    if dup:
        # a sector registered twice as supplier is outside the property's well-formed models
        return fails, False
    # --- valuations
    rng = _random.Random(json.dumps(c, sort_keys=True))
    by_full = {b['objs'][k].FullCode: b['objs'][k] for k in b['order']}
    key_of = {b['objs'][k].ID: k for k in b['order']}
    fresh = {}
    for s in sups:
        sn = m.GetSupplierTerm(s)
        fresh[s.ID] = info['before_rhs'].get((key_of[s.ID], sn), '') in ('', '0.0')
    installed = set((m.ID, v) for v in m.EquationBlock.Equations)
    for s in sups:
        if fresh[s.ID]:
            installed.add((s.ID, m.GetSupplierTerm(s)))
    memo, free = {}, {}
    busy = set()

    def free_value(name):
        if name not in free:
            free[name] = Fraction(rng.randint(1, 60), rng.randint(1, 9))
        return free[name]

    def val_full(full):
        code, _, local = full.partition('__')
        s = by_full.get(code)
        if s is None:
            return free_value(full)
        return val(s, local)

    def val(s, local):
        k = (s.ID, local)
        if k in memo:
            return memo[k]
        if k not in installed or local not in s.EquationBlock.Equations or k in busy:
            return free_value(s.FullCode + '__' + local)
        busy.add(k)
        try:
            r = _eval(s.EquationBlock[local].RHS(), lambda n: val_full(n) if '__' in n else val(s, n))
        except _Uneval:
            r = free_value(s.FullCode + '__' + local)
        busy.discard(k)
        memo[k] = r
        return r

    def term_value(s, text):
        p = Fraction(1)
        for f in text.split('*'):
            p *= val_full(f) if '__' in f else val(s, f)
        return p
    vdem, vsup = val(m, 'DEM_' + m.Code), val(m, 'SUP_' + m.Code)
    total = sum((val(s, n) for s, n in info['demanders']), Fraction(0))
    if vdem != total and not missing and not extra_:
        fail('market:demander-skipped', 'total demand of %s evaluates to %s, the declared demands sum to %s' % (m.FullCode, vdem, total))
    if vsup != vdem:
        fail('market:not-cleared', 'market %s: supply %s differs from demand %s (SUP = %r)'
             % (m.FullCode, vsup, vdem, m.EquationBlock['SUP_' + m.Code].RHS()))
    alloc = sum((val(m, 'SUP_' + s.FullCode) for s in sups), Fraction(0))
    if alloc != vsup:
        fail('market:allocation', 'market %s: the suppliers\' allocations %r sum to %s, total supply is %s (residual: %r)'
             % (m.FullCode, [s.FullCode for s in sups], alloc, vsup, m.EquationBlock['SUP_' + m.ResidualSupply.FullCode].RHS()))
    for s in sups:
        if not fresh[s.ID]:
            continue
        sn = m.GetSupplierTerm(s)
        own = val(s, sn)
        due = val(m, 'SUP_' + s.FullCode)
        if s.CurrencyZone.ID != m.CurrencyZone.ID:
            due = due * val_full('EXT_XR__%s_%s' % (m.CurrencyZone.Currency, s.CurrencyZone.Currency))
        if own != due:
            fail('market:supplier-amount', 'supplier %s: %s = %r evaluates to %s, the market allocates %s'
                 % (s.FullCode, sn, s.EquationBlock[sn].RHS(), own, due))
    # --- bookings
    if all(fresh.values()):
        bsecs, asecs = dict(before['secs']), dict(after['secs'])
        for cur in (HOME_CUR, ABROAD_CUR):
            tot = Fraction(0)
            touched = False
            for key in b['order']:
                s = b['objs'][key]
                if s.CurrencyZone.Currency != cur:
                    continue
                bf = dict((v[0], v) for v in bsecs[key]).get('F')
                af = dict((v[0], v) for v in asecs[key]).get('F')
                if af is None:
                    continue
                delta = {}
                for k, t in af[2]:
                    delta[t] = delta.get(t, 0) + k
                for k, t in (bf[2] if bf else []):
                    delta[t] = delta.get(t, 0) - k
                for t, k in delta.items():
                    if k != 0:
                        touched = True
                        tot += k * term_value(s, t)
            nb = dict((x[0], x[1]) for x in before['fx']).get(cur, [])
            na = dict((x[0], x[1]) for x in after['fx']).get(cur, [])
            delta = {}
            for k, t in na:
                delta[t] = delta.get(t, 0) + k
            for k, t in nb:
                delta[t] = delta.get(t, 0) - k
            for t, k in delta.items():
                tot += k * term_value(m, t)
            if tot != 0:
                fail('market:bookings-do-not-cancel', 'market %s: the entries booked on the F equations of zone %s '
                     '(plus the FX position in %s) sum to %s instead of 0; demanders %r, suppliers %r'
                     % (m.FullCode, cur, cur, tot, want, [s.FullCode for s in sups]))
    return fails, bool(info['demanders']) and len(sups) >= 1


def check_snapshot_ok(before, after):
    for snap in (before, after):
        if snap is None:
            continue
        for _, vs in snap['secs']:
            if not all(v[3] for v in vs):
                return False
        if not all(x[2] for x in snap['fx']):
            return False
    return True


# ----------------------------------------------------------------------------------------------
# entry points

TRUSTED = [
    'hand-written model coq/GenMarket/Market.v of Market._SearchSupplier/_GenerateTermsLowLevel/_GenerateMultiSupply/'
    '_GenerateEquations on the state of coq/Gen/Zone.v (Sector.AddVariable/AddTermToEquation/AddCashFlow) and coq/Gen/Fx.v '
    '(_SendMoney/_ReceiveMoney), tied to the code by the per-variable correspondence of harness/gen_market.py; the three '
    'right-hand sides the market writes as text (DEM_<code>, SUP_<code>, residual SUP_<full code>) are compared as parsed '
    '(coefficient, name) lists (harness parse_sum), all other equations as (blob text, term list)']
ASSUMPTIONS = [
    'market model: each supplier is passed to AddSupplier once and is not the market itself; no supplier full code equals '
    'the market short code; variable names and full codes are free of "__" where the Python would raise ValueError; a '
    'supplier supply variable that already had a non-zero right-hand side keeps it as a summand (theorem '
    'Market_supplier_amount states the general form); Term parsing (character level) is the subject of coq/Eqn, terms '
    'here are parsed name factors']


def merge_proof(out):
    """Add the obligations of coq/GenMarket/PropMarket.v to out.proof (a dict from common.proof_status)."""
    for fam, pf in PROOFS:
        st = common.proof_status(fam, pf)
        if out.proof is None:
            out.proof = st
            continue
        p = out.proof
        p['theorems'] = list(p.get('theorems', [])) + list(st.get('theorems', []))
        a = dict(p.get('assumptions') or {})
        a.update(st.get('assumptions') or {})
        p['assumptions'] = a
        p['forbidden'] = list(p.get('forbidden', [])) + list(st.get('forbidden', []))
        p['broken'] = list(p.get('broken', [])) + ['%s/%s: %s' % (fam, pf, b) for b in st.get('broken', [])]
        p['ok'] = bool(p.get('ok')) and bool(st.get('ok'))
        if st.get('log'):
            p['log'] = (p.get('log') or '') + '\n' + st['log']
        p['propfile'] = '%s + %s/%s' % (p.get('propfile'), fam, pf)
        p['build_wall_s'] = round(p.get('build_wall_s', 0) + st.get('build_wall_s', 0), 2)
    return out


def extra(ctx, out, quick_n=350, thorough_n=5000):
    n = ctx.scale(quick_n, thorough_n)
    cases, metas = [], []
    dist = {'cases': 0, 'errors': {}, 'foreign_supplier': 0, 'searched': 0, 'multi_country': 0, 'two_suppliers_or_more': 0,
            'demanders_other_country': 0, 'duplicate_supplier': 0, 'nontrivial': 0}
    distinct = set()
    for _ in range(n):
        c = gen_case(ctx.rng)
        b, before, after, err, info = run_impl(c)
        fails, nontriv = oracle(c, b, before, after, err, info)
        out.failures.extend(fails)
        if not check_snapshot_ok(before, after):
            out.failures.append({'key': 'market:unexpected-equation-shape', 'what': 'non-integer coefficient or misplaced blob',
                                 'replay': {'kind': 'market', 'case': c}})
        cases.append(emit_case(c, b, before, after, err))
        metas.append(c)
        m = b['market']
        dist['cases'] += 1
        if err is not None:
            dist['errors'][err] = dist['errors'].get(err, 0) + 1
        if c['residual'] is None:
            dist['searched'] += 1
        if len(c['countries']) > 1:
            dist['multi_country'] += 1
        if err is None:
            sups = [s for s, _ in m.OtherSuppliers]
            if any(s.CurrencyZone.ID != m.CurrencyZone.ID for s in sups):
                dist['foreign_supplier'] += 1
            if len(sups) >= 2:
                dist['two_suppliers_or_more'] += 1
            if len(set(s.ID for s in sups)) != len(sups):
                dist['duplicate_supplier'] += 1
            if any(s.Parent is not m.Parent for s, _ in info['demanders']):
                dist['demanders_other_country'] += 1
        if nontriv:
            distinct.add(json.dumps(c, sort_keys=True))
    bad, errs = common.run_bool_cases(FAMILY, REQUIRES, cases, tag='gm' + ctx.pid, shard=120)
    out.corr_errors.extend(errs)
    for i in bad[:10]:
        out.disagreements.append({'market_case': metas[i], 'coq': cases[i][:1500]})
    dist['nontrivial'] = len(distinct)
    out.evaluations += len(cases)
    out.nontrivial += len(distinct)
    out.extra['market_model'] = dist
    out.trusted_base = list(out.trusted_base or []) + TRUSTED
    out.assumptions = list(out.assumptions or []) + ASSUMPTIONS
    if metas:
        out.samples.append({'market_case': metas[0]})
    return out


def replay(obj):
    """`obj` is the loaded replay file (dict with key 'replay') or the inner {'kind': 'market', 'case': ...}."""
    r = obj.get('replay', obj) or {}
    if r.get('kind') != 'market':
        return 0
    c = r['case']
    b, before, after, err, info = run_impl(c)
    fails, _ = oracle(c, b, before, after, err, info)
    for f in fails:
        print('FAILS [%s]: %s' % (f['key'], f['what'][:400]))
    print('replay: %s' % ('property violated' if fails else 'property holds on this input'))
    return 1 if fails else 0
