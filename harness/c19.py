"""C19 — tab-delimited output is a faithful table of the results.

Proof: coq/Out/PropC19.v (header permutation / order, row count, cells, parse round trip).
Correspondence: TimeSeriesHolder.GenerateCSVtext and GetSeriesList on random holders (ragged, many
names, ints and floats, several format strings) against the model [csv] with Python-formatted cells.
Oracle: parse the implementation's text back: header = every key once, priority names first in
priority order and the rest ascending; min-length rows; every cell equals format % value and, for
%g/%e/%f formats, float(cell) is within the format's precision of the value; after a real solve the
table has horizon+1 rows.
"""
import json
import math

import common
from common import coq_string, coq_list

PID = 'C19'
FAMILY = 'Out'
PROPFILE = 'PropC19.v'
LEVEL = 'proof'
REQUIRES = ['From SFC.Base Require Import Res.', 'From SFC.Out Require Import Series Csv CaseDefs.']
PRIORITY = ['iteration', 'iteration_error', 'iteration_abs_change', 'k', 't']
POOL = PRIORITY + ['x', 'y', 'HH__F', 'GOV__T', 'A', 'a', 'Z', '_u', 'k2', 'tt', 'iter', 'x10', 'x9', 'B_c', 'zeta']
FORMATS = ['%.5g', '%.5g', '%d', '%s', '%r', '%.3f', '%10.4e', '%g', '%.12g', '%+.2f']


def gen_case(rng):
    n = rng.choice([0, 1, 2, 3, 5, 8, 12])
    names = rng.sample(POOL, min(n, len(POOL)))
    base = rng.randint(0, 6)
    if rng.random() < 0.03:
        # a long table (more rows than any block size an implementation might buffer)
        n = rng.choice([1, 2, 3])
        names = rng.sample(POOL, n)
        base = rng.choice([257, 258, 300, 513, 600, 1030])
    fmt = rng.choice(FORMATS)
    series = {}
    for nm in names:
        ln = base if (rng.random() < 0.7 or base > 8) else rng.randint(0, 8)
        vals = []
        for _ in range(ln):
            r = rng.random()
            if fmt == '%d' or r < 0.3:
                vals.append(rng.randint(-1000, 100000))
            elif r < 0.8:
                vals.append(rng.uniform(-100, 100))
            elif r < 0.9:
                vals.append(rng.choice([1e-12, -3.5e17, 1e308, 5e-324, 0.0, -0.0, 123456789.123456789]))
            else:
                vals.append(rng.choice([float('inf'), float('-inf'), float('nan')]))
        series[nm] = vals
    c = {'series': series, 'order': names, 'fmt': fmt}
    if names and rng.random() < 0.3:
        c['second'] = rng.choice(['append', 'revise'])
    return c


def run_impl(c):
    """An exception while rendering is itself a failure of the property (a table exists for EVERY set of series,
    ragged ones included): it is returned as {'raised': ...} and reported with the input as the replay.  Exceptions
    of Python's own % formatting of one cell (the trusted parameter of the model) are not caught."""
    try:
        return run_impl0(c)
    except (ValueError, TypeError, OverflowError):
        raise
    except Exception as e:
        return {'raised': '%s: %s' % (type(e).__name__, e)}


def run_impl0(c):
    from sfc_models.utils import TimeSeriesHolder
    h = TimeSeriesHolder('k')
    for nm in c['order']:
        h[nm] = list(c['series'][nm])
    # the solver-level entry point must give the same table
    from sfc_models.equation_solver import EquationSolver
    es = EquationSolver()
    es.TimeSeries = h
    via_solver = es.GenerateCSVtext(c['fmt'])
    res = {'text': h.GenerateCSVtext(c['fmt']), 'header': h.GetSeriesList(), 'via_solver': via_solver}
    # the same solver object asked again after its stored series changed (a value revised in place, a point
    # appended to every series): the table must show the series as they are now
    if c.get('second'):
        c2 = second_case(c)
        for nm in c2['order']:
            h[nm][:] = list(c2['series'][nm])
        res['second'] = {'case': c2, 'text': h.GenerateCSVtext(c['fmt']), 'header': h.GetSeriesList(),
                         'via_solver': es.GenerateCSVtext(c['fmt'])}
    return res


def second_case(c):
    c2 = {'series': {k: list(v) for k, v in c['series'].items()}, 'order': list(c['order']), 'fmt': c['fmt']}
    kind = c['second']
    for i, nm in enumerate(c2['order']):
        v = c2['series'][nm]
        if kind == 'append':
            v.append((v[-1] if v else 0) + 1 + i)
        elif v:
            x = v[len(v) // 2]
            v[len(v) // 2] = (x * 3 + 1) if isinstance(x, int) or math.isfinite(x) else 2.5
    return c2


def oracle(c, res):
    fails = []
    keys = c['order']
    if 'raised' in res:
        return [{'key': 'GenerateCSVtext:raised',
                 'what': 'rendering the table raised %s (series lengths %r, format %r)' % (
                     res['raised'], [(k, len(c['series'][k])) for k in keys], c['fmt']),
                 'replay': {'kind': 'table', 'case': c}}]
    text = res['text']
    if res.get('via_solver') != text:
        fails.append({'key': 'EquationSolver.GenerateCSVtext:differs-from-holder',
                      'what': 'EquationSolver.GenerateCSVtext(%r) differs from the holder\'s table' % (c['fmt'],),
                      'replay': {'kind': 'table', 'case': c}})

    def fail(key, what):
        fails.append({'key': key, 'what': what, 'replay': {'kind': 'table', 'case': c}})
    if not keys:
        if text != '':
            fail('GenerateCSVtext:nonempty-for-empty', 'empty holder rendered %r' % text)
        return fails
    lines = text.split('\n')
    if lines[-1] != '':
        fail('GenerateCSVtext:no-final-newline', 'text does not end with a newline')
        return fails
    lines = lines[:-1]
    hdr = lines[0].split('\t')
    if sorted(hdr) != sorted(keys):
        fail('GenerateCSVtext:header-not-a-permutation', 'header %r vs keys %r' % (hdr, keys))
        return fails
    pri = [p for p in PRIORITY if p in keys]
    rest = sorted(k for k in keys if k not in PRIORITY)
    if hdr != pri + rest:
        fail('GenerateCSVtext:header-order', 'header %r, expected %r' % (hdr, pri + rest))
    n = min(len(c['series'][k]) for k in keys)
    if len(lines) - 1 != n:
        fail('GenerateCSVtext:row-count', '%d data rows, shortest series has %d points' % (len(lines) - 1, n))
        return fails
    for i, ln in enumerate(lines[1:]):
        cells = ln.split('\t')
        if len(cells) != len(hdr):
            fail('GenerateCSVtext:ragged-row', 'row %d has %d cells' % (i, len(cells)))
            return fails
        for nm, cell in zip(hdr, cells):
            x = c['series'][nm][i]
            if cell != c['fmt'] % (x,):
                fail('GenerateCSVtext:cell-not-formatted-value', 'cell %r for %s[%d]=%r' % (cell, nm, i, x))
                return fails
            m = None
            import re
            m = re.match(r'^%[+ 0-9]*\.(\d+)([gef])$', c['fmt'])
            if m and isinstance(x, float) and math.isfinite(x):
                p, kind = int(m.group(1)), m.group(2)
                back = float(cell)
                if kind in 'ge':
                    digits = p if kind == 'g' else p + 1
                    tol = 0.5 * 10 ** (1 - max(digits, 1)) * abs(x) * 1.0000001 + 5e-324
                else:
                    tol = 0.5 * 10 ** (-p) * 1.0000001
                if abs(back - x) > tol:
                    fail('GenerateCSVtext:precision', 'float(%r) differs from %r by more than the format precision' % (cell, x))
                    return fails
    return fails


def solved_rows_oracle():
    """After a real solve the table has horizon+1 data rows (C19 last sentence)."""
    from sfc_models.equation_solver import EquationSolver
    fails = []
    for T in (1, 3, 7):
        es = EquationSolver('x = 0.5*LAG_x + G\nLAG_x = x(k-1)\nd = 2*x\nexogenous\nG = [1.0]*20\nMaxTime = %d' % T)
        es.SolveEquation()
        text = es.GenerateCSVtext()
        rows = text.split('\n')[1:-1]
        if len(rows) != T + 1:
            fails.append({'key': 'GenerateCSVtext:solved-row-count', 'what': 'horizon %d gave %d rows' % (T, len(rows)),
                          'replay': {'kind': 'solved', 'T': T}})
    return fails


def emit(c, res):
    st = coq_list(['(%s, %s)' % (coq_string(nm), coq_list([coq_string(c['fmt'] % (x,)) for x in c['series'][nm]]))
                   for nm in c['order']])
    return 'c19_case %s %s %s' % (st, coq_string(res['text']), coq_list([coq_string(x) for x in res['header']]))


def run(ctx):
    out = common.Outcome()
    out.proof = common.proof_status(FAMILY, PROPFILE)
    n = ctx.scale(400, 6000)
    cases, metas, seen = [], [], set()
    stats = {'empty': 0, 'ragged': 0, 'with_priority': 0, 'nonfinite': 0}
    for _ in range(n):
        c = gen_case(ctx.rng)
        res = run_impl(c)
        out.failures.extend(oracle(c, res))
        if 'raised' in res:
            stats['raised'] = stats.get('raised', 0) + 1
            continue
        if 'second' in res:
            stats['second_call'] = stats.get('second_call', 0) + 1
            for f in oracle(res['second']['case'], res['second']):
                f['key'] = f['key'] + ':second-call'
                f['what'] = 'second call on the same solver after the series changed (%s): %s' % (c['second'], f['what'])
                f['replay'] = {'kind': 'table', 'case': c}
                out.failures.append(f)
        cells = sum(len(v) for v in c['series'].values())
        if cells <= 400:
            cases.append(emit(c, res))
            metas.append(c)
        else:
            stats.setdefault('long_tables_oracle_only', 0)
            stats['long_tables_oracle_only'] += 1
        lens = set(len(v) for v in c['series'].values())
        stats['empty'] += 1 if not c['order'] else 0
        stats['ragged'] += 1 if len(lens) > 1 else 0
        stats['with_priority'] += 1 if any(k in PRIORITY for k in c['order']) else 0
        stats['nonfinite'] += 1 if any(isinstance(x, float) and not math.isfinite(x) for v in c['series'].values() for x in v) else 0
        if len(c['order']) >= 2 and min(lens) >= 1:
            seen.add(json.dumps([c['order'], c['fmt'], [repr(v) for v in c['series'].values()]]))
    out.failures.extend(solved_rows_oracle())
    bad, errs = common.run_bool_cases(FAMILY, REQUIRES, cases, tag=PID)
    out.corr_errors = errs
    for i in bad[:20]:
        out.disagreements.append({'input': metas[i], 'case': cases[i][:600]})
    out.evaluations = len(cases) + stats.get('long_tables_oracle_only', 0)
    out.nontrivial = len(seen)
    out.rule = ('random TimeSeriesHolder contents: 0-12 names drawn from priority and ordinary names, equal or ragged '
                'lengths 0-8, ints and floats of every magnitude incl. inf/nan, ten format strings; compared: '
                'GenerateCSVtext text and GetSeriesList against the model with Python-formatted cells; '
                'non-trivial = at least two series and one data row; distinct by full input')
    out.samples = [{'order': m['order'], 'fmt': m['fmt'], 'series': {k: [repr(x) for x in v] for k, v in m['series'].items()}}
                   for m in metas[:3]]
    out.extra = {'input_distribution': stats, 'source_hashes': common.source_hashes(['sfc_models/utils.py'])}
    out.trusted_base = ['Coq 8.16.1 kernel + vm_compute', 'hand-written model coq/Out/Csv.v (tied by this correspondence)',
                        "Python's % formatting of a single cell (the model's parameter fmt)",
                        'no axioms (Print Assumptions: closed under the global context)']
    out.assumptions = ["'parsing recovers every value to the format's precision' rests on C printf: checked by the "
                       "oracle on the generated floats (support, not proof)", 'series names contain no tab/newline']
    return out


def replay(path):
    obj = json.load(open(path))
    r = obj.get('replay') or {}
    if r.get('kind') == 'table':
        c = r['case']
        res = run_impl(c)
        fails = oracle(c, res)
        if 'second' in res:
            fails += oracle(res['second']['case'], res['second'])
    elif r.get('kind') == 'solved':
        fails = solved_rows_oracle()
    else:
        print('replay names a proof/correspondence obligation, nothing to execute:', json.dumps(obj)[:500])
        return 1
    for f in fails:
        print('FAILS:', f['key'], f['what'][:300])
    print('replay: %s' % ('property violated' if fails else 'property holds on this input'))
    return common.replay_status(PID, fails)
