"""C18 at program level: the whole-pipeline model commutes with a renaming of codes (coq/GenRename).

Integration (the lead adds it to harness/c18.py):

    import gen_rename
    ... proof_status_many([(FAMILY, PROPFILE)] + gen_rename.PROOFS)
    gen_rename.extra(ctx, out)          # appends evaluations / nontrivial / disagreements / corr_errors / trusted_base,
                                        # out.extra['rename_model']
    if (obj.get('replay') or {}).get('kind') == 'rename_model': return gen_rename.replay(obj)

Proof: coq/GenRename/PropRename.v — for ALL programs p of the model language and all finite renamings rho,
    renaming_ok rho p = true  ->  build (rename_program rho p) = rmap (rename_system rho) (build p)
(errors included; rows sector by sector in the order of the new names) and its semantic corollaries.
Tie to the code, on every run, for generated programs (gen_common.ProgGen.any(), plus damaged variants) and the code
maps harness/c18.py uses (its rename_program is reused to rename the PYTHON program):
  (a) renaming_ok rho p is evaluated (distribution reported: how often it holds, and which part fails);
  (b) the model's rename_program rho p equals, step by step, the rendering of the renamed Python program, and
      build (rename_program rho p) equals the IMPLEMENTATION's outcome on the renamed Python program;
  (c) whenever renaming_ok holds, rename_system rho (build p) equals the implementation's outcome on the renamed
      Python program (row by row in emission order, initial conditions, or the error class).
A disagreement in (b) or (c) is reported; renaming_ok = false is not a disagreement (for those programs (c) is
evaluated too and counted in the distribution: `c_holds_without_side_condition`).
"""
import copy
import json
import random
import re

import common
from common import coq_string, coq_list, coq_nat, coq_bool, coq_option
import gen_common
import gen_main
import gen_main2
import c18

PROOFS = [('GenRename', 'PropRename.v')]
FAMILY = 'GenRename'
REQUIRES = ['From SFC.Base Require Import Res Str.', 'From SFC.Gen Require Import Fx Zone.',
            'From SFC.GenMain2 Require Import Program Classes Main CaseDefs Program2 Main2.',
            'From SFC.GenRename Require Import RStr RFix Ren ConsEq MainEq Equivariance Concrete Rename CaseDefs '
            'Cons2Eq Main2Eq Equivariance2 Rename2 CaseDefs2.']

OutOfLanguage = gen_main.OutOfLanguage


def squeeze(text):
    """Term(text, is_blob=True): strip, then drop interior blanks (Weighting.squeeze in the model)."""
    return text.strip(' \t\n\x0b\x0c\r').replace(' ', '')


def render_op_sq(st, sref, names):
    """gen_main2.render_op with the expression texts stored the way Term() stores them (no blanks)."""
    st = dict(st)
    op = st['op']
    if op == 'AddVariable':
        return 'OAddVariable %s %s %s' % (sref(st['sector']), coq_string(st['name']), coq_string(squeeze(gen_main._subst(st['eqn'], names))))
    if op == 'SetExogenous':
        v = st['value']
        if st.get('as') == 'list':
            v = repr(eval(v))
        elif st.get('as') == 'tuple':
            v = repr(tuple(eval(v)))
        return 'OSetExogenous %s %s %s' % (sref(st['sector']), coq_string(st['name']), coq_string(squeeze(v)))
    if op == 'AddSupplier':
        e = st.get('eqn')
        return 'OAddSupplier %s %s %s' % (sref(st['market']), sref(st['supplier']),
                                          coq_option(None if e is None else coq_string(squeeze(gen_main._subst(e, names)))))
    if op == 'AssetWeighting':
        ws = coq_list(['(%s, %s)' % (coq_string(c_), coq_string(squeeze(gen_main._subst(e_, names)))) for c_, e_ in st['weights']])
        return 'OAssetWeighting %s %s %s' % (sref(st['sector']), ws, coq_string(st['residual']))
    return gen_main2.render_op(st, sref, names)


def render_program_sq(prog, names):
    """The steps of a single-currency program as a Coq `Program.program` (as gen_main.render_program, texts squeezed)."""
    cidx, sidx = {}, {}
    steps = []
    pending = []

    def sref(i):
        if i not in sidx:
            raise OutOfLanguage('reference to an object that does not exist: %r' % (i,))
        return coq_nat(sidx[i])

    for st in prog['steps']:
        k = st['kind']
        if k == 'country':
            cidx[st['id']] = len(cidx)
            steps.append('StCountry %s' % coq_string(st['code']))
        elif k == 'sector':
            kw = dict(st.get('kw', {}))
            late = None
            for key in list(kw):
                v = kw[key]
                if isinstance(v, dict) and 'ref' in v and v.get('late_ok') and v['ref'] not in sidx:
                    late = (st['id'], v['ref'])
                    del kw[key]
            c = gen_main2.render_cls(st['cls'], kw, sref)
            steps.append('StSector %s %s %s' % (coq_nat(cidx[st['country']]), coq_string(st['code']), c))
            sidx[st['id']] = len(sidx)
            if late is not None:
                pending.append(late)
            for (cb, tre) in list(pending):
                if cb in sidx and tre in sidx:
                    steps.append('StOp (OSetTreasury %s %s)' % (coq_nat(sidx[cb]), coq_nat(sidx[tre])))
                    pending.remove((cb, tre))
        elif k == 'op':
            steps.append('StOp (%s)' % render_op_sq(st, sref, names))
        else:
            raise OutOfLanguage('step ' + k)
    return coq_list(steps)


def render_program2_sq(prog, names):
    """The steps of a program as a Coq `Program2.program2` (as gen_main2.render_program2, texts squeezed)."""
    cidx, sidx = {}, {}
    steps = []
    pending = []

    def sref(i):
        if i not in sidx:
            raise OutOfLanguage('reference to an object that does not exist: %r' % (i,))
        return coq_nat(sidx[i])

    for st in prog['steps']:
        k = st['kind']
        if k == 'country':
            cidx[st['id']] = len(cidx)
            cur = st.get('currency')
            steps.append('S2Country %s %s %s' % (coq_string(st['code']), coq_option(None if cur is None else coq_string(cur)),
                                                coq_bool(bool(st.get('region')))))
        elif k == 'external':
            cidx[st['id']] = len(cidx)
            for nm in ('XR', 'FX', 'GOLD'):
                sidx[nm] = len(sidx)
            steps.append('S2External')
        elif k == 'sector':
            kw = dict(st.get('kw', {}))
            cls = st['cls']
            late = None
            for key in list(kw):
                v = kw[key]
                if isinstance(v, dict) and 'ref' in v and v.get('late_ok') and v['ref'] not in sidx:
                    late = (st['id'], v['ref'])
                    del kw[key]
            if cls == 'GoldStandardGovernment':
                c = '(CGoldGov %s)' % coq_string(str(float(kw.get('initial_gold_stock', 0.0))))
            elif cls == 'GoldStandardCentralBank':
                t = kw.get('treasury')
                c = '(CGoldCB %s %s)' % (coq_option(None if t is None else sref(t['ref'])),
                                         coq_string(str(float(kw.get('initial_gold_stock', 0.0)))))
            else:
                c = '(COld %s)' % gen_main2.render_cls(cls, kw, sref)
            steps.append('S2Sector %s %s %s' % (coq_nat(cidx[st['country']]), coq_string(st['code']), c))
            sidx[st['id']] = len(sidx)
            if late is not None:
                pending.append(late)
            for (cb, tre) in list(pending):
                if cb in sidx and tre in sidx:
                    steps.append('S2Op (UOld (OSetTreasury %s %s))' % (coq_nat(sidx[cb]), coq_nat(sidx[tre])))
                    pending.remove((cb, tre))
        elif k == 'op':
            if st['op'] == 'AddMarket':
                steps.append('S2Op (UAddMarket %s %s)' % (sref(st['sector']), sref(st['market'])))
            else:
                steps.append('S2Op (UOld (%s))' % render_op_sq(st, sref, names))
        else:
            raise OutOfLanguage('step ' + k)
    return coq_list(steps)


def names2_of(prog):
    try:
        return gen_main2.final_names2(prog)
    except Exception:
        return gen_main2.static_names2(prog)


def is_single_currency(prog):
    if any(st['kind'] == 'external' for st in prog['steps']):
        return False
    curs = set()
    for st in prog['steps']:
        if st['kind'] == 'country':
            if st.get('currency') is not None:
                return False            # explicit currencies: the multi-currency language
            if not st.get('region') and curs:
                return False
            curs.add(st['code'])
    return True


def names_of(prog):
    try:
        return gen_main.final_names(prog)
    except OutOfLanguage:
        raise
    except Exception:
        return gen_main.static_names(prog)


def pieces_in_use(prog):
    """Every alphanumeric word that occurs in a code, name parameter, variable name or expression text of the program."""
    words = set()

    def walk(x):
        if isinstance(x, str):
            words.update(re.findall(r'[A-Za-z0-9]+', x))
        elif isinstance(x, dict):
            for k, v in x.items():
                if k not in ('id', 'kind', 'cls', 'op', 'country', 'sector', 'src', 'tgt', 'market', 'supplier', 'ref', 'refs', 'attr'):
                    walk(v)
        elif isinstance(x, (list, tuple)):
            for v in x:
                walk(v)
    for st in prog['steps']:
        walk(st)
        if st['kind'] == 'sector':
            for k, default in c18.NAME_KW.get(st['cls'], {}).items():
                words.update(re.findall(r'[A-Za-z0-9]+', st.get('kw', {}).get(k, default)))
    return words


def renaming_pairs(cm, prog=None):
    """(pairs, injective): old -> new for the old words the program uses (the other entries of the map rename
    nothing; that this restriction is the harness's renaming is part of what rename_check verifies), closed to a
    permutation by new -> old.  When a new word is already in use in the program the code map is not injective on
    the words in use (outside the property's quantifier): then the one-directional map is returned (perm_ok fails,
    only the (b) checks apply)."""
    used = pieces_in_use(prog) if prog is not None else None
    pairs = [(k, v) for k, v in sorted(cm.items()) if k != v and (used is None or k in used)]
    injective = used is None or not any(v in used for _, v in pairs)
    if injective:
        pairs = pairs + [(b, a) for a, b in pairs]
    return pairs, injective


def coq_renaming(cm, prog=None):
    pairs, _ = renaming_pairs(cm, prog)
    return coq_list(['(%s, %s)' % (coq_string(a), coq_string(b)) for a, b in pairs])


def expected(res):
    if res[0] == 'err':
        return '(ExpErr %s)' % res[1]
    return '(ExpOk %s %s %s %s)' % tuple(gen_main._pairs(x) for x in res[1:])


def code_map(rng):
    """The code maps of harness/c18.py (same distribution)."""
    cm = {k: c18.NEW[k] for k in c18.NEW if rng.random() < 0.6}
    if rng.random() < 0.35:
        alt = {'HH': 'B', 'HW': 'FI', 'CAP': 'ST', 'BUS': 'FIRM', 'CB': 'BANK', 'TRE': 'FISC', 'GOV': 'STATE'}
        for k2 in alt:
            if rng.random() < 0.7:
                cm[k2] = alt[k2]
    if rng.random() < 0.5:
        cm.pop('GOOD', None)      # the goods market keeps its name (the case the side condition admits next to a government)
    return cm


def gen_pairs(ctx, n):
    out = []
    for i in range(n):
        seed = ctx.rng.randrange(10 ** 9)
        pg = gen_common.ProgGen(random.Random(seed), shuffle=False, explicit_gov_demand=True)
        prog = pg.any()
        label = prog.get('shape')
        if ctx.rng.random() < 0.25:
            d = gen_main.damage(ctx.rng, prog)
            if d is not None:
                prog, label = d
                label = 'damaged:' + label
        elif ctx.rng.random() < 0.12:
            d = gen_main2.damage2(ctx.rng, prog)
            if d is not None:
                prog, label = d
                label = 'damaged:' + label
        out.append((prog, label, code_map(ctx.rng)))
    return out


def _run_nat_cases(cases, tag, shard=12, jobs=8):
    """Evaluate Coq terms of type nat; returns (values or None per case, errors)."""
    from concurrent.futures import ThreadPoolExecutor
    header = common.STD_HEADER + '\n'.join(REQUIRES) + '\n'
    shards = [(i, cases[i:i + shard]) for i in range(0, len(cases), shard)]
    vals, errors = [None] * len(cases), []

    def one(sh):
        off, cs = sh
        body = 'Eval vm_compute in (%s).' % coq_list(['(%s)' % c for c in cs])
        rc, out = common.coq_run(FAMILY, header, body, tag=tag)
        return off, cs, rc, out

    with ThreadPoolExecutor(max_workers=jobs) as ex:
        for off, cs, rc, out in ex.map(one, shards):
            flat = ' '.join(out.split())
            m = re.search(r'= \[(.*?)\](?:%nat)? : list nat', flat)
            if rc != 0 or not m:
                errors.append({'offset': off, 'n': len(cs), 'output': out[-1500:]})
                continue
            xs = [int(x.replace('%nat', '')) for x in m.group(1).split(';') if x.strip()]
            if len(xs) != len(cs):
                errors.append({'offset': off, 'n': len(cs), 'output': 'case count mismatch'})
                continue
            for j, x in enumerate(xs):
                vals[off + j] = x
    return vals, errors


WHY = {5: 'white space in a full code', 0: 'holds', 1: 'renaming not a permutation of admissible pieces', 2: 'a step of the program (blank in a text, exogenous text, GOOD next to a government)',
       3: 'deposit market code', 4: 'EXOGENOUS inside a longer word of a row text'}

TRUSTED = [
    'GenRename: theorems about the hand-written pipeline model coq/GenMain2 (tied to the code by harness/gen_main.py and, for '
    'renamed twins, by harness/gen_rename.py); the renaming of the Python program is harness/c18.py rename_program (piecewise on '
    '_-separated name parts, identifiers inside expression texts), checked step by step against the model\'s rename_program; '
    'expression texts enter the model with blanks removed (as Term(..., is_blob=True) stores them)',
]
ASSUMPTIONS = [
    'GenRename: Main_rename_equivariant holds under the decidable side condition renaming_ok rho p (rho a permutation of '
    'admissible pieces that moves no reserved word; texts without white space; exogenous texts not starting with a letter or '
    'digit; GOOD/PRIM/BAL/FISC fixed next to a government class (D18c); deposit market codes fixed; EXOGENOUS only as a whole word '
    'in the emitted row texts), '
    'evaluated on every generated (program, code map) and reported in extra.rename_model',
]


def extra(ctx, out, quick_n=70, thorough_n=900):
    n = ctx.scale(quick_n, thorough_n)
    dist = {'pairs': 0, 'out_of_language': 0, 'shapes': {}, 'errors_twin': {}, 'renaming_ok_true': 0, 'renaming_ok_false': {},
            'good_renamed': 0, 'c_holds_without_side_condition': 0, 'c_fails_without_side_condition': 0, 'identity_maps': 0}
    why_cases, chk_cases, info_cases, metas = [], [], [], []
    distinct = set()
    for prog, label, cm in gen_pairs(ctx, n):
        try:
            p2 = c18.rename_program(prog, cm)
            single = False
            if is_single_currency(prog) and ctx.rng.random() < 0.8:
                try:
                    cp = render_program_sq(prog, names_of(prog))
                    cp2 = render_program_sq(p2, names_of(p2))
                    single = True
                except OutOfLanguage:
                    single = False
            if not single:
                cp = render_program2_sq(prog, names2_of(prog))
                cp2 = render_program2_sq(p2, names2_of(p2))
        except (OutOfLanguage, KeyError):
            dist['out_of_language'] += 1
            continue
        sfx = '' if single else '2'
        res2 = gen_main.run_impl(p2)
        rho = coq_renaming(cm, prog)
        why_cases.append('why_not%s %s %s' % (sfx, rho, cp))
        chk_cases.append('rename_check%s %s %s %s %s' % (sfx, rho, cp, cp2, expected(res2)))
        info_cases.append('renamed_sys_case%s %s %s %s' % (sfx, rho, cp, expected(res2)))
        metas.append({'kind': 'rename_model', 'prog': gen_common.strip_prog(prog) if 'infos' in prog else prog, 'codes': cm,
                      'model': 'build' if single else 'build2'})
        dist['pairs'] += 1
        dist['model_build' if single else 'model_build2'] = dist.get('model_build' if single else 'model_build2', 0) + 1
        dist['shapes'][label] = dist['shapes'].get(label, 0) + 1
        dist['good_renamed'] += 1 if cm.get('GOOD', 'GOOD') != 'GOOD' else 0
        dist['identity_maps'] += 1 if not renaming_pairs(cm, prog)[0] else 0
        dist['non_injective_maps'] = dist.get('non_injective_maps', 0) + (0 if renaming_pairs(cm, prog)[1] else 1)
        if res2[0] == 'err':
            dist['errors_twin'][res2[1]] = dist['errors_twin'].get(res2[1], 0) + 1
        distinct.add(json.dumps([res2, sorted(cm.items())], sort_keys=True, default=str))
    whys, errs = _run_nat_cases(why_cases, 'rnw' + ctx.pid)
    out.corr_errors.extend(errs)
    bad, errs = common.run_bool_cases(FAMILY, REQUIRES, chk_cases, tag='rnc' + ctx.pid, shard=8)
    out.corr_errors.extend(errs)
    for i in bad[:10]:
        out.disagreements.append({'rename_model': metas[i], 'obligation': 'rename_check (model renaming = harness renaming; model = '
                                  'implementation on the renamed program; renamed model output = implementation on the renamed program)',
                                  'coq': chk_cases[i][:3000]})
    not_ok = [i for i, w in enumerate(whys) if w not in (0, None)]
    ibad, errs = common.run_bool_cases(FAMILY, REQUIRES, [info_cases[i] for i in not_ok], tag='rni' + ctx.pid, shard=8)
    out.corr_errors.extend(errs)
    for w in whys:
        if w == 0:
            dist['renaming_ok_true'] += 1
        elif w is not None:
            dist['renaming_ok_false'][WHY.get(w, str(w))] = dist['renaming_ok_false'].get(WHY.get(w, str(w)), 0) + 1
    dist['c_fails_without_side_condition'] = len(ibad)
    dist['c_holds_without_side_condition'] = len(not_ok) - len(ibad)
    out.evaluations += len(chk_cases)
    out.nontrivial += len(distinct)
    # minimum-count guard: an empty or almost empty stream must not pass for a tie
    n_eval__ = max([v for k, v in dist.items() if isinstance(v, int) and k in ('programs', 'pairs', 'cases', 'sets', 'joints', 'evaluated')] + [0])
    if n_eval__ < 5:
        out.corr_errors.append('gen_rename: only %d cases were evaluated (distribution %r)' % (n_eval__, {k: v for k, v in dist.items() if isinstance(v, int)}))

    out.extra['rename_model'] = dist
    out.trusted_base = list(out.trusted_base or []) + TRUSTED
    out.assumptions = list(out.assumptions or []) + ASSUMPTIONS
    if metas:
        out.samples.append({'rename_model': {'codes': metas[0]['codes'], 'shape': metas[0]['prog'].get('shape')}})
    return out


P_SIM = {'maxtime': 4, 'shape': 'single', 'steps': [
    {'kind': 'country', 'id': 'c1', 'code': 'CA', 'currency': None, 'region': False},
    {'kind': 'sector', 'id': 'gov', 'cls': 'ConsolidatedGovernment', 'country': 'c1', 'code': 'GOV', 'kw': {}},
    {'kind': 'sector', 'id': 'hh', 'cls': 'Household', 'country': 'c1', 'code': 'HH', 'kw': {}},
    {'kind': 'sector', 'id': 'bus', 'cls': 'FixedMarginBusiness', 'country': 'c1', 'code': 'BUS', 'kw': {}},
    {'kind': 'sector', 'id': 'tf', 'cls': 'TaxFlow', 'country': 'c1', 'code': 'TF', 'kw': {'taxrate': 0.2}},
    {'kind': 'sector', 'id': 'lab', 'cls': 'Market', 'country': 'c1', 'code': 'LAB', 'kw': {}},
    {'kind': 'sector', 'id': 'good', 'cls': 'Market', 'country': 'c1', 'code': 'GOOD', 'kw': {}},
    {'kind': 'op', 'op': 'SetExogenous', 'sector': 'gov', 'name': 'DEM_GOOD', 'value': '[20.]*10'}]}


def finding_probes(out):
    """Recorded finding D18d (NOT called by extra(): enable it together with the known_findings.json entry of the report).
    A code that contains the word EXOGENOUS: Model._CreateFinalEquations / _FinalEquationFormatting classify a row as
    exogenous when the substring EXOGENOUS occurs anywhere in its right-hand side, so every row that mentions a variable
    of such a sector is taken for an exogenous declaration (the side condition of Main_rename_equivariant excludes it:
    perm_ok refuses pieces containing EXOGENOUS; Main_rename_classification_refuted)."""
    cm = {'HH': 'NONEXOGENOUSHH'}
    try:
        case, p2, m, skip = c18.rename_case(P_SIM, cm)
        why = c18.solve_pair_oracle(P_SIM, p2, m, skip)
    except gen_common.Unsupported:
        why = None
    except Exception as e:  # noqa
        why = 'renamed program fails: %r' % (e,)
    if why:
        out.failures.append({'key': 'rename:exogenous-substring',
                             'what': 'renaming HH to NONEXOGENOUSHH changes the result: %s' % (why,),
                             'replay': {'kind': 'rename', 'prog': P_SIM, 'codes': cm}})
    return why


def show_model(prog, cm, model='build2'):
    """Debugging aid: the model's renamed output and the implementation's output on the renamed program."""
    p2 = c18.rename_program(prog, cm)
    if model == 'build':
        cp, b = render_program_sq(prog, names_of(prog)), 'build'
    else:
        cp, b = render_program2_sq(prog, names2_of(prog)), 'build2'
    a = common.coq_show(FAMILY, REQUIRES, 'match rmap (rename_system %s) (%s %s) with Ok E => Ok (endo_rows E, lag_rows E, exo_rows E, fs_ic E) '
                        '| Err e => Err e end' % (coq_renaming(cm, prog), b, cp))
    return a, gen_main.run_impl(p2)


def replay(obj):
    """`obj`: the loaded replay file or the inner {'kind': 'rename_model' | 'rename', 'prog': ..., 'codes': ...}.
    Runs the implementation only: builds the program and its renamed twin, prints both outcomes and applies the
    solving oracle of C18 (same series under the renaming).  Returns 1 if the property is violated on this input."""
    r = obj.get('replay', obj) or {}
    if r.get('kind') not in ('rename_model', 'rename'):
        return 0
    prog, cm = r['prog'], r['codes']
    p2 = c18.rename_program(prog, cm)
    for title, p in (('program', prog), ('renamed program', p2)):
        res = gen_main.run_impl(p)
        print('%s: %s' % (title, ('raises ' + res[1]) if res[0] == 'err' else '%d endogenous, %d lagged, %d exogenous rows' % (
            len(res[1]), len(res[2]), len(res[3]))))
    try:
        case, p2_, m, skip = c18.rename_case(prog, cm)
        why = c18.solve_pair_oracle(prog, p2_, m, skip)
    except gen_common.Unsupported:
        why = None
    except Exception as e:  # noqa
        why = 'renamed program fails: %r' % (e,)
    print('replay: %s' % (('property violated: ' + why) if why else 'property holds on this input'))
    return 1 if why else 0
