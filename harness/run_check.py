"""./check <ID> [--tier quick|thorough] [--seed N] [--replay FILE]

Dispatches to harness/<id>.py.  Exit 0: property held on everything explored (KNOWN-FINDING lines
allowed); exit 1: a `VIOLATION property=<id> replay=<path>` line was printed."""
import argparse
import importlib
import json
import os
import sys
import traceback

HERE = os.path.dirname(os.path.abspath(__file__))
sys.path.insert(0, HERE)
import common  # noqa: E402


def main():
    ap = argparse.ArgumentParser()
    ap.add_argument('pid')
    ap.add_argument('--tier', default=os.environ.get('VERIF_TIER', 'quick'))
    ap.add_argument('--seed', type=int, default=int(os.environ.get('VERIF_SEED', '0') or 0))
    ap.add_argument('--replay', default=None)
    a = ap.parse_args()
    pid = a.pid.upper()
    tier = a.tier if a.tier in ('quick', 'thorough') else 'quick'
    os.environ['VERIF_TIER_EFFECTIVE'] = tier
    common.use_impl()
    mod = importlib.import_module(pid.lower())
    if a.replay:
        sys.exit(mod.replay(a.replay))
    ctx = common.Ctx(pid, tier, a.seed)
    try:
        out = mod.run(ctx)
    except Exception:
        # the machinery itself failed: that is not a verdict about the property, but it must not
        # pass silently either.
        traceback.print_exc()
        path = common.write_replay(pid, {'property': pid, 'kind': 'no-failing-input-found',
                                         'harness_error': traceback.format_exc()[-3000:]}, 98)
        print('VIOLATION property=%s replay=%s no-failing-input-found' % (pid, path))
        sys.exit(1)
    sys.exit(common.conclude(ctx, mod.LEVEL, out))


if __name__ == '__main__':
    main()
