"""Shared machinery of the /verif checks (see DESIGN.md section 4).

Every per-property module `harness/cXX.py` exposes

    PID, FAMILY, PROPFILE           identifiers (property id, Coq family dir, property file)
    LEVEL                           level category written to the evidence
    run(ctx)  -> Outcome            proof status + correspondence + oracle on /repo's working tree
    replay(path) -> int             re-execute a replay file against the implementation only

and `run_check.py` turns the Outcome into the verdict, the VIOLATION / KNOWN-FINDING lines, the
evidence file and the exit status.  Nothing here reads a snapshot: the implementation is imported
from REPO (= /repo) on every run, the Coq project is (re)built from /verif/coq.
"""
import glob
import hashlib
import json
import math
import os
import random
import re
import subprocess
import sys
import time
import warnings

VERIF = os.path.dirname(os.path.dirname(os.path.abspath(__file__)))
REPO = os.environ.get('SFC_REPO', '/repo')
COQ = os.path.join(VERIF, 'coq')
GUARD = 'BRIANR747_SFC_MODELS_VERIF'
KNOWN_FILE = os.path.join(VERIF, 'known_findings.json')


# ----------------------------------------------------------------------------------------------
# implementation access

def use_impl():
    """Make `import sfc_models` resolve to REPO's working tree, quietly."""
    os.environ[GUARD] = '1'
    if REPO not in sys.path:
        sys.path.insert(0, REPO)
    warnings.simplefilter('ignore')
    for name in list(sys.modules):
        if name == 'sfc_models' or name.startswith('sfc_models.'):
            mod = sys.modules[name]
            f = getattr(mod, '__file__', '') or ''
            if not f.startswith(REPO):
                del sys.modules[name]


def impl_env():
    env = dict(os.environ)
    env['PYTHONPATH'] = REPO
    env['PYTHONHASHSEED'] = '0'
    env[GUARD] = '1'
    env['PYTHONWARNINGS'] = 'ignore'
    return env


def run_impl_script(code, stdin_obj=None, timeout=600):
    """Run `code` in a fresh interpreter against REPO; it reads JSON on stdin and prints JSON."""
    p = subprocess.run([sys.executable, '-c', code], input=json.dumps(stdin_obj), env=impl_env(),
                       capture_output=True, text=True, timeout=timeout)
    if p.returncode != 0:
        raise RuntimeError('implementation script failed: ' + p.stderr[-2000:])
    out = p.stdout.strip().splitlines()
    return json.loads(out[-1]) if out else None


def source_hashes(paths):
    """sha1 of source files (informational: which modelled file changed)."""
    out = {}
    for rel in paths:
        try:
            with open(os.path.join(REPO, rel), 'rb') as f:
                out[rel] = hashlib.sha1(f.read()).hexdigest()[:12]
        except OSError:
            out[rel] = 'missing'
    return out


def exc_class(e):
    """Map a Python exception to the model's `err` enum constructor name."""
    import tokenize
    n = type(e).__name__
    table = {
        'LogicError': 'LogicError', 'KeyError': 'KeyError', 'ConvergenceError': 'ConvergenceError',
        'NoEquilibriumError': 'NoEquilibrium', 'NameError': 'NameError',
        'ZeroDivisionError': 'ZeroDiv', 'TokenError': 'TokenError',
        'NotImplementedError': 'NotImplemented', 'TypeError': 'TypeError',
        'SyntaxError': 'SyntaxError', 'IndentationError': 'SyntaxError', 'IndexError': 'IndexError',
        'Warning': 'Warning_', 'OverflowError': 'OverflowError', 'ValueError': 'ValueError',
    }
    if n in table:
        return table[n]
    for cls in type(e).__mro__:
        if cls.__name__ in table:
            return table[cls.__name__]
    return 'OtherError'


# ----------------------------------------------------------------------------------------------
# Coq literals

def coq_string(s):
    for ch in s:
        o = ord(ch)
        if o > 126 or (o < 32 and ch not in '\t\n'):
            raise ValueError('non-printable character in Coq string literal: %r' % (s,))
    return '"' + s.replace('"', '""') + '"%string'


def coq_float(x):
    x = float(x)
    if math.isnan(x):
        return 'nan%float'
    if math.isinf(x):
        return 'infinity%float' if x > 0 else 'neg_infinity%float'
    if x == 0.0:
        return '(-0)%float' if math.copysign(1.0, x) < 0 else '0%float'
    h = x.hex()
    if h.startswith('-'):
        return '(- %s)%%float' % h[1:]
    return '%s%%float' % h


def coq_list(items):
    return '[' + '; '.join(items) + ']'


def coq_bool(b):
    return 'true' if b else 'false'


def coq_nat(n):
    assert 0 <= n < 5000
    return '%d%%nat' % n


def coq_Z(n):
    return '(%d)%%Z' % n


def coq_Q(fr):
    from fractions import Fraction
    fr = Fraction(fr)
    return '(%d # %d)%%Q' % (fr.numerator, fr.denominator)


def coq_option(x):
    return 'None' if x is None else '(Some %s)' % x


def coq_pair(a, b):
    return '(%s, %s)' % (a, b)


# ----------------------------------------------------------------------------------------------
# Coq project: build, forbidden constructs, assumptions

FORBIDDEN = [r'\bAdmitted\b', r'\badmit\b', r'\bAxiom\b', r'\bAxioms\b', r'\bParameter\b', r'\bParameters\b',
             r'\bConjecture\b', r'\bConjectures\b', r'Unset\s+Guard', r'bypass_check', r'Admit\s+Obligations',
             r'type-in-type', r'impredicative-set', r'Unset\s+Positivity', r'Unset\s+Universe\s+Checking',
             r'\bnative_compute\b']


def strip_coq_comments(src):
    out = []
    depth = 0
    i = 0
    in_str = False
    while i < len(src):
        if depth == 0 and src[i] == '"':
            in_str = not in_str
            out.append(src[i]); i += 1; continue
        if not in_str and src.startswith('(*', i):
            depth += 1; i += 2; continue
        if not in_str and depth > 0 and src.startswith('*)', i):
            depth -= 1; i += 2; continue
        if depth == 0:
            out.append(src[i])
        i += 1
    return ''.join(out)


def family_deps(family):
    seen = []

    def go(f):
        p = os.path.join(COQ, f, 'DEPS')
        if os.path.exists(p):
            for d in open(p).read().split():
                if d.startswith('#'):
                    continue
                if d not in seen:
                    seen.append(d)
                    go(d)
    go(family)
    return seen


def family_sources(family):
    fams = [family] + family_deps(family)
    files = []
    for f in fams:
        for p in sorted(glob.glob(os.path.join(COQ, f, '**', '*.v'), recursive=True)):
            if '/Cases/' in p:
                continue
            files.append(p)
    return files


def forbidden_scan(family):
    """Return a list of (file, line, text) of forbidden constructs in the family and its deps."""
    hits = []
    for p in family_sources(family):
        src = strip_coq_comments(open(p).read())
        # strip string literals so that words inside strings do not count
        src_nostr = re.sub(r'"(?:[^"]|"")*"', '""', src)
        depth = 0
        for ln, line in enumerate(src_nostr.split('\n'), 1):
            if re.match(r'\s*(Section|Module\s+Type)\b', line):
                depth += 1
            for pat in FORBIDDEN:
                if re.search(pat, line):
                    hits.append((os.path.relpath(p, VERIF), ln, line.strip()[:120]))
            if depth == 0 and re.match(r'\s*(Variable|Variables|Hypothesis|Hypotheses|Context)\b', line):
                hits.append((os.path.relpath(p, VERIF), ln, 'outside section: ' + line.strip()[:100]))
            if re.match(r'\s*End\b', line) and depth > 0:
                depth -= 1
    return hits


def coq_flags(family):
    flags = ['-Q', os.path.join(COQ, family), 'SFC.' + family]
    for d in family_deps(family):
        flags += ['-Q', os.path.join(COQ, d), 'SFC.' + d]
    flags += ['-w', '-all']
    return flags


def build_family(family, timeout=1500):
    t0 = time.time()
    env = dict(os.environ)
    env.setdefault('COQ_JOBS', '16')
    p = subprocess.run([os.path.join(COQ, 'build.sh'), family], capture_output=True, text=True,
                       timeout=timeout + 60, env=env)
    return {'ok': p.returncode == 0, 'log': (p.stdout + p.stderr)[-6000:], 'wall_s': round(time.time() - t0, 2)}


def parse_assumptions(output, theorem_names):
    """Split the stdout of a property file into one axiom list per `Print Assumptions`."""
    blocks = []
    cur = None
    for line in output.split('\n'):
        if line.startswith('Closed under the global context'):
            blocks.append([])
            cur = None
        elif line.startswith('Axioms:'):
            cur = []
            blocks.append(cur)
        elif cur is not None:
            m = re.match(r'^([A-Za-z_][\w.\']*)\s*(:|$)', line)
            if m and not line.startswith(' '):
                cur.append(m.group(1))
    res = {}
    for i, name in enumerate(theorem_names):
        res[name] = blocks[i] if i < len(blocks) else None
    return res


def proof_status(family, propfile, timeout=1500):
    """Build the family, scan for forbidden constructs, re-check the property file and collect the
    `Print Assumptions` output.  Returns a dict; `ok` is False when any obligation no longer checks."""
    st = {'family': family, 'propfile': propfile, 'ok': False, 'theorems': [], 'assumptions': {},
          'forbidden': [], 'broken': []}
    b = build_family(family, timeout)
    st['build_wall_s'] = b['wall_s']
    if not b['ok']:
        st['broken'].append('coq build of family %s failed' % family)
        st['log'] = b['log']
        m = re.findall(r'File "([^"]+)", line (\d+)', b['log'])
        if m:
            st['broken'].append('first error at %s:%s' % m[0])
        return st
    hits = forbidden_scan(family)
    st['forbidden'] = hits
    if hits:
        st['broken'].append('forbidden construct: %s:%d %s' % hits[0])
    path = os.path.join(COQ, family, propfile)
    src = strip_coq_comments(open(path).read())
    thms = re.findall(r'^\s*(?:Theorem|Lemma|Corollary|Example)\s+([A-Za-z_][\w\']*)', src, re.M)
    printed = re.findall(r'^\s*Print\s+Assumptions\s+([A-Za-z_][\w\'.]*)\s*\.', src, re.M)
    st['theorems'] = thms
    missing = [t for t in thms if t not in printed]
    if missing:
        st['broken'].append('no Print Assumptions for: ' + ', '.join(missing))
    tmpdir = os.path.join(COQ, family, 'Cases', 'prop_%d_%s' % (os.getpid(), os.path.splitext(propfile)[0]))
    os.makedirs(tmpdir, exist_ok=True)
    tmpvo = os.path.join(tmpdir, os.path.basename(propfile) + 'o')
    p = subprocess.run(['coqc'] + coq_flags(family) + ['-o', tmpvo, path], capture_output=True, text=True,
                       timeout=timeout)
    import shutil
    shutil.rmtree(tmpdir, ignore_errors=True)
    if p.returncode != 0:
        st['broken'].append('property file no longer checks: ' + (p.stderr or p.stdout)[-600:])
        st['log'] = p.stdout + p.stderr
        return st
    st['assumptions'] = parse_assumptions(p.stdout, printed)
    if os.environ.get('VERIF_TIER_EFFECTIVE') == 'thorough' and not st['broken']:
        st['coqchk'] = run_coqchk(family, propfile)
        if st['coqchk'].get('error'):
            st['broken'].append('coqchk: ' + st['coqchk']['error'])
    st['ok'] = not st['broken']
    return st


def run_coqchk(family, propfile, timeout=1500):
    """Thorough tier: re-check the compiled property file and everything it depends on with the
    independent checker and report its context summary (axioms, type-in-type, unsafe fixpoints)."""
    flags = []
    for f in [family] + family_deps(family):
        flags += ['-Q', os.path.join(COQ, f), 'SFC.' + f]
    mod = 'SFC.%s.%s' % (family, os.path.basename(propfile)[:-2])
    try:
        p = subprocess.run(['coqchk', '-silent', '-o'] + flags + [mod], capture_output=True, text=True, timeout=timeout)
    except subprocess.TimeoutExpired:
        return {'error': 'timeout'}
    out = p.stdout + p.stderr
    if p.returncode != 0:
        return {'error': out[-600:]}
    res = {}
    cur = None
    for line in out.split('\n'):
        m = re.match(r'^\* (Axioms|Constants/Inductives relying on type-in-type|Constants/Inductives relying on unsafe \(co\)fixpoints|Inductives whose positivity is assumed|Theory):\s*(.*)$', line)
        if m:
            cur = m.group(1)
            res[cur] = [] if m.group(2).strip() in ('', '<none>') else [m.group(2).strip()]
        elif cur and line.strip() and not line.startswith('*') and not line.startswith('='):
            res[cur].append(line.strip())
    for k in ('Constants/Inductives relying on type-in-type', 'Constants/Inductives relying on unsafe (co)fixpoints',
              'Inductives whose positivity is assumed'):
        if res.get(k):
            return {'error': '%s: %s' % (k, res[k][:3]), 'summary': res}
    return {'summary': res}


_case_counter = [0]


def _case_file(family, tag):
    d = os.path.join(COQ, family, 'Cases')
    os.makedirs(d, exist_ok=True)
    _case_counter[0] += 1
    return os.path.join(d, 'c_%s_%d_%d.v' % (re.sub(r'\W', '_', tag), os.getpid(), _case_counter[0]))


def _cleanup_case(path):
    base = path[:-2]
    for ext in ('.v', '.vo', '.vos', '.vok', '.glob'):
        try:
            os.remove(base + ext)
        except OSError:
            pass
    d = os.path.dirname(path)
    for g in glob.glob(os.path.join(d, '.' + os.path.basename(base) + '.aux')):
        os.remove(g)


def coq_run(family, header, body, tag='x', timeout=900, keep=False):
    """Compile a scratch file `header + body` in the family's load path; return (rc, stdout+stderr)."""
    path = _case_file(family, tag)
    with open(path, 'w') as f:
        f.write(header + '\n' + body + '\n')
    try:
        p = subprocess.run(['coqc'] + coq_flags(family) + [path], capture_output=True, text=True, timeout=timeout)
        out = p.stdout + p.stderr
        rc = p.returncode
    except subprocess.TimeoutExpired:
        out, rc = 'TIMEOUT', 124
    if not keep:
        _cleanup_case(path)
    return rc, out


STD_HEADER = """From Coq Require Import List String ZArith QArith Bool PrimFloat.
Import ListNotations.
Local Open Scope string_scope.
"""


def _shard_body(defs, cases):
    lines = [defs, 'Definition cases__ : list bool := [']
    lines.append(';\n'.join('  (%s)' % c for c in cases))
    lines.append('].')
    lines.append('Fixpoint bad__ (i : nat) (l : list bool) : list nat := match l with [] => [] | b :: r => '
                 '(if b then [] else [i]) ++ bad__ (S i) r end.')
    lines.append('Eval vm_compute in (List.length cases__, bad__ 0%nat cases__).')
    return '\n'.join(lines)


def run_bool_cases(family, requires, cases, tag, defs='', shard=250, jobs=8, timeout=900):
    """Each case is a Coq term of type bool (true = model agrees with the implementation's recorded
    outcome).  Returns (failing indices, errors) where errors are shards coqc could not evaluate."""
    from concurrent.futures import ThreadPoolExecutor
    header = STD_HEADER + '\n'.join(requires) + '\n'
    shards = [(i, cases[i:i + shard]) for i in range(0, len(cases), shard)]
    bad, errors = [], []

    def one(sh):
        off, cs = sh
        rc, out = coq_run(family, header, _shard_body(defs, cs), tag=tag, timeout=timeout)
        return off, cs, rc, out

    with ThreadPoolExecutor(max_workers=jobs) as ex:
        for off, cs, rc, out in ex.map(one, shards):
            flat = ' '.join(out.split())
            m = re.search(r'= \((\d+)(?:%nat)?, \[(.*?)\](?:%nat)?\)', flat)
            if rc != 0 or not m:
                errors.append({'offset': off, 'n': len(cs), 'output': out[-1500:]})
                continue
            if int(m.group(1)) != len(cs):
                errors.append({'offset': off, 'n': len(cs), 'output': 'case count mismatch'})
            idx = [int(x.replace('%nat', '')) for x in m.group(2).split(';') if x.strip()]
            bad.extend(off + i for i in idx)
    return sorted(bad), errors


def coq_show(family, requires, term, defs='', timeout=300):
    """Evaluate one term with vm_compute and return Coq's printed answer (for replays/debugging)."""
    header = STD_HEADER + '\n'.join(requires) + '\n'
    rc, out = coq_run(family, header, defs + '\nEval vm_compute in (%s).' % term, tag='show', timeout=timeout)
    return ' '.join(out.split())


# ----------------------------------------------------------------------------------------------
# outcome, verdict, evidence

class Ctx(object):
    def __init__(self, pid, tier, seed):
        self.pid = pid
        self.tier = tier
        self.seed = seed
        self.rng = random.Random(seed * 1000003 + sum(ord(c) for c in pid))
        self.t0 = time.time()

    def scale(self, quick, thorough):
        return thorough if self.tier == 'thorough' else quick

    def elapsed(self):
        return time.time() - self.t0


class Outcome(object):
    """What a property module reports back.

    proof          dict from proof_status (or None when the property has no Coq obligations)
    evaluations    number of cases run through implementation and model
    nontrivial     number of distinct non-trivial cases (rule says what that means)
    rule           generation rule
    samples        a few actual cases
    disagreements  list of dicts {input:…, impl:…, model:…} where model and implementation differ
    corr_errors    list of shards the model could not evaluate
    failures       list of dicts {key:…, what:…, replay:{…}} where the property's own oracle failed
                   on the implementation
    extra          extra coverage keys
    assumptions    what the check trusts
    """

    def __init__(self):
        self.proof = None
        self.evaluations = 0
        self.nontrivial = 0
        self.rule = ''
        self.samples = []
        self.disagreements = []
        self.corr_errors = []
        self.failures = []
        self.extra = {}
        self.assumptions = []
        self.checker_cmd = ''
        self.trusted_base = []
        self.notes = []


def load_known():
    try:
        return json.load(open(KNOWN_FILE)).get('findings', [])
    except OSError:
        return []


def match_known(pid, failure, known):
    for k in known:
        if k.get('property') != pid or k.get('kind') != 'known':
            continue
        m = k.get('match', {})
        if all(failure.get(f) == v for f, v in m.items()):
            return k
    return None


def write_replay(pid, obj, n=0):
    d = os.path.join(VERIF, 'replays')
    os.makedirs(d, exist_ok=True)
    path = os.path.join(d, '%s_%d_%d.json' % (pid, int(time.time()), n))
    with open(path, 'w') as f:
        json.dump(obj, f, indent=1, sort_keys=True, default=str)
    return path


def conclude(ctx, level, out):
    """Print KNOWN-FINDING / VIOLATION lines, write the evidence, return the exit status."""
    pid = ctx.pid
    known = load_known()
    violations = 0
    printed_known = set()
    unknown = []
    for f in out.failures:
        k = match_known(pid, f, known)
        if k is not None:
            if k.get('id') not in printed_known:
                printed_known.add(k.get('id'))
                print('KNOWN-FINDING: property=%s %s' % (pid, k.get('what', k.get('id'))))
        else:
            unknown.append(f)
    # a concrete failing input on the implementation
    seen_keys = set()
    for i, f in enumerate(unknown):
        key = f.get('key')
        if key in seen_keys:
            continue
        seen_keys.add(key)
        path = write_replay(pid, {'property': pid, 'kind': 'failing-input', 'key': key, 'what': f.get('what'),
                                  'replay': f.get('replay')}, i)
        print('VIOLATION property=%s replay=%s' % (pid, path))
        print('  ' + str(f.get('what'))[:400])
        violations += 1
    proof_broken = out.proof is not None and not out.proof.get('ok')
    corr_broken = bool(out.disagreements) or bool(out.corr_errors)
    if violations == 0 and (proof_broken or corr_broken):
        obj = {'property': pid, 'kind': 'no-failing-input-found'}
        if proof_broken:
            obj['proof_obligation_no_longer_checks'] = out.proof.get('broken')
            obj['log_tail'] = (out.proof.get('log') or '')[-1500:]
        if corr_broken:
            obj['correspondence_no_longer_checks'] = {
                'disagreements': out.disagreements[:5], 'model_evaluation_errors': out.corr_errors[:3]}
        path = write_replay(pid, obj, 99)
        print('VIOLATION property=%s replay=%s no-failing-input-found' % (pid, path))
        violations += 1
    cov = {
        'evaluations': out.evaluations,
        'distinct_nontrivial': out.nontrivial,
        'rule': out.rule,
        'samples': out.samples[:6] if out.samples else ['(none)'],
        'disagreements_checked': len(out.disagreements),
        'model_evaluation_errors': len(out.corr_errors),
        'oracle_failures': len(out.failures),
        'known_findings_reproduced': sorted(x for x in printed_known if x),
    }
    if out.proof is not None:
        thms = out.proof.get('theorems', [])
        if out.proof.get('ok'):
            cov['obligations'] = len(thms)
            cov['discharged'] = len(thms)
        else:
            # broken obligations: leave the proof keys out so the file stays schema-valid, say so in words
            cov['obligations_stated'] = len(thms)
            cov['obligations_discharged'] = 0
        cov['checker_cmd'] = out.checker_cmd or ('coq/build.sh %s && coqc %s (Print Assumptions)' % (
            out.proof.get('family'), out.proof.get('propfile')))
        cov['theorems'] = thms
        cov['print_assumptions'] = out.proof.get('assumptions')
        if out.proof.get('coqchk'):
            cov['coqchk_context_summary'] = out.proof['coqchk'].get('summary')
        cov['proof_broken'] = out.proof.get('broken')
    cov['trusted_base'] = out.trusted_base or []
    cov.update(out.extra)
    ev = {
        'property_id': pid, 'tier': ctx.tier, 'seed': ctx.seed, 'level': level, 'coverage': cov,
        'assumptions': out.assumptions, 'wall_s': round(ctx.elapsed(), 2), 'violations': violations,
    }
    os.makedirs(os.path.join(VERIF, 'evidence'), exist_ok=True)
    with open(os.path.join(VERIF, 'evidence', pid + '.json'), 'w') as f:
        json.dump(ev, f, indent=1, default=str)
    for n in out.notes:
        print('note: ' + n)
    if violations == 0:
        print('OK property=%s tier=%s evaluations=%d obligations=%s wall=%.1fs' % (
            pid, ctx.tier, out.evaluations, cov.get('obligations'), ctx.elapsed()))
    return 1 if violations else 0


def merge_proofs(statuses):
    """Combine the proof_status of several (family, property file) pairs into one status dict."""
    st = {'family': '+'.join(s['family'] for s in statuses), 'propfile': '+'.join(s['propfile'] for s in statuses),
          'ok': all(s.get('ok') for s in statuses), 'theorems': [], 'assumptions': {}, 'forbidden': [], 'broken': [],
          'log': ''}
    for s in statuses:
        st['theorems'] += ['%s.%s' % (s['family'], t) for t in s.get('theorems', [])]
        for k, v in (s.get('assumptions') or {}).items():
            st['assumptions']['%s.%s' % (s['family'], k)] = v
        st['forbidden'] += s.get('forbidden', [])
        st['broken'] += s.get('broken', [])
        st['log'] += (s.get('log') or '')[-1500:]
    return st


def replay_status(pid, fails):
    """Exit status of a replay: failures that match a recorded known finding are announced as such and do not
    count (same rule as in a check run); anything else makes the replay fail."""
    known = load_known()
    unknown = []
    for f in fails or []:
        k = match_known(pid, f, known) if isinstance(f, dict) else None
        if k is not None:
            print('KNOWN-FINDING: property=%s %s' % (pid, k.get('what', k.get('id'))))
        else:
            unknown.append(f)
    return 1 if unknown else 0


def proof_status_many(pairs):
    """proof_status for several (family, property file) pairs, concurrently, merged into one status."""
    from concurrent.futures import ThreadPoolExecutor
    with ThreadPoolExecutor(max_workers=12) as ex:
        sts = list(ex.map(lambda fp: proof_status(fp[0], fp[1]), pairs))
    return merge_proofs(sts)


class _Later(object):
    def __init__(self, fn, arg):
        import threading
        self._res, self._exc = None, None

        def work():
            try:
                self._res = fn(arg)
            except BaseException as e:  # noqa
                self._exc = e
        self._t = threading.Thread(target=work, daemon=True)
        self._t.start()

    def result(self):
        self._t.join()
        if self._exc is not None:
            raise self._exc
        return self._res


def proof_status_async(pairs):
    """Start proof_status_many(pairs) in the background (the property files are re-checked while the harness generates
    and runs its cases); `.result()` waits for it."""
    return _Later(proof_status_many, list(pairs))
