"""Shared generator, implementation driver, Coq emission and oracles of the solver checks
C02 / C10 / C11 (Coq family coq/Solve).

A *case* is a JSON-able dict describing an equation block and the solver configuration:

    eqs      [[lhs, rhs], ...]      endogenous block lines, in order
    lags     [[lagvar, src], ...]   rendered as  lagvar = src(k-1)
    ics      [[name, text], ...]    rendered as  name(0) = text
    exo      [[name, text], ...]    lines after the 'exogenous' marker
    maxtime  int | None             MaxTime line
    tol      str | None             Err_Tolerance line
    cap      int                    solver.MaxIterations
    reduce   bool                   run_equation_reduction
    trace    int | None             solver.TraceStep
    solver_maxtime int | None       solver.MaxTime assigned before ParseString
    to_deco  [name, ...]            (optional) endogenous entries moved to Parser.Decoration, in this
                                    order, after parsing (the state reduction produces, reordered)
    kind     str                    generator stream
    info     dict                   what the generator knows (row sums, expectation)

The implementation parses the text; the model receives the parser state (see emit_state).
"""
import ast
import io
import json
import math
import tokenize

import common
from common import coq_string, coq_float, coq_list, coq_nat

FAMILY = 'Solve'
REQUIRES = ['From SFC.Base Require Import Res Expr.',
            'From SFC.Solve Require Import Types Init Step Run Orig Validate CaseDefs.']
SOURCES = ['sfc_models/equation_solver.py', 'sfc_models/equation_parser.py', 'sfc_models/utils.py']

NAMES = ['x', 'y', 'z', 'w', 'u', 'v', 'a', 'b', 'c', 'g', 'h', 'm', 'n', 'p', 'q', 'r', 'HH_F', 'GOV__T', 'Y2']
TOLS = ['1e-3', '1e-4', '1e-5', '1e-6', '1e-8', '1e-10', '1e-12']
MATH_CONSTS = {'pi': math.pi, 'e': math.e, 'tau': math.tau, 'inf': math.inf, 'nan': math.nan}


class Unsupported(Exception):
    pass


class ImplTimeout(BaseException):
    """the implementation did not return within CASE_TIMEOUT seconds (BaseException: not swallowed by the
    bare `except:` clauses of the code under test)"""


CASE_TIMEOUT = 5
MAX_HANGS = 3


def run_limited(fn, seconds=None):
    """Call fn() under a repeating SIGALRM (the checks run single-threaded in the main thread).  The alarm
    keeps firing every millisecond after the deadline, so that an ImplTimeout swallowed by a bare `except:` in the code
    under test is raised again until it gets out."""
    import signal
    seconds = CASE_TIMEOUT if seconds is None else seconds

    def handler(signum, frame):
        raise ImplTimeout()
    old = signal.signal(signal.SIGALRM, handler)
    signal.setitimer(signal.ITIMER_REAL, seconds, 0.001)
    try:
        return fn()
    finally:
        while True:
            try:
                signal.setitimer(signal.ITIMER_REAL, 0)
                signal.signal(signal.SIGALRM, old)
                break
            except ImplTimeout:
                continue


# ------------------------------------------------------------------------------------------------
# text

def block_text(case):
    lines = []
    for lhs, rhs in case['eqs']:
        lines.append('%s = %s' % (lhs, rhs))
    for lv, src in case['lags']:
        lines.append('%s = %s(k-1)' % (lv, src))
    for nm, txt in case['ics']:
        lines.append('%s(0) = %s' % (nm, txt))
    if case.get('maxtime') is not None:
        lines.append('MaxTime = %d' % case['maxtime'])
    if case.get('tol') is not None:
        lines.append('Err_Tolerance = %s' % case['tol'])
    if case['exo']:
        lines.append('exogenous')
        for nm, txt in case['exo']:
            lines.append('%s = %s' % (nm, txt))
    return '\n'.join(lines)


def floatify_text(s):
    """Rewrite integer literals as float literals ('3' -> '3.0'); anything the tokenizer refuses is
    returned unchanged."""
    try:
        toks = list(tokenize.generate_tokens(io.StringIO(s).readline))
    except (tokenize.TokenError, IndentationError, SyntaxError):
        return s
    out, pos = [], 0
    for t in toks:
        if t.type == tokenize.NUMBER and t.string.isdigit() and t.start[0] == 1:
            out.append(s[pos:t.start[1]])
            out.append(str(int(t.string)) + '.0')
            pos = t.end[1]
    out.append(s[pos:])
    return ''.join(out)


def floatified(case):
    c = json.loads(json.dumps(case))
    c['eqs'] = [[l, floatify_text(r)] for l, r in c['eqs']]
    c['exo'] = [[n, _floatify_exo(t)] for n, t in c['exo']]
    return c


def _floatify_exo(t):
    """a literal list/tuple of numbers is re-rendered with float elements; anything else is left alone"""
    try:
        v = ast.literal_eval(t.strip())
    except Exception:  # noqa
        return t
    if isinstance(v, (list, tuple)) and all(isinstance(x, (int, float)) and not isinstance(x, bool) for x in v):
        return '[' + ', '.join(repr(float(x)) for x in v) + ']'
    return t


# ------------------------------------------------------------------------------------------------
# implementation driver

def fhex(v):
    if isinstance(v, bool) or not isinstance(v, (int, float)):
        raise Unsupported('non-numeric value %r' % (v,))
    if isinstance(v, int) and abs(v) > 2 ** 53:
        raise Unsupported('int beyond 2**53')
    return float(v).hex()


def classify_exo(eqn, glob):
    """Mirror of the evaluation half of SetInitialConditions' second pass (Python's eval trusted)."""
    if isinstance(eqn, str):
        try:
            val = eval(eqn, dict(glob))
        except BaseException:
            return ['unevaluable']
        if type(val) is float:
            return ['scalar', val.hex()]
        try:
            val = list(val)
        except BaseException:
            return ['notlist']
    else:
        if type(eqn) is float:
            return ['scalar', eqn.hex()]
        try:
            val = list(eqn)
        except BaseException:
            return ['notlist']
    return ['list', [fhex(v) for v in val]]


def classify_ic(txt, glob):
    try:
        return ['val', float(eval(txt, dict(glob))).hex()]
    except BaseException:
        return ['bad']


def parser_state(solver):
    import sfc_models.equation_solver as es
    glob = vars(es)
    P = solver.Parser
    tol = float(P.Err_Tolerance) if solver.ParameterErrorTolerance is None else float(solver.ParameterErrorTolerance)
    return {
        'endo': [[v, e] for v, e in P.Endogenous],
        'lagged': [[v, s] for v, s in P.Lagged],
        'exo': [[v, classify_exo(e, glob)] for v, e in P.Exogenous],
        'deco': [[v, e] for v, e in P.Decoration],
        'ics': [[v, classify_ic(t, glob)] for v, t in P.InitialConditions.items()],
        'maxtime': P.MaxTime, 'tol': tol.hex(), 'cap': solver.MaxIterations,
    }


def snapshot_ts(holder):
    return [[k, [fhex(v) for v in vals]] for k, vals in holder.items()]


def drive(case, want_state=True):
    """Parse and solve `case` on the implementation.  Returns a dict:
    parse_error | state, outcome (None or exception class name), ts, traced (None | [tp, m, errs]),
    raw_exc (Python class name)."""
    from sfc_models.equation_solver import EquationSolver
    res = {'parse_error': None, 'state': None, 'outcome': None, 'raw_exc': None, 'ts': None, 'traced': None}
    s = EquationSolver(run_equation_reduction=bool(case.get('reduce')))
    if case.get('solver_maxtime') is not None:
        s.MaxTime = case['solver_maxtime']
    try:
        s.ParseString(block_text(case))
    except Exception as e:  # noqa
        res['parse_error'] = common.exc_class(e)
        res['raw_exc'] = type(e).__name__
        return res
    for nm in case.get('to_deco') or []:
        for ent in list(s.Parser.Endogenous):
            if ent[0] == nm:
                s.Parser.Endogenous.remove(ent)
                s.Parser.Decoration.append(ent)
                break
    s.MaxIterations = case['cap']
    s.TraceStep = case.get('trace')
    if want_state:
        try:
            res['state'] = parser_state(s)
        except Unsupported as e:
            res['unsupported'] = str(e)
    import time as _time
    t_start = _time.time()
    try:
        run_limited(s.SolveEquation)
        if _time.time() - t_start >= CASE_TIMEOUT - 0.2:
            # the deadline fired but a bare `except:` in the code swallowed it: still a call that overran
            res['hang'] = True
    except ImplTimeout:
        res['outcome'] = 'OtherError'
        res['raw_exc'] = 'NoReturnWithin%ds' % CASE_TIMEOUT
        res['exc_is_value_error'] = False
        res['hang'] = True
    except Exception as e:  # noqa
        res['outcome'] = common.exc_class(e)
        res['raw_exc'] = type(e).__name__
        res['exc_is_value_error'] = isinstance(e, ValueError)
    res['ts_raw'] = {k: list(v) for k, v in s.TimeSeries.items()}
    res['solver'] = s
    tr = s.TimeSeriesStepTrace
    res['sweeps'] = len(tr['iteration']) if case.get('trace') is not None and 'iteration' in tr else None
    try:
        res['ts'] = snapshot_ts(s.TimeSeries)
        if res['sweeps'] is not None:
            res['traced'] = [case['trace'], res['sweeps'], [fhex(v) for v in tr['iteration_error']]]
    except Unsupported as e:
        res['unsupported'] = str(e)
    return res


def public(res):
    """the comparable part of a drive() result"""
    return {'parse_error': res['parse_error'], 'outcome': res['outcome'], 'ts': res['ts'], 'traced': res['traced']}


# ------------------------------------------------------------------------------------------------
# Coq emission

def coq_hex(h):
    return coq_float(float.fromhex(h))


def expr_to_coq(src, variables):
    try:
        tree = ast.parse(src.strip(), mode='eval').body
    except (SyntaxError, ValueError) as e:
        raise Unsupported('rhs does not parse: %r' % (src,))
    return _conv(tree, variables)


def _conv(n, variables):
    if isinstance(n, ast.Constant):
        v = n.value
        if isinstance(v, bool) or not isinstance(v, (int, float)):
            raise Unsupported('literal %r' % (v,))
        if isinstance(v, int) and abs(v) > 2 ** 53:
            raise Unsupported('int literal beyond 2**53')
        return '(ENum %s)' % coq_float(float(v))
    if isinstance(n, ast.Name):
        if n.id in MATH_CONSTS and n.id not in variables:
            return '(ENum %s)' % coq_float(MATH_CONSTS[n.id])
        return '(EVar %s)' % coq_string(n.id)
    if isinstance(n, ast.UnaryOp):
        if isinstance(n.op, ast.USub):
            return '(ENeg %s)' % _conv(n.operand, variables)
        if isinstance(n.op, ast.UAdd):
            return '(EPos %s)' % _conv(n.operand, variables)
        raise Unsupported('unary op')
    if isinstance(n, ast.BinOp):
        ops = {ast.Add: 'EAdd', ast.Sub: 'ESub', ast.Mult: 'EMul', ast.Div: 'EDiv'}
        for k, c in ops.items():
            if isinstance(n.op, k):
                return '(%s %s %s)' % (c, _conv(n.left, variables), _conv(n.right, variables))
        raise Unsupported('binary op')
    if isinstance(n, ast.Call) and isinstance(n.func, ast.Name) and not n.keywords:
        f = n.func.id
        if f in variables:
            raise Unsupported('function name shadowed')
        if f in ('abs', 'sqrt', 'float') and len(n.args) == 1:
            return '(ECall1 %s %s)' % ({'abs': 'Fabs', 'sqrt': 'Fsqrt', 'float': 'Ffloat'}[f], _conv(n.args[0], variables))
        if f in ('max', 'min') and len(n.args) == 2:
            return '(ECall2 %s %s %s)' % ({'max': 'Fmax', 'min': 'Fmin'}[f], _conv(n.args[0], variables),
                                          _conv(n.args[1], variables))
    raise Unsupported('expression form %s' % type(n).__name__)


def emit_state(st):
    if st['maxtime'] < 0 or st['cap'] < 0:
        raise Unsupported('negative MaxTime / MaxIterations')
    variables = set([v for v, _ in st['endo']] + [v for v, _ in st['lagged']] + [v for v, _ in st['exo']] +
                    [v for v, _ in st['deco']] + ['k'])

    def eqs(l):
        return coq_list(['(%s, %s)' % (coq_string(v), expr_to_coq(e, variables)) for v, e in l])

    def exo(sp):
        if sp[0] == 'list':
            return '(ExoList %s)' % coq_list([coq_hex(h) for h in sp[1]])
        if sp[0] == 'scalar':
            return '(ExoScalarFloat %s)' % coq_hex(sp[1])
        return 'ExoNotList' if sp[0] == 'notlist' else 'ExoUnevaluable'

    def ic(sp):
        return '(ICVal %s)' % coq_hex(sp[1]) if sp[0] == 'val' else 'ICBad'
    return '(mkP %s %s %s %s %s %s %s %s)' % (
        eqs(st['endo']),
        coq_list(['(%s, %s)' % (coq_string(v), coq_string(s)) for v, s in st['lagged']]),
        coq_list(['(%s, %s)' % (coq_string(v), exo(sp)) for v, sp in st['exo']]),
        eqs(st['deco']),
        coq_list(['(%s, %s)' % (coq_string(v), ic(sp)) for v, sp in st['ics']]),
        coq_nat(st['maxtime']), coq_hex(st['tol']), coq_nat(st['cap']))


def emit_ts(ts):
    return coq_list(['(%s, %s)' % (coq_string(k), coq_list([coq_hex(h) for h in vals])) for k, vals in ts])


def emit_solve_case(res, orig=False):
    oe = 'None' if res['outcome'] is None else '(Some %s)' % res['outcome']
    if res['traced'] is None:
        tr = 'None'
    else:
        tp, m, errs = res['traced']
        tr = '(Some (%s, %s, %s))' % (coq_nat(tp), coq_nat(m), coq_list([coq_hex(h) for h in errs]))
    return '%s %s %s %s %s' % ('solve_case_orig' if orig else 'solve_case', emit_state(res['state']), oe,
                               emit_ts(res['ts']), tr)


# ------------------------------------------------------------------------------------------------
# generator

def fl(x):
    """float literal text"""
    r = repr(float(x))
    return r


def num(rng, ints=True):
    r = rng.random()
    if ints and r < 0.10:
        return str(rng.choice([1, 2, 3, 4, 5, 10, 12]))
    if r < 0.55:
        return fl(round(rng.uniform(0.05, 3.0), rng.choice([1, 2, 3])))
    if r < 0.70:
        return fl(rng.choice([0.0, 1.0, 0.5, 2.0, 100.0, 1000.0, 0.25]))
    if r < 0.74:
        return rng.choice(['1e308', '1e200', '1e-320', '1e-5', '.5', '5.'])
    return '(%s)' % fl(round(rng.uniform(-50, 50), 2))


def rand_expr(rng, names, depth, ints=True):
    r = rng.random()
    if depth <= 0 or r < 0.25:
        if names and rng.random() < 0.6:
            return rng.choice(names)
        return num(rng, ints)
    if r < 0.70:
        op = rng.choice(['+', '-', '*', '/', '+', '*'])
        return '(%s %s %s)' % (rand_expr(rng, names, depth - 1, ints), op, rand_expr(rng, names, depth - 1, ints))
    if r < 0.78:
        return '%s(%s)' % (rng.choice(['-', '-', '+']), rand_expr(rng, names, depth - 1, ints))
    if r < 0.90:
        return '%s(%s)' % (rng.choice(['abs', 'sqrt', 'float', 'abs']), rand_expr(rng, names, depth - 1, ints))
    return '%s(%s, %s)' % (rng.choice(['max', 'min']), rand_expr(rng, names, depth - 1, ints),
                           rand_expr(rng, names, depth - 1, ints))


def base_case(rng, kind):
    T = rng.choice([0, 1, 2, 3, 3, 4, 6])
    return {'eqs': [], 'lags': [], 'ics': [], 'exo': [], 'maxtime': T, 'tol': rng.choice(TOLS),
            'cap': rng.choice([400, 400, 400, 400, 0, 1, 2, 3, 5, 12, 30]), 'reduce': rng.random() < 0.5,
            'trace': (rng.randint(1, T) if T >= 1 and rng.random() < 0.7 else None),
            'solver_maxtime': None, 'to_deco': [], 'kind': kind, 'info': {}}


def exo_list(rng, T, lo=-100.0, hi=100.0, extra=None):
    n = T + 1 + (rng.choice([0, 0, 1, 3]) if extra is None else extra)
    vals = [round(rng.uniform(lo, hi), 2) for _ in range(n)]
    form = rng.random()
    if form < 0.6:
        return '[' + ', '.join(fl(v) for v in vals) + ']'
    if form < 0.75:
        return '(' + ', '.join(fl(v) for v in vals) + ',)'
    if form < 0.85 and vals:
        return '[%s]*%d' % (fl(vals[0]), n)
    return '[' + ', '.join(str(int(v)) for v in vals) + ']'


def gen_affine(rng, kind='affine'):
    """x_i = sum_j a_ij x_j + c_i (+ b_i*G) (+ l_i*LAG_xj); kind decides the row sums."""
    c = base_case(rng, kind)
    T = c['maxtime']
    n = rng.choice([1, 1, 2, 2, 3, 4, 5, 6, 8, 12])
    names = rng.sample(NAMES, n)
    use_exo = rng.random() < 0.5
    use_lag = rng.random() < 0.5
    if use_exo:
        c['exo'].append(['G', exo_list(rng, T) if rng.random() < 0.8 else fl(round(rng.uniform(-100, 100), 1))])
    lagsrc = None
    if use_lag:
        lagsrc = rng.choice(names)
        c['lags'].append(['LAG_' + lagsrc, lagsrc])
    rowsums = []
    for i, nm in enumerate(names):
        if kind == 'affine':
            q = rng.choice([0.0, 0.3, 0.5, 0.7, 0.8])
        elif kind == 'expansive':
            q = rng.choice([1.0, 1.2, 1.5, 2.0, 3.0])
        else:  # oscillating
            q = rng.choice([0.9, 1.0, 1.0, 1.3, 1.6])
        others = rng.sample(names, min(len(names), rng.choice([1, 1, 2, 3])))
        if kind == 'oscillating' and nm not in others:
            others[0] = nm
        raw = [rng.uniform(0.2, 1.0) for _ in others]
        tot = sum(raw)
        terms = []
        rs = 0.0
        for o, w in zip(others, raw):
            a = round(q * w / tot, 3)
            if a == 0.0:
                continue
            if kind == 'oscillating' or (kind == 'affine' and rng.random() < 0.3):
                a = -a
            rs += abs(a)
            terms.append('%s*%s' % (fl(a) if a >= 0 else '(%s)' % fl(a), o))
        const = round(rng.uniform(-500, 500), 2)
        if rng.random() < 0.2:
            const = float(int(const))
        terms.append(fl(const) if const >= 0 else '(%s)' % fl(const))
        if use_exo and rng.random() < 0.6:
            terms.append('%s*G' % fl(round(rng.uniform(0, 1.0), 2)))
        if use_lag and rng.random() < 0.6:
            terms.append('%s*LAG_%s' % (fl(round(rng.uniform(0, 0.05), 3)), lagsrc))
        rng.shuffle(terms)
        c['eqs'].append([nm, ' + '.join(terms)])
        rowsums.append(rs)
        if rng.random() < 0.3:
            c['ics'].append([nm, fl(round(rng.uniform(-5000, 5000), 1))])
    c['info'] = {'L': max(rowsums) if rowsums else 0.0, 'n': n}
    if kind == 'affine':
        c['cap'] = rng.choice([400, 400, 400, 400, 3, 30])
    return c


def gen_overflow(rng):
    c = base_case(rng, 'overflow')
    T = max(c['maxtime'], 1)
    c['maxtime'] = T
    v = rng.choice(['a', 'b', 'c', 'd', 'e', 'f', 'g'])
    if v == 'a':
        c['eqs'] = [['x', 'x*x + %s' % fl(rng.choice([2.0, 1.5, 3.0]))]]
    elif v == 'b':
        c['eqs'] = [['x', '1e200*y + 1.0'], ['y', '1e200*x + 1.0']]
    elif v == 'c':
        c['eqs'] = [['x', '1e308*G']]
        c['exo'] = [['G', '[' + ', '.join(fl(rng.choice([0.1, 0.5, 10.0, 2.0])) for _ in range(T + 1)) + ']']]
    elif v == 'd':
        c['eqs'] = [['x', '1e308*G'], ['d', 'x*10.0']]
        c['exo'] = [['G', '[' + ', '.join(fl(rng.choice([0.1, 0.5, 1.0])) for _ in range(T + 1)) + ']']]
        c['reduce'] = True
    elif v == 'e':
        c['eqs'] = [['x', '0.5*x + 0.85e308'], ['y', '%s*y + 1.0' % fl(rng.choice([0.5, 0.9]))]]
        c['tol'] = rng.choice(['1e-3', '1e-4'])
    elif v == 'f':
        c['eqs'] = [['x', 'max(y - y, 0.0)'], ['y', '1e308*w'], ['w', '10.0 - 10.0*v'], ['v', '1.0']]
        c['ics'] = [['x', '0.0'], ['y', '0.0'], ['w', '10.0'], ['v', '0.0']]
    else:
        c['eqs'] = [['x', '%s*x*y' % fl(rng.choice([2.0, 10.0, 1e100]))], ['y', 'x + 2.0']]
        c['ics'] = [['x', fl(rng.choice([1.0, 3.0, 1e10]))]]
    c['info'] = {'expect_fail': v in ('a', 'b')}
    return c


def gen_pole(rng):
    c = base_case(rng, 'pole')
    T = max(c['maxtime'], 1)
    c['maxtime'] = T
    p = round(rng.uniform(-3, 3), 1)
    persistent = rng.random() < 0.4
    fn = rng.choice(['pole', 'pole', 'sqrt'])
    if fn == 'pole':
        c['eqs'].append(['x', '1/(y - %s)' % fl(p) if p >= 0 else '1/(y + %s)' % fl(-p)])
        bad = p
    else:
        c['eqs'].append(['x', 'sqrt(y - %s)' % fl(abs(p))])
        bad = abs(p) - 1.0
    if persistent:
        how = rng.choice(['const', 'exo', 'lagic'])
        if how == 'const':
            c['eqs'].append(['y', fl(bad)])
        elif how == 'exo':
            seq = [bad if rng.random() < 0.5 else bad + 2.0 for _ in range(T + 1)]
            c['exo'].append(['y', '[' + ', '.join(fl(s) for s in seq) + ']'])
        else:
            c['eqs'].append(['y', 'LAG_y - 1.0'])
            c['lags'].append(['LAG_y', 'y'])
            c['ics'].append(['y', fl(bad + rng.choice([1.0, 2.0, 3.0]))])
    else:
        a = rng.choice([0.5, 0.2, 0.8])
        target = bad + rng.choice([1.0, 2.5, 4.0])
        c['eqs'].append(['y', '%s*y + %s' % (fl(a), fl(round(target * (1 - a), 6)))])
        c['ics'].append(['y', fl(bad)])
    if rng.random() < 0.4:
        c['eqs'].append(['z', '%s*x + %s*z + 1.0' % (fl(0.3), fl(0.2))])
    if rng.random() < 0.35:
        # an undamped oscillation that only the half-step damping settles, next to the (possibly persistent) error
        c['eqs'].append(['w', '%s - w' % fl(round(rng.uniform(1, 9), 1))])
    if rng.random() < 0.3:
        c['eqs'].append(['d', '1/x'])
    c['info'] = {'persistent': persistent}
    return c


def gen_tree(rng):
    c = base_case(rng, 'tree')
    T = c['maxtime']
    n = rng.choice([1, 2, 2, 3, 4, 6])
    names = rng.sample(NAMES, n)
    pool = list(names)
    if rng.random() < 0.5:
        pool.append('G')
        r = rng.random()
        if r < 0.7:
            c['exo'].append(['G', exo_list(rng, T, -5, 5)])
        elif r < 0.85:
            c['exo'].append(['G', fl(round(rng.uniform(-5, 5), 2))])
        else:
            c['exo'].append(['G', exo_list(rng, T, -5, 5, extra=-1)])      # too short
    if rng.random() < 0.5:
        src = rng.choice(names)
        c['lags'].append(['LAG_' + src, src])
        pool.append('LAG_' + src)
    if rng.random() < 0.15:
        pool.append('k')
    if rng.random() < 0.1:
        pool.append('t')
    if rng.random() < 0.04:
        pool.append('zz9')          # undefined name
    if rng.random() < 0.05:
        pool.append(rng.choice(['pi', 'e']))
    ints = rng.random() < 0.3
    for nm in names:
        if rng.random() < 0.25:
            # a mild contraction wrapper so that many trees converge
            c['eqs'].append([nm, '%s*%s + %s' % (fl(rng.choice([0.1, 0.3, 0.5])), nm, rand_expr(rng, pool, 2, ints))])
        else:
            c['eqs'].append([nm, rand_expr(rng, pool, rng.choice([1, 2, 3]), ints)])
        if rng.random() < 0.3:
            c['ics'].append([nm, rng.choice([fl(round(rng.uniform(-5, 5), 2)), '2', '1/4', 'sqrt(2.0)', '-1e3'])])
    if c['lags'] and rng.random() < 0.3:
        c['ics'].append([c['lags'][0][0], fl(round(rng.uniform(-5, 5), 2))])
    if c['exo'] and rng.random() < 0.15:
        c['ics'].append(['G', fl(1.5)])       # IC on an exogenous variable: overridden by the series
    if rng.random() < 0.08:
        c['eqs'].append(['t', rng.choice(['k', '2*k', 'k + 1990.0'])])
    c['info'] = {'n': n}
    return c


def gen_deco(rng):
    """endogenous core plus a tree of decorative variables (reduction on; a few of the leaves are moved
    to Parser.Decoration in shuffled order to exercise the NameError retry loop)."""
    c = gen_affine(rng, 'affine') if rng.random() < 0.7 else gen_tree(rng)
    c['kind'] = 'deco'
    c['reduce'] = True
    core = [l for l, _ in c['eqs']]
    pool = list(core) + [n for n, _ in c['exo']] + [l for l, _ in c['lags']]
    dn = []
    for i in range(rng.choice([1, 2, 3, 4])):
        nm = 'D%d' % i
        style = rng.random()
        if style < 0.6:
            rhs = rand_expr(rng, pool + dn, 2, False)
        elif style < 0.75:
            rhs = '1/(%s - %s)' % (rng.choice(pool), fl(round(rng.uniform(-2, 2), 1)))
        elif style < 0.85:
            rhs = '1e308*%s' % rng.choice(pool)
        elif style < 0.93:
            rhs = rng.choice(pool)      # plain alias
        else:
            rhs = '%s + zz9' % rng.choice(pool)
        c['eqs'].append([nm, rhs])
        dn.append(nm)
        if rng.random() < 0.2:
            c['ics'].append([nm, fl(round(rng.uniform(-5, 5), 1))])
    if rng.random() < 0.6:
        mv = [d for d in dn]
        rng.shuffle(mv)
        c['to_deco'] = mv
    return c


def gen_reject(rng):
    """well-formed system with one malformed exogenous / initial-condition specification"""
    c = gen_affine(rng, 'affine') if rng.random() < 0.6 else gen_tree(rng)
    c['kind'] = 'reject'
    T = c['maxtime']
    what = rng.choice(['short', 'garbage', 'intscalar', 'badic', 'badic', 'string', 'none'])
    nm = 'EX'
    c['eqs'].append(['q9', '0.5*q9 + EX'])
    if what == 'short':
        T = max(T, 1)
        c['maxtime'] = T
        c['exo'].append([nm, '[' + ', '.join(fl(i) for i in range(rng.randint(0, T))) + ']'])
    elif what == 'garbage':
        c['exo'].append([nm, rng.choice(['undefined_name', '[1.0, 2.0', '1/0', 'sqrt(-1.0)', '[1.0]*zz', 'float("x")'])])
    elif what == 'intscalar':
        c['exo'].append([nm, rng.choice(['20', '0', '-3', 'None', 'abs'])])
    elif what == 'string':
        c['exo'].append([nm, rng.choice(['{1.0: 2.0}', '()', '[]'])])
        c['maxtime'] = max(c['maxtime'], 1)
    elif what == 'none':
        c['exo'].append([nm, fl(2.0)])
    else:
        c['exo'].append([nm, fl(2.0)])
        tgt = rng.choice([l for l, _ in c['eqs']] + [l for l, _ in c['lags']])
        c['ics'] = [ic for ic in c['ics'] if ic[0] != tgt]
        c['ics'].append([tgt, rng.choice(['foo', '1/0', '[1.0]', '"a"', 'sqrt(-2.0)', 'None'])])
    c['info']['reject'] = what
    return c


def gen_weird(rng):
    """ill-formed parser states: a name in two classes, odd tolerances, lag of an undefined source"""
    c = gen_tree(rng)
    c['kind'] = 'weird'
    w = rng.choice(['dup_endo', 'dup_exo', 'tol', 'lagsrc', 'tol', 'user_k_ic'])
    names = [l for l, _ in c['eqs']]
    if w == 'dup_endo':
        c['eqs'].append([names[0], fl(1.0)])
    elif w == 'dup_exo':
        c['exo'].append([names[0], exo_list(rng, c['maxtime'])])
    elif w == 'tol':
        c['tol'] = rng.choice(['nan', '2.0', '1.0', '0', '-1e-3', 'inf', '1e-300'])
    elif w == 'lagsrc':
        c['lags'].append(['LAG_q', rng.choice(['nosuch', 'G', 'k', 't'])])
    else:
        c['ics'].append(['t', fl(5.0)])
    return c


STREAMS = {
    'affine': lambda r: gen_affine(r, 'affine'),
    'expansive': lambda r: gen_affine(r, 'expansive'),
    'oscillating': lambda r: gen_affine(r, 'oscillating'),
    'overflow': gen_overflow, 'pole': gen_pole, 'tree': gen_tree, 'deco': gen_deco, 'reject': gen_reject,
    'weird': gen_weird,
}


def gen_case(rng, weights):
    kinds = list(weights)
    tot = sum(weights.values())
    x = rng.uniform(0, tot)
    for k in kinds:
        x -= weights[k]
        if x <= 0:
            return STREAMS[k](rng)
    return STREAMS[kinds[-1]](rng)


# ------------------------------------------------------------------------------------------------
# correspondence

def corpus_cases(pid):
    import glob
    import os
    out = []
    for p in sorted(glob.glob(os.path.join(common.VERIF, 'corpus', pid, '*.json'))):
        out.append(json.load(open(p))['replay'])
    return out


def correspond(cases, stats, orig=False):
    """Drive every case, emit the Coq comparison terms.  Returns (results, coq terms, index map)."""
    results, terms, idx = [], [], []
    hangs = 0
    for i, case in enumerate(cases):
        if hangs >= MAX_HANGS:
            # the implementation keeps not returning: stop driving it (the hangs are reported as failures)
            stats['skipped_after_hangs'] = stats.get('skipped_after_hangs', 0) + 1
            results.append(None)
            continue
        try:
            res = drive(case)
            if res.get('hang'):
                hangs += 1
        except Unsupported as e:
            stats['unsupported'] = stats.get('unsupported', 0) + 1
            results.append(None)
            continue
        results.append(res)
        if res['parse_error'] is not None:
            stats['parse_error'] = stats.get('parse_error', 0) + 1
            continue
        if res.get('unsupported'):
            stats['unsupported'] = stats.get('unsupported', 0) + 1
            continue
        use = res
        fc = floatified(case)
        if block_text(fc) != block_text(case) and not res.get('hang'):
            try:
                fres = drive(fc)
                if fres.get('unsupported'):
                    raise Unsupported(fres['unsupported'])
                if public(fres) != public(res):
                    stats['int_arithmetic_differs'] = stats.get('int_arithmetic_differs', 0) + 1
                    use = fres
                else:
                    stats['int_literals_agree'] = stats.get('int_literals_agree', 0) + 1
            except Unsupported:
                pass
        try:
            terms.append(emit_solve_case(use, orig=orig))
            idx.append(i)
        except Unsupported:
            stats['unsupported'] = stats.get('unsupported', 0) + 1
    return results, terms, idx


def run_correspondence(out, cases, stats, tag):
    import os
    orig = os.environ.get('SFC_SOLVE_MODEL') == 'orig'
    results, terms, idx = correspond(cases, stats, orig=orig)
    bad, errs = common.run_bool_cases(FAMILY, REQUIRES, terms, tag=tag, shard=120)
    out.corr_errors.extend(errs)
    for b in bad[:20]:
        case = cases[idx[b]]
        res = results[idx[b]]
        out.disagreements.append({'input': case, 'text': block_text(case), 'impl': public(res),
                                  'case': terms[b][:1500]})
    return results, len(terms)


def classify(case, res, stats):
    """coverage bookkeeping: what happened on the implementation"""
    if res is None:
        return
    if res['parse_error'] is not None:
        return
    k = 'outcome:' + (res['outcome'] or 'ok')
    stats[k] = stats.get(k, 0) + 1
    if res['traced'] is not None:
        m = res['traced'][1]
        b = 'sweeps:' + ('0' if m == 0 else '1' if m == 1 else '2-11' if m <= 11 else '12-50' if m <= 50 else '51+')
        stats[b] = stats.get(b, 0) + 1
    st = res['state']
    if st and st['deco']:
        stats['with_decorative'] = stats.get('with_decorative', 0) + 1


# ------------------------------------------------------------------------------------------------
# helpers for the implementation-only oracles

def math_env():
    import math as _m
    env = {k: getattr(_m, k) for k in dir(_m) if not k.startswith('_')}
    return env


def eval_text(txt, row):
    """value of a right-hand side on a row of reported values (Python's own eval, math names available)"""
    env = math_env()
    env.update(row)
    return eval(txt, {'__builtins__': __builtins__}, env)


def same_number(a, b):
    """bitwise-equal doubles (an int is compared by value)"""
    try:
        fa, fb = float(a), float(b)
    except (TypeError, ValueError, OverflowError):
        return False
    if math.isnan(fa) or math.isnan(fb):
        return math.isnan(fa) and math.isnan(fb)
    return fa == fb and math.copysign(1.0, fa) == math.copysign(1.0, fb) if fa == 0.0 else fa == fb


def supplied_exo(txt, T):
    """what the user supplied for an exogenous variable, per period 0..T (None if not a usable spec)"""
    try:
        v = eval(txt, {'__builtins__': __builtins__}, math_env())
    except Exception:  # noqa
        return None
    if type(v) is float:
        return [v] * (T + 1)
    try:
        v = list(v)
    except Exception:  # noqa
        return None
    if len(v) < T + 1:
        return None
    return v[:T + 1]


def var_classes(solver):
    P = solver.Parser
    return {'endo': [v for v, _ in P.Endogenous], 'lagged': [(v, s) for v, s in P.Lagged],
            'exo': [v for v, _ in P.Exogenous], 'deco': [v for v, _ in P.Decoration]}


def undefined_names(case):
    """names used on a right-hand side that no line defines (and that are not functions/constants)"""
    defined = set([l for l, _ in case['eqs']] + [l for l, _ in case['lags']] + [n for n, _ in case['exo']] + ['k', 't'])
    known = set(math_env()) | {'abs', 'max', 'min', 'float', 'sum', 'pow', 'round'}
    out = set()
    for _, rhs in case['eqs']:
        try:
            tree = ast.parse(rhs.strip(), mode='eval')
        except SyntaxError:
            continue
        for n in ast.walk(tree):
            if isinstance(n, ast.Name) and n.id not in defined and n.id not in known:
                out.add(n.id)
    return out


def case_key(case):
    c = {k: v for k, v in case.items() if k not in ('info', 'kind')}
    return json.dumps(c, sort_keys=True)


def write_corpus(pid, name, case, note=''):
    import os
    d = os.path.join(common.VERIF, 'corpus', pid)
    os.makedirs(d, exist_ok=True)
    with open(os.path.join(d, name + '.json'), 'w') as f:
        json.dump({'note': note, 'replay': {'kind': 'solve', 'case': case}}, f, indent=1, sort_keys=True)


def guarded(fn, arg, key, rep_kind):
    """run an implementation-only oracle under the time limit; a call that does not return is a failure"""
    try:
        return run_limited(lambda: fn(arg), 4 * CASE_TIMEOUT)
    except ImplTimeout:
        return [{'key': key, 'what': 'implementation did not return within %d s on %r' % (4 * CASE_TIMEOUT, arg),
                 'replay': {'kind': rep_kind, 'case': arg}}]
