"""C18 — codes are labels: renaming and embedding leave an economy unchanged.

Proof: coq/Gen/PropC18.v (soundness of the rename-equivalence certificate; restriction lemma;
evaluation commutes with renaming for all expressions).
Validation on every run:
 (i) renaming: a generated program and the same program with country / sector / goods- and
     labour-market codes consistently renamed through the name parameters the constructors accept;
     the two emitted systems must be accepted by the kernel-evaluated rename_equiv_case under the
     induced variable renaming;
 (ii) embedding: 2-3 single-country economies with pairwise different currencies are built alone
     and jointly in one model (with and without an unused ExternalSector); the part of the joint
     system that belongs to each economy must be accepted against the stand-alone system under the
     documented country-code prefixing.
Oracle: all builds are solved by the implementation and compared variable by variable.
"""
import copy
import json
import random
import re

import common
import gen_common as G
import gen_checks as GC
import c08
import gen_clear2
import gen_rename
import gen_embed
from common import coq_string, coq_list

PID = 'C18'
FAMILY = 'Gen'
PROPFILE = 'PropC18.v'
LEVEL = 'proof'

NEW = {'GOV': 'STATE', 'TRE': 'FISC', 'CB': 'BANK', 'HH': 'FAM', 'HW': 'WRK', 'BUS': 'FIRM', 'CAP': 'RENT', 'TF': 'TAXES',
       'GOOD': 'WIDGET', 'LAB': 'WORK', 'CA': 'QX', 'US': 'ZED', 'JP': 'NIP', 'GV': 'CTR', 'N': 'NOR', 'S': 'SOU', 'W': 'WST',
       'BSV': 'SVC', 'SERV': 'CARE'}
NAME_KW = {   # constructor name parameters and their defaults
    'Household': {'consumption_good_name': 'GOOD', 'labour_name': 'LAB'},
    'HouseholdWithExpectations': {'consumption_good_name': 'GOOD', 'labour_name': 'LAB'},
    'Capitalists': {'consumption_good_name': 'GOOD'},
    'FixedMarginBusiness': {'labour_input_name': 'LAB', 'output_name': 'GOOD'},
    'FixedMarginBusinessMultiOutput': {'labour_input_name': 'LAB'},
    'TaxFlow': {'taxes_paid_to': 'GOV'},
    'MoneyMarket': {'issuer_short_code': 'GOV'},
    'DepositMarket': {'issuer_short_code': 'GOV'},
}


def ren_ident(name, cm):
    return '_'.join(cm.get(p, p) for p in name.split('_'))


def ren_text(text, cm):
    """rename identifiers in an expression text; {step_id:VAR} keeps the step id."""
    out, i = [], 0
    for m in re.finditer(r'\{(\w+):(\w+)\}|[A-Za-z_][A-Za-z0-9_]*', text):
        out.append(text[i:m.start()])
        if m.group(1):
            out.append('{%s:%s}' % (m.group(1), ren_ident(m.group(2), cm)))
        else:
            out.append(ren_ident(m.group(0), cm))
        i = m.end()
    out.append(text[i:])
    return ''.join(out)


def rename_program(prog, cm):
    q = {'maxtime': prog['maxtime'], 'shape': prog.get('shape'), 'steps': []}
    for st in prog['steps']:
        st = copy.deepcopy(st)
        if st['kind'] == 'country':
            st['code'] = cm.get(st['code'], st['code'])
            if st.get('currency'):
                st['currency'] = cm.get(st['currency'], st['currency'])
        elif st['kind'] == 'sector':
            st['code'] = cm.get(st['code'], st['code'])
            kw = st.setdefault('kw', {})
            for k, default in NAME_KW.get(st['cls'], {}).items():
                kw[k] = cm.get(kw.get(k, default), kw.get(k, default))
        elif st['kind'] == 'op':
            for f in ('name', 'var', 'term'):
                if f in st:
                    st[f] = ren_ident(st[f], cm) if f != 'term' else ren_text(st[f], cm)
            if st.get('eqn'):
                st['eqn'] = ren_text(st['eqn'], cm)
            if 'weights' in st:
                st['weights'] = [[cm.get(c, c), ren_text(e, cm)] for c, e in st['weights']]
                st['residual'] = cm.get(st['residual'], st['residual'])
        q['steps'].append(st)
    return q


def literal_gov_vars(a):
    """Variables of government classes that keep literal names whatever the goods market is called
    (the constructors accept no good name: D18c) — excluded from the comparison."""
    drop = set()
    for s in a['mod'].GetSectors():
        if type(s).__name__ in ('ConsolidatedGovernment', 'DoNothingGovernment', 'Treasury', 'GoldStandardGovernment'):
            drop.add(s.GetVariableName('PRIM_BAL'))
    return drop


def system_minus(system, drop):
    return [(v, k) for v, k in system if v not in drop]


def rename_case(prog, cm):
    a1 = GC.analyse(prog)
    p2 = rename_program(prog, cm)
    a2 = GC.analyse(p2)
    drop1 = literal_gov_vars(a1)
    drop2 = literal_gov_vars(a2)
    good_renamed = cm.get('GOOD', 'GOOD') != 'GOOD'
    if good_renamed:
        # the built-in literal DEM_GOOD of the renamed build's governments is an unused constant
        for s in a2['mod'].GetSectors():
            if type(s).__name__ in ('ConsolidatedGovernment', 'DoNothingGovernment', 'Treasury', 'GoldStandardGovernment'):
                drop2.add(s.GetVariableName('DEM_GOOD'))
    e1 = system_minus(a1['system'], drop1)
    e2 = system_minus(a2['system'], drop2)
    m = [(v, ren_ident(v, cm)) for v, _ in a1['system']]
    names1 = set()
    for v, k in e1:
        names1.add(v)
    case = 'rename_equiv_case %s %s %s' % (coq_list(['(%s, %s)' % (coq_string(x), coq_string(y)) for x, y in m if x != y]),
                                           G.coq_sys(e1), G.coq_sys(e2))
    return case, p2, dict(m), drop1 | drop2


def series_equal_under(ts1, ts2, m, skip, rel=5e-4):
    import math
    for v, s1 in ts1.items():
        if v in skip:
            continue
        w = m.get(v, v)
        if w in skip:
            continue
        if w not in ts2:
            return 'variable %s (renamed %s) missing' % (v, w)
        s2 = ts2[w]
        if len(s1) != len(s2):
            return 'length of %s differs' % v
        for k, (x, y) in enumerate(zip(s1, s2)):
            if math.isfinite(x) and math.isfinite(y):
                if abs(x - y) > rel * max(1.0, abs(x), abs(y)):
                    return '%s[%d]=%r but %s[%d]=%r' % (v, k, x, w, k, y)
            elif repr(x) != repr(y):
                return '%s[%d]=%r but %s[%d]=%r' % (v, k, x, w, k, y)
    return None


def solve_pair_oracle(p1, p2, m, skip):
    ts1, e1, _ = GC.solve(p1)
    ts2, e2, _ = GC.solve(p2)
    if (ts1 is None) != (ts2 is None):
        if common.exc_class(e1 or e2) == 'ConvergenceError':
            return None      # iteration cap reached on one side only: solver's business (C11), not judged here
        return 'one build solves, the other raises %r' % (e1 or e2)
    if ts1 is None:
        return None if common.exc_class(e1) == common.exc_class(e2) else 'error classes differ: %r vs %r' % (e1, e2)
    return series_equal_under(ts1, ts2, m, skip)


# ---------------------------------------------------------------- embedding
def embed_case(rng, seed):
    n = rng.choice([2, 2, 3])
    codes = rng.sample(['AA', 'BB', 'CC', 'DD'], n)
    singles = []
    for j in range(n):
        pg = G.ProgGen(random.Random(seed * 31 + j), shuffle=False)
        if rng.random() < 0.35:
            # a federated economy: a country plus regions that rely on the model's default currency
            p = pg.federated(codes=[codes[j], codes[j] + 'N', codes[j] + 'S'], cid_prefix='e%d_' % j)
            singles.append({'maxtime': 4, 'steps': p['steps'], 'shape': 'federated'})
        else:
            steps = []
            info = pg.economy(steps, 'e%d' % j, codes[j])
            steps.extend(info['ops'])
            singles.append({'maxtime': 4, 'steps': steps, 'shape': 'single'})
    with_ext = rng.random() < 0.5
    pos = rng.randint(0, n)
    joint_steps = []
    for j in range(n):
        if with_ext and j == pos:
            joint_steps.append({'kind': 'external', 'id': 'ext'})
        joint_steps.extend(copy.deepcopy(singles[j]['steps']))
    if with_ext and pos == n:
        joint_steps.append({'kind': 'external', 'id': 'ext'})
    # user operations of all economies come after all declarations (as in every generated program)
    decl = [st for st in joint_steps if st['kind'] != 'op']
    ops = [st for st in joint_steps if st['kind'] == 'op']
    joint = {'maxtime': 4, 'steps': decl + ops, 'shape': 'joint'}
    return singles, joint, codes, with_ext


def embed_map(a_single, cc):
    """stand-alone full name -> name in the joint model.  A single-country economy gains the country
    prefix (market variables that embed a supplier's full code get it there too); a federated
    economy already uses prefixed codes, so its names are unchanged."""
    from sfc_models.sector import Market
    mod = a_single['mod']
    if len(mod.CountryList) > 1:
        return {s.GetVariableName(v): s.GetVariableName(v) for s in mod.GetSectors() for v in s.EquationBlock.GetEquationList()}
    codes = set(s.Code for s in mod.GetSectors())
    m = {}
    for s in mod.GetSectors():
        for v in s.EquationBlock.GetEquationList():
            local = v
            if isinstance(s, Market) and v.startswith('SUP_') and v[4:] in codes and v[4:] != s.Code:
                local = 'SUP_%s_%s' % (cc, v[4:])
            m[s.GetVariableName(v)] = '%s_%s__%s' % (cc, s.Code, local)
    return m


def ren_kind(kind, m):
    """rename names inside a system entry (python side, for restricting/mapping text only)."""
    return kind


def run(ctx):
    proofs__ = common.proof_status_async([(FAMILY, PROPFILE)] + gen_clear2.PROOFS + gen_rename.PROOFS + gen_embed.PROOFS)      # re-checked in the background while the cases run
    out = common.Outcome()
    out.proof = proofs__.result()
    n_ren = ctx.scale(30, 350)
    n_emb = ctx.scale(12, 120)
    cases, metas, seen = [], [], set()
    stats = {'rename': {'shapes': {}, 'codes_renamed': {}}, 'embed': {'economies': 0, 'with_external': 0}, 'solved_pairs': 0}
    # ---- (i) renaming
    for i in range(n_ren):
        seed = ctx.rng.randrange(10 ** 9)
        pg = G.ProgGen(random.Random(seed), shuffle=False, explicit_gov_demand=True)
        prog = pg.any()
        keys = [k for k in NEW if ctx.rng.random() < 0.6]
        cm = {k: NEW[k] for k in keys}
        if ctx.rng.random() < 0.35:
            # codes that are substrings / prefixes of other codes (B in BANK, FI in FISC and FIRM, ST in STATE)
            alt = {'HH': 'B', 'HW': 'FI', 'CAP': 'ST', 'BUS': 'FIRM', 'CB': 'BANK', 'TRE': 'FISC', 'GOV': 'STATE'}
            for k2 in alt:
                if ctx.rng.random() < 0.7:
                    cm[k2] = alt[k2]
        if ctx.rng.random() < 0.3:
            # a code that begins with its own country's (new) code and an underscore, the rest being a sibling's
            # (new) code: CAP -> 'QX_FAM' in country QX next to FAM; full codes 'QX_QX_FAM' and 'QX_FAM' stay distinct
            ccs = [st['code'] for st in prog['steps'] if st['kind'] == 'country']
            secs = set(st['code'] for st in prog['steps'] if st['kind'] == 'sector')
            victims = [v for v in ('CAP', 'HW', 'BUS', 'TF') if v in secs]
            if ccs and victims and 'HH' in secs:
                cc = ctx.rng.choice(ccs)
                cm[ctx.rng.choice(victims)] = '%s_%s' % (cm.get(cc, cc), cm.get('HH', 'HH'))
        try:
            case, p2, m, skip = rename_case(prog, cm)
        except G.Unsupported:
            continue
        except Exception as e:  # noqa
            out.failures.append({'key': 'rename:renamed-build-fails', 'what': 'renamed program fails to build: %r (codes %r)' % (e, cm),
                                 'replay': {'kind': 'rename', 'prog': G.strip_prog(prog), 'codes': cm}})
            continue
        cases.append(case)
        metas.append({'kind': 'rename', 'prog': G.strip_prog(prog), 'codes': cm})
        seen.add(json.dumps([G.strip_prog(prog), cm], sort_keys=True))
        stats['rename']['shapes'][prog['shape']] = stats['rename']['shapes'].get(prog['shape'], 0) + 1
        for k in cm:
            stats['rename']['codes_renamed'][k] = stats['rename']['codes_renamed'].get(k, 0) + 1
        if i % 2 == 0:
            stats['solved_pairs'] += 1
            why = solve_pair_oracle(prog, p2, m, skip)
            if why:
                out.failures.append({'key': 'rename:series-differ', 'what': 'renaming codes %r changes the result: %s' % (cm, why),
                                     'replay': {'kind': 'rename', 'prog': G.strip_prog(prog), 'codes': cm}})
    # ---- (ii) embedding
    for i in range(n_emb):
        seed = ctx.rng.randrange(10 ** 9)
        singles, joint, codes, with_ext = embed_case(ctx.rng, seed)
        try:
            aj = GC.analyse(joint)
            asg = [GC.analyse(p) for p in singles]
        except G.Unsupported:
            continue
        stats['embed']['economies'] += len(singles)
        stats['embed']['with_external'] += 1 if with_ext else 0
        tsj = None
        for j, (a, cc) in enumerate(zip(asg, codes)):
            m = embed_map(a, cc)
            own = set(m.values())
            part = [(v, k) for v, k in aj['system'] if v in own or any(v.startswith(c.Code + '_') for c in a['mod'].CountryList)
                    or v.startswith(cc + '_')]
            e1 = [(v, k) for v, k in a['system'] if '__' in v]
            case = 'rename_equiv_case %s %s %s' % (
                coq_list(['(%s, %s)' % (coq_string(x), coq_string(y)) for x, y in m.items() if x != y]), G.coq_sys(e1), G.coq_sys(part))
            cases.append(case)
            metas.append({'kind': 'embed', 'single': G.strip_prog(singles[j]), 'joint': G.strip_prog(joint), 'country': cc})
            seen.add(json.dumps([G.strip_prog(singles[j]), G.strip_prog(joint)], sort_keys=True))
            if i % 2 == 0:
                if tsj is None:
                    tsj = GC.solve(joint)
                ts1, e1x, _ = GC.solve(singles[j])
                why = None
                if (ts1 is None) != (tsj[0] is None):
                    # a stand-alone economy that does not converge makes the joint model fail as a whole; and
                    # non-convergence within the iteration cap is the solver's business (C11), not a difference
                    # between the emitted systems (those are compared by the kernel-evaluated checker)
                    why = None if ts1 is None else 'stand-alone solves but the joint model raises %r' % (tsj[1],)
                    if why and (common.exc_class(tsj[1]) == 'ConvergenceError' or any(GC.solve(p)[0] is None for p in singles)):
                        stats['embed'].setdefault('not_judged_joint_did_not_converge', 0)
                        stats['embed']['not_judged_joint_did_not_converge'] += 1
                        why = None
                elif ts1 is not None:
                    why = series_equal_under(ts1, tsj[0], m, set(['t', 'k']))
                stats['solved_pairs'] += 1
                if why:
                    out.failures.append({'key': 'embed:series-differ', 'what': 'economy %s differs when embedded: %s' % (cc, why),
                                         'replay': {'kind': 'embed', 'singles': [G.strip_prog(p) for p in singles],
                                                    'joint': G.strip_prog(joint), 'codes': codes}})
    bad, errs = common.run_bool_cases(FAMILY, G.GEN_REQUIRES, cases, tag=PID, shard=5, jobs=14)
    out.corr_errors = errs
    for i in bad[:10]:
        out.disagreements.append({'case': metas[i], 'obligation': 'rename_equiv_case rejected the two emitted systems'})
        # failing-input search on exactly this pair
        m_ = metas[i]
        try:
            if m_['kind'] == 'rename':
                case_, p2_, map_, skip_ = rename_case(m_['prog'], m_['codes'])
                why = solve_pair_oracle(m_['prog'], p2_, map_, skip_)
                if why:
                    out.failures.append({'key': 'rename:series-differ', 'what': 'renaming codes %r changes the result: %s' % (m_['codes'], why),
                                         'replay': {'kind': 'rename', 'prog': m_['prog'], 'codes': m_['codes']}})
            else:
                a_ = GC.analyse(m_['single'])
                ts1, _, _ = GC.solve(m_['single'])
                tsj, _, _ = GC.solve(m_['joint'])
                if ts1 is not None and tsj is not None:
                    why = series_equal_under(ts1, tsj, embed_map(a_, m_['country']), set(['t', 'k']))
                    if why:
                        out.failures.append({'key': 'embed:series-differ', 'what': 'economy %s differs when embedded: %s' % (m_['country'], why),
                                             'replay': {'kind': 'embed', 'singles': [m_['single']], 'joint': m_['joint'], 'codes': [m_['country']]}})
        except Exception as e:  # noqa
            out.notes.append('failing-input search on a rejected pair raised %r' % (e,))
    out.evaluations = len(cases)
    out.nontrivial = len(seen)
    out.samples = [{'kind': metas[0]['kind'], 'codes': metas[0].get('codes')}, {'kind': metas[-1]['kind'], 'country': metas[-1].get('country')}] if metas else []
    out.rule = ('(i) shared program generator (all shapes) x random subsets of the code map %r applied through the '
                'constructors name parameters; (ii) 2-3 single-country economies with different currencies, alone and '
                'jointly, with/without an unused ExternalSector; distinct by (program, renaming) / (economy, joint)' % (NEW,))
    out.extra = {'input_distribution': stats, 'programs': len(cases), 'source_hashes': common.source_hashes(
        ['sfc_models/models.py', 'sfc_models/sector.py', 'sfc_models/sector_definitions.py'])}
    out.trusted_base = ['Coq 8.16.1 kernel + vm_compute', 'axioms: Reals (sig_forall_dec, sig_not_dec), functional_extensionality_dep',
                        'harness: EquationParser + Python ast -> Coq sys; the variable renaming induced by a code map is '
                        'computed piecewise on _-separated name pieces by the harness']
    out.assumptions = ['the government classes keep the literal names DEM_GOOD / PRIM_BAL (their constructors accept no good '
                       'name, D18c): government demand is declared explicitly under the market name in both builds and '
                       'PRIM_BAL (and the unused literal DEM_GOOD of the renamed build) is excluded from the comparison',
                       'money and deposit market codes (MON, DEP) are not renamed (Treasury hard-codes DEM_MON and takes no name)']
    # third sentence of C18 for markets, for ALL programs of the multi-currency pipeline model (coq/GenClear2:
    # Main2_market_zone_isolation, membership in iff form): the member lists the theorem names are compared with the
    # object model and zone isolation is tested on the emitted rows
    gen_clear2.extra(ctx, out, quick_n=24, thorough_n=200)
    # first sentence of C18 for ALL programs of the pipeline models (coq/GenRename: Main_/Main2_rename_equivariant under the
    # decidable side condition renaming_ok): the Coq renaming is compared with the renaming the harness performs, and the
    # renamed model output with the implementation's output on the renamed program
    gen_rename.extra(ctx, out, 45, 500)
    gen_rename.finding_probes(out)      # recorded finding D18d (a code containing the word EXOGENOUS)
    # second and third sentences for ALL sets of economies (coq/GenEmbed: Main2_embedding, Main2_embedding_sat under the
    # decidable embed_ok; Main2_tax_zone_isolation, Main2_dividend_country_isolation): the theorem's `joint` is compared with
    # the joint program the harness builds, embed_ok is evaluated, and components and joint run through the whole-program
    # correspondence
    gen_embed.extra(ctx, out, 16, 200)
    out.failures.extend(market_code_probe())
    return out


def market_code_probe():
    """Recorded finding D18e (found while proving Main2_embedding): in a model with several countries a market whose code
    is '<country code>_<code of its supplier>' shares the name SUP_<code> between its own supply variable and the
    allocation variable of that supplier."""
    def eco(cid, cc, cur):
        secs = [('HH', 'Household', {'alpha_income': 0.6, 'alpha_fin': 0.4}), ('BUS', 'FixedMarginBusiness', {'profit_margin': 0.0}),
                ('LAB', 'Market', {}), ('GOOD', 'Market', {})]
        st = [{'kind': 'country', 'id': cid, 'code': cc, 'currency': cur, 'region': False}]
        return st + [{'kind': 'sector', 'id': cid + '_' + c, 'cls': cls, 'country': cid, 'code': c, 'kw': dict(kw)} for c, cls, kw in secs]
    prog = {'maxtime': 4, 'steps': eco('c1', 'CA', 'CAD') + eco('c2', 'US', 'USD'), 'shape': 'multizone'}
    cm = {'GOOD': 'CA_BUS'}
    try:
        case, p2, m, skip = rename_case(prog, cm)
        why = solve_pair_oracle(prog, p2, m, skip)
    except Exception as e:  # noqa
        why = 'renamed program fails: %r' % (e,)
    if why:
        return [{'key': 'rename:market-code-is-prefixed-supplier-code',
                 'what': 'renaming the goods market GOOD to CA_BUS (country CA, supplier BUS) changes the result: %s' % (why,),
                 'replay': {'kind': 'rename', 'prog': prog, 'codes': cm}}]
    return []


def replay(path):
    obj = json.load(open(path))
    r = obj.get('replay') or {}
    if r.get('kind') == 'clear2':
        return gen_clear2.replay(obj)
    if r.get('kind') == 'rename_model':
        return gen_rename.replay(obj)
    if r.get('kind') == 'embed_model':
        return gen_embed.replay(obj)
    if r.get('kind') == 'rename':
        try:
            case, p2, m, skip = rename_case(r['prog'], r['codes'])
            why = solve_pair_oracle(r['prog'], p2, m, skip)
        except Exception as e:  # noqa
            why = 'renamed program fails: %r' % e
    elif r.get('kind') == 'embed':
        why = None
        tsj = GC.solve(r['joint'])
        for p, cc in zip(r['singles'], r['codes']):
            a = GC.analyse(p)
            ts1, _, _ = GC.solve(p)
            if ts1 is not None and tsj[0] is not None:
                why = why or series_equal_under(ts1, tsj[0], embed_map(a, cc), set(['t', 'k']))
    else:
        print('replay names a proof/validation obligation, nothing to execute:', json.dumps(obj)[:600])
        return 1
    print('replay: %s' % (('property violated: ' + why) if why else 'property holds on this input'))
    return 1 if why else 0
