"""Stand-alone driver for harness/gen_book.py (the bundled builders as programs of the pipeline model, coq/GenBook).

    /venv/bin/python /verif/harness/gen_book_selftest.py [--seed N] [--tier quick|thorough] [--no-proof]
"""
import argparse
import json
import sys
import os

sys.path.insert(0, os.path.dirname(os.path.abspath(__file__)))
import common

common.use_impl()
import gen_book


def main():
    ap = argparse.ArgumentParser()
    ap.add_argument('--seed', type=int, default=int(os.environ.get('VERIF_SEED', '0')))
    ap.add_argument('--tier', default='quick')
    ap.add_argument('--no-proof', action='store_true')
    ap.add_argument('--pid', default='C09')
    a = ap.parse_args()
    ctx = common.Ctx(a.pid, a.tier, a.seed)
    out = common.Outcome()
    status = 0
    if not a.no_proof:
        for fam, pf in gen_book.PROOFS:
            st = common.proof_status(fam, pf)
            print('proof %s/%s ok=%s theorems=%d broken=%s' % (fam, pf, st['ok'], len(st['theorems']), st['broken']))
            print('  axioms:', sorted(set(x for v in st['assumptions'].values() for x in (v or []))))
            if not st['ok']:
                status = 1
                print((st.get('log') or '')[-1500:])
    gen_book.extra(ctx, out)
    print('evaluations=%d nontrivial=%d disagreements=%d corr_errors=%d failures=%d wall=%.1fs' % (
        out.evaluations, out.nontrivial, len(out.disagreements), len(out.corr_errors), len(out.failures), ctx.elapsed()))
    print('distribution:', json.dumps(out.extra.get('book_model'), sort_keys=True))
    for d in out.disagreements[:3]:
        m = d['book_model']
        print('DISAGREEMENT:', json.dumps(m)[:1500])
        try:
            print('   model   :', gen_book.show_model(m['params'], m['mode'])[:6000])
            print('   impl    :', str(gen_book.rows_of_model(gen_book.impl_for(m['params'], m['mode'])))[:6000])
        except Exception as e:
            print('   (could not show the model outcome: %r)' % (e,))
    for e in out.corr_errors[:2]:
        print('CORR ERROR:', e['output'][-1500:])
    if out.failures or out.disagreements or out.corr_errors:
        status = 1
    print('RESULT:', 'FAIL' if status else 'OK')
    return status


if __name__ == '__main__':
    sys.exit(main())
