"""Driver for harness/gen_asset.py alone:  /venv/bin/python harness/gen_asset_selftest.py [seed] [tier]
Prints proof status, counts, disagreements and oracle failures (first of each key)."""
import json
import os
import sys
import time

HERE = os.path.dirname(os.path.abspath(__file__))
sys.path.insert(0, HERE)
import common  # noqa: E402

common.use_impl()
import gen_asset  # noqa: E402


def main():
    seed = int(sys.argv[1]) if len(sys.argv) > 1 else 0
    tier = sys.argv[2] if len(sys.argv) > 2 else 'quick'
    ctx = common.Ctx('C04', tier, seed)
    out = common.Outcome()
    t0 = time.time()
    st = common.merge_proofs([common.proof_status(f, p) for f, p in gen_asset.PROOFS])
    print('proof ok=%s theorems=%d broken=%s' % (st['ok'], len(st['theorems']), st['broken']))
    axioms = sorted(set(a for v in st['assumptions'].values() for a in (v or [])))
    print('axioms:', axioms)
    gen_asset.extra(ctx, out, keys='all')
    print('evaluations=%d nontrivial=%d disagreements=%d corr_errors=%d failures=%d wall=%.1fs' % (
        out.evaluations, out.nontrivial, len(out.disagreements), len(out.corr_errors), len(out.failures),
        time.time() - t0))
    print('distribution:', json.dumps(out.extra['asset_model'], sort_keys=True))
    for d in out.disagreements[:3]:
        print('DISAGREEMENT:', json.dumps(d, default=str)[:1500])
    for e in out.corr_errors[:2]:
        print('CORR ERROR:', str(e)[:1500])
    seen = set()
    for f in out.failures:
        if f['key'] in seen:
            continue
        seen.add(f['key'])
        path = common.write_replay('GENASSET', {'key': f['key'], 'what': f['what'], 'replay': f['replay']}, len(seen))
        print('FAILURE [%s] %s\n   replay=%s' % (f['key'], f['what'][:300], path))
    bad = (not st['ok']) or out.disagreements or out.corr_errors or out.failures
    print('RESULT:', 'ALARM' if bad else 'OK')
    return 1 if bad else 0


if __name__ == '__main__':
    if len(sys.argv) > 2 and sys.argv[1] == '--replay':
        sys.exit(gen_asset.replay(json.load(open(sys.argv[2]))))
    sys.exit(main())
