"""Stand-alone driver for harness/gen_plumb.py (semantic side conditions sem_ok2 / sem_ok2_multi, coq/GenPlumb).

    /venv/bin/python /verif/harness/gen_plumb_selftest.py [--seed N] [--tier quick|thorough] [--no-proof]
"""
import argparse
import json
import sys
import os

sys.path.insert(0, os.path.dirname(os.path.abspath(__file__)))
import common

common.use_impl()
import gen_plumb


def main():
    ap = argparse.ArgumentParser()
    ap.add_argument('--seed', type=int, default=int(os.environ.get('VERIF_SEED', '0')))
    ap.add_argument('--tier', default='quick')
    ap.add_argument('--no-proof', action='store_true')
    ap.add_argument('--pid', default='C01')
    a = ap.parse_args()
    ctx = common.Ctx(a.pid, a.tier, a.seed)
    out = common.Outcome()
    status = 0
    if not a.no_proof:
        for fam, pf in gen_plumb.PROOFS + gen_plumb.PROOFS_ORDER:
            st = common.proof_status(fam, pf)
            print('proof %s/%s ok=%s theorems=%d broken=%s forbidden=%s' % (fam, pf, st['ok'], len(st['theorems']), st['broken'], st['forbidden']))
            print('  axioms:', sorted(set(x for v in st['assumptions'].values() for x in (v or []))))
            if not st['ok']:
                status = 1
                print((st.get('log') or '')[-1500:])
    gen_plumb.extra(ctx, out)
    print('evaluations=%d nontrivial=%d disagreements=%d corr_errors=%d failures=%d wall=%.1fs' % (
        out.evaluations, out.nontrivial, len(out.disagreements), len(out.corr_errors), len(out.failures), ctx.elapsed()))
    d = dict(out.extra.get('plumb_model') or {})
    samples = d.pop('sem_ok2_multi_false_samples', [])
    print('distribution:', json.dumps(d, sort_keys=True))
    for s in samples[:1]:
        print('a program with sem_ok2_multi = false:', json.dumps(s)[:1500])
    for x in out.disagreements[:3]:
        print('DISAGREEMENT:', x.get('what', ''), json.dumps(x['plumb_program'])[:2000])
        try:
            print('   model:', gen_plumb.show_model(x['plumb_program'])[:1000])
        except Exception as e:
            print('   (could not show the model outcome: %r)' % (e,))
    for e in out.corr_errors[:2]:
        print('CORR ERROR:', e['output'][-1500:])
    if out.failures or out.disagreements or out.corr_errors:
        status = 1
    print('RESULT:', 'FAIL' if status else 'OK')
    return status


if __name__ == '__main__':
    sys.exit(main())
