"""The bundled Godley-Lavoie builders as programs of the pipeline model (coq/GenBook) against the REAL builders.

Part of C09 (the quantifier over parameter vectors: theorems about the builders' programs for ALL parameter
texts, instead of one certificate per generated vector).  Integration (harness/c09.py):

    import gen_book
    ...                                 # in run(ctx), where out.proof is set:
    out.proof = common.proof_status_many([(FAMILY, PROPFILE)] + gen_book.PROOFS)
    ...                                 # at the end of run(ctx), just before `return out`
    gen_book.extra(ctx, out)            # builder output == E_*(texts); appends to out.*
    ...                                 # in replay(path), before the other kinds:
    if (obj.get('replay') or {}).get('kind') == 'book_model':
        return gen_book.replay(obj)

Proof: coq/GenBook/PropBook.v —
    Book_*_system        for ALL parameter-shaped texts the pipeline model (coq/GenMain2 `build`) run on the program of
                         chapter3.SIM / SIMEX1 / chapter4.PC (as functions of their parameter texts; `_run`: followed by
                         the SetExogenous / AddInitialCondition calls of c09.build_book) yields the displayed system E_*;
    Book_*_recursion     every pair of valuations satisfying E_* (GenMain2's `sat`, opaque texts read by bv_std) obeys
                         the book's period equations, alpha1 = the value of the emitted text, for ALL texts / exogenous
                         values / inherited stocks;  Book_*_recursion_rows: the same from `sat_rows`, i.e. from the
                         emitted row TEXTS (fs_rows, what this file compares with FinalEquations) parsed as arithmetic;
    Book_*_closed_form(_rows)   hence the closed forms (Gen/Book.v) when the denominators are non-zero.
Tie (this file, every run): for random admissible parameter vectors (c09.gen_params) the REAL builders are called
    (i)  as c09.build_book does (use_book_exogenous random; hh.AlphaIncome / AlphaFin / tf.TaxRate assigned;
         SetExogenous with lists; SetEquationRightHandSide of the lambdas; AddInitialCondition), and
    (ii) as shipped (use_book_exogenous=True) with only the parameters assigned,
    and Coq evaluates:  the implementation's FinalEquations (read by its own EquationParser: endogenous / lagged /
    exogenous rows in emission order, initial conditions; blanks removed — the conventions of gen_main.emit_case)
    == E_SIM / E_SIMEX1 / E_PC instantiated at the texts the implementation formats the numbers to, and every text is
    parameter-shaped (the theorems' hypothesis).  So: builder output == E_*(texts) on every run, theorems about E_* for
    all texts.  D09 (a parameter with more than four decimals is emitted rounded) is untouched: the texts are the
    '%0.4f' renderings, the theorems speak about the value of the emitted text.
Oracle: none of its own (c09's closed-form oracle runs on the same parameter vectors).
"""
import json

import common
from common import coq_string, coq_list, coq_bool
import gen_common
import gen_main
import c09

PROOFS = [('GenBook', 'PropBook.v')]
FAMILY = 'GenBook'
REQUIRES = ['From SFC.Base Require Import Res Str.', 'From SFC.Gen Require Import Fx Zone.',
            'From SFC.GenMain2 Require Import Program Classes Main.',
            'From SFC.GenMain2 Require CaseDefs.',
            'From SFC.GenBook Require Import Text Builders BuildProofs CaseDefs.',
            'Import SFC.GenMain2.CaseDefs.']


# ----------------------------------------------------------------------------------------------
# implementation side

def rows_of_model(mod):
    """gen_main.run_impl for an already built Model: ('err', class) | ('ok', endo, lag, exo, ic)."""
    try:
        text = gen_common.generate_equations(mod)
    except Exception as e:                                  # noqa: the class is the observable
        return ('err', common.exc_class(e))
    raw, parser = gen_common.parse_final(text)
    endo = [(v, x.replace(' ', '')) for v, (k, x) in raw if k == 'def']
    lag = [(v, x.replace(' ', '')) for v, (k, x) in raw if k == 'lag']
    exo = [(v, x.replace(' ', '')) for v, (k, x) in raw if k == 'exo']
    if endo and endo[-1] == ('t', 'k'):
        endo.pop()                                          # the time axis the parser adds by itself
    ic = sorted((k, v.replace(' ', '')) for k, v in parser.InitialConditions.items())
    return ('ok', endo, lag, exo, ic)


def build_shipped(p):
    """The bundled builder exactly as shipped (book exogenous), only the parameters assigned the way c09 does."""
    from sfc_models.gl_book.chapter3 import SIM, SIMEX1
    from sfc_models.gl_book.chapter4 import PC
    cls = {'SIM': SIM, 'SIMEX1': SIMEX1, 'PC': PC}[p['kind']]
    mod = cls('C').build_model()
    c = mod['C']
    hh, tf = c['HH'], c['TF']
    hh.AlphaIncome, hh.AlphaFin, tf.TaxRate = p['a1'], p['a2'], p['th']
    if p['kind'] == 'PC':
        hh.SetEquationRightHandSide('L0', repr(p['l0']))
        hh.SetEquationRightHandSide('L1', repr(p['l1']))
        hh.SetEquationRightHandSide('L2', repr(p['l2']))
    return mod


def build_untouched(kind):
    from sfc_models.gl_book.chapter3 import SIM, SIMEX1
    from sfc_models.gl_book.chapter4 import PC
    return {'SIM': SIM, 'SIMEX1': SIMEX1, 'PC': PC}[kind]('C').build_model()


# ----------------------------------------------------------------------------------------------
# the displayed system at the formatted texts

def fmt4(x):
    return '%0.4f' % (x,)


def icv(x):
    return str(float(x))                                    # Model.AddInitialCondition


def texts(p):
    t = [fmt4(p['a1']), fmt4(p['a2']), fmt4(p['th'])]
    if p['kind'] == 'PC':
        t += [repr(p['l0']), repr(p['l1']), repr(p['l2'])]
    return t


def coq_E(p, mode):
    """Coq term of the displayed system for parameter vector p.  mode: 'run' (c09.build_book), 'shipped', 'untouched'."""
    kind = p['kind']
    ts = ['0.6000', '0.4000', '0.2000'] + (['0.635', '5.', '.01'] if kind == 'PC' else []) if mode == 'untouched' else texts(p)
    args = ' '.join(coq_string(t) for t in ts)
    if mode in ('shipped', 'untouched'):
        if kind == 'SIM':
            return ts, 'E_SIM %s SIM_G_BOOK []' % args
        if kind == 'SIMEX1':
            return ts, 'E_SIMEX1 %s SIM_G_BOOK [("HH__AfterTax", "16.0")]' % args
        return ts, 'E_PC %s PC_G_BOOK PC_R_BOOK pc_book_ic pc_globals' % args
    book = coq_bool(bool(p.get('book_exo')))
    g = coq_string(repr(list(p['G'])))
    if kind == 'SIM':
        return ts, 'E_SIM %s %s [("HH__F", %s); ("GOV__F", %s)]' % (args, g, coq_string(icv(p['H0'])), coq_string(icv(-p['H0'])))
    if kind == 'SIMEX1':
        return ts, 'E_SIMEX1 %s %s (simex_run_ic %s %s %s %s)' % (args, g, book, coq_string(icv(p['H0'])),
                                                                 coq_string(icv(-p['H0'])), coq_string(icv(p['YD0'])))
    return ts, 'E_PC %s %s %s (pc_run_ic %s %s %s %s) (globals_if %s)' % (
        args, g, coq_string(repr(list(p['r']))), book, coq_string(icv(p['H0'])), coq_string(icv(p['B0'])),
        coq_string(icv(-p['H0'])), book)


def emit_case(p, mode, res):
    ts, E = coq_E(p, mode)
    if res[0] == 'err':
        exp = '(ExpErr %s)' % res[1]
    else:
        exp = '(ExpOk %s %s %s %s)' % tuple(gen_main._pairs(x) for x in res[1:])
    return 'book_case %s (%s) %s' % (coq_list([coq_string(t) for t in ts]), E, exp)


def impl_for(p, mode):
    if mode == 'run':
        return c09.build_book(p)
    if mode == 'shipped':
        return build_shipped(p)
    return build_untouched(p['kind'])


TRUSTED = [
    'GenBook: the bundled builders chapter3.SIM / SIMEX1 / chapter4.PC transcribed as programs of the pipeline model\'s '
    'language (coq/GenBook/Builders.v, functions of the parameter texts; attribute assignments hh.AlphaIncome / AlphaFin / '
    'tf.TaxRate and SetEquationRightHandSide of the lambdas are modelled by writing the text at the builder\'s line, the '
    'global equation of PC by the wrapper build_g); tied to the code on every run by harness/gen_book.py: the REAL builders\' '
    'FinalEquations (as read by the implementation\'s EquationParser; rows in emission order, initial conditions, blanks '
    'removed) equal the displayed systems E_SIM / E_SIMEX1 / E_PC at the formatted texts; the pipeline model itself '
    '(coq/GenMain2 build) is tied by gen_main',
    'GenBook: opaque right-hand sides are read by bv_std (coq/GenBook/Text.v): tokenised as Main.qscan tokenises them, '
    'parsed as + - * / expressions, a name without "__" is the owning sector\'s variable, a number is its decimal value; '
    'the mapping from book symbols to framework variables (Y = GOOD__SUP_GOOD, T = GOV__T / TRE__T, YD = HH__AfterTax, '
    'C = HH__DEM_GOOD, H / V = HH__F, B = HH__DEM_DEP, money = HH__DEM_MON, r = DEP__r) is the one in the property statement',
]
ASSUMPTIONS = [
    'GenBook theorems: hypotheses ptext a = true on every parameter text (digits and dots, starting like a Python number: '
    'what \'%0.4f\' % x and repr(x) give for non-negative finite x in positional notation; evaluated on every generated '
    'vector); alpha1 etc. are the values of the EMITTED texts (D09); the country code is "C"; closed forms need '
    '1 - alpha1*(1-theta) <> 0 and, for PC, wealth <> 0',
]


def extra(ctx, out, quick_n=60, thorough_n=900):
    n = ctx.scale(quick_n, thorough_n)
    cases, metas = [], []
    dist = {'vectors': 0, 'cases': 0, 'kinds': {}, 'modes': {}, 'book_exo': 0, 'extra_decimal_params': 0, 'rows': 0,
            'max_rows': 0, 'errors': {}}
    distinct = set()
    for kind in ('SIM', 'SIMEX1', 'PC'):                    # the builders as shipped
        p = {'kind': kind}
        res = rows_of_model(build_untouched(kind))
        cases.append(emit_case(p, 'untouched', res))
        metas.append({'params': p, 'mode': 'untouched'})
    for i in range(n):
        kind = ctx.rng.choice(['SIM', 'SIMEX1', 'PC'])
        extra_dec = ctx.rng.random() < 0.15
        p = c09.gen_params(ctx.rng, kind, extra_decimals=extra_dec)
        dist['vectors'] += 1
        dist['kinds'][kind] = dist['kinds'].get(kind, 0) + 1
        dist['book_exo'] += bool(p.get('book_exo'))
        dist['extra_decimal_params'] += extra_dec
        for mode in (('run', 'shipped') if i % 3 == 0 else ('run',)):
            try:
                res = rows_of_model(impl_for(p, mode))
            except Exception as e:                          # noqa: the builder itself raised
                res = ('err', common.exc_class(e))
            cases.append(emit_case(p, mode, res))
            metas.append({'params': p, 'mode': mode})
            dist['modes'][mode] = dist['modes'].get(mode, 0) + 1
            if res[0] == 'err':
                dist['errors'][res[1]] = dist['errors'].get(res[1], 0) + 1
            else:
                nrows = len(res[1]) + len(res[2]) + len(res[3])
                dist['rows'] += nrows
                dist['max_rows'] = max(dist['max_rows'], nrows)
                distinct.add(json.dumps(res[1:], sort_keys=True))
    dist['cases'] = len(cases)
    bad, errs = common.run_bool_cases(FAMILY, REQUIRES, cases, tag='book' + ctx.pid, shard=12)
    out.corr_errors.extend(errs)
    for i in bad[:10]:
        out.disagreements.append({'book_model': metas[i], 'obligation': 'the builder\'s FinalEquations differ from the displayed '
                                  'system E_%s at the formatted parameter texts (or a text is not parameter-shaped)' %
                                  metas[i]['params']['kind'], 'coq': cases[i][:3000]})
    out.evaluations += len(cases)
    out.nontrivial += len(distinct)
    # minimum-count guard: an empty or almost empty stream must not pass for a tie
    n_eval__ = max([v for k, v in dist.items() if isinstance(v, int) and k in ('programs', 'pairs', 'cases', 'sets', 'joints', 'evaluated')] + [0])
    if n_eval__ < 5:
        out.corr_errors.append('gen_book: only %d cases were evaluated (distribution %r)' % (n_eval__, {k: v for k, v in dist.items() if isinstance(v, int)}))

    out.extra['book_model'] = dist
    out.trusted_base = list(out.trusted_base or []) + TRUSTED
    out.assumptions = list(out.assumptions or []) + ASSUMPTIONS
    if metas:
        out.samples.append({'book_model': metas[-1]})
    return out


def show_model(p, mode):
    """The displayed system for a parameter vector as printed by Coq (debugging aid)."""
    return common.coq_show(FAMILY, REQUIRES, 'show_sys (%s)' % coq_E(p, mode)[1])


def replay(obj):
    """`obj`: the loaded replay file or the inner {'kind': 'book_model', 'params': ..., 'mode': ...}.  No oracle of
    its own: the implementation's final system for that builder call is printed; the return value is always 0."""
    r = obj.get('replay', obj) or {}
    if r.get('kind') not in ('book_model', 'book') or 'params' not in r:
        return 0
    res = rows_of_model(impl_for(r['params'], r.get('mode', 'run')))
    if res[0] == 'err':
        print('implementation raises', res[1])
    else:
        for title, rows in zip(('endogenous', 'lagged', 'exogenous', 'initial conditions'), res[1:]):
            print('%s:' % title)
            for a, b in rows:
                print('   %s = %s' % (a, b[:150]))
    print('replay: property holds on this input (GenBook has no oracle of its own)')
    return 0
