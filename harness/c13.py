"""C13 — name substitution is hygienic and simultaneous.

Proof: coq/Lex/PropC13.v (token-level hygiene and simultaneity of the renaming, single = lookup with
one entry, names listed = NAME tokens in order, maximal munch for names, re-lexing of the untokenized
renamed stream for well-formed operator-safe token lists, value preservation over Base/Expr.v).
Model: coq/Lex/Lexer.v (one logical line of ASCII Python 3.12 as tokenize sees it), Untok.v
(compat-mode untokenize; list_tokens / replace_token / replace_token_from_lookup).
Correspondence: random expression strings (random ASTs printed with random spacing, every literal
form, names that are prefixes/suffixes of each other or look like number fragments) and a malformed
stream; compared EXACTLY: the (type, text) stream of tokenize.tokenize against `lex`, and the return
strings / exception classes of the three functions against the model.
Oracle (implementation only): (a) list_tokens == NAME tokens of tokenize, in order; (b) re-tokenizing
the output of replace_token_from_lookup / replace_token gives the original token sequence with exactly
the NAME tokens in the map's domain replaced, all at once (for operator-safe inputs and identifier
replacements); (c) for arithmetic expressions and a renaming that is injective on the expression's
names, eval(original, env) == eval(renamed, renamed env).
"""
import io
import json
import keyword
import re
import tokenize
from fractions import Fraction

import common
from common import coq_list

PID = 'C13'
FAMILY = 'Lex'
PROPFILE = 'PropC13.v'
LEVEL = 'proof'
REQUIRES = ['From Coq Require Import Ascii.', 'From SFC.Base Require Import Res.',
            'From SFC.Lex Require Import Lexer Untok CaseDefs.']
KINDS = {'NAME', 'NUMBER', 'STRING', 'OP', 'COMMENT', 'INDENT', 'DEDENT', 'NEWLINE', 'NL', 'ENDMARKER'}
LAYOUT = {'INDENT', 'DEDENT', 'NEWLINE', 'NL', 'ENDMARKER'}

# names that are prefixes/suffixes of each other, fragments of number literals, string prefixes, keywords
NAMES = ['x', 'y', 'xx', 'x1', 'x_1', 'm_x', 'x_', '_x', 'HH__F', 'HH__F_1', 'GOV__T', 'LAG_F', 'F', 'T',
         'e5', 'E5', 'e', 'E', 'x1f', 'j', 'J', '_000', '_', '_1', 'k', 't', 'a', 'b', 'c', 'ab', 'ba', 'abc',
         'foo', 'Foofoo', 'fool', 'o7', 'xff', 'b1', 'r', 'u', 'R', 'br', 'rb', 'B', 'ur', 'l', 'O',
         'if', 'else', 'or', 'and', 'in', 'is', 'not', 'for', 'lambda', 'None', 'abs', 'max', 'min', 'sqrt', 'exp']
NUMBERS = ['0', '1', '2', '10', '007', '00', '0_0', '1_000', '12_3', '1.', '1.5', '.5', '0.5', '1.e5', '1e5', '1E5',
           '1e+5', '1e-5', '1.5e-3', '1_0.0_1e1_0', '0x1f', '0XFF', '0x_1f', '0xdead_beef', '0o17', '0O7', '0o_1',
           '0b101', '0B1', '0b_1', '1j', '1J', '1.5j', '1e5j', '.5j', '0j', '00j', '09', '09.5', '0e0', '123456789012345678901234567890',
           '3.14159', '1e5_0', '0.', '000.5']
BAD_NUMBERS = ['1_', '1__2', '0x', '0x_', '0xg', '0o8', '0o', '0b2', '0b1_', '1e+', '1e-', '1_e5', '.5_', '0_', '00_',
               '0o78', '0b12', '1e5_', '1.5_', '0x1_', '0_x', '1e', '1e_5', '1._5', '1..2', '1.real', '1if', '1else', '0xfor',
               '1_x', '1jj', '1a', '012', '1x']
OPS = ['+', '-', '*', '/', '//', '%', '**', '@', '<<', '>>', '&', '|', '^', '~', '<', '>', '<=', '>=', '==', '!=', '<>',
       '=', '+=', '-=', '*=', '/=', '//=', '%=', '**=', '@=', '<<=', '>>=', '&=', '|=', '^=', '->', ':=', ':', ',', ';', '.',
       '...', '(', ')', '[', ']', '{', '}', '!', '$', '?', '`']
STRINGS = ["'a'", '"a"', "''", '""', "'a fool and his money'", '"x + y"', "'x'", "'it\\'s'", '"a\\"b"', "'\\\\'",
           "'''x'''", '"""x y"""', "''''''", "r'x'", "R\"x\"", "b'x'", "br'x'", "Rb'x'", "u'x'", "'#'", "'a' 'b'",
           "'''a'b'''", "'''a''b'''", "'\\''"]
BAD_STRINGS = ["'a", '"a', "'''a", "'''a''", "'a\\'", "'", '"', "''''", "r'a", "'''''''"]
SPACES = ['', '', '', ' ', ' ', '  ', '\t', ' \t ', '\x0c']
FUNCS = ['abs', 'max', 'min', 'sqrt', 'exp', 'foo', 'float', 'pow']


# ---------------------------------------------------------------- generation: expression ASTs
def gen_ast(rng, names, depth):
    r = rng.random()
    if depth <= 0 or r < 0.25:
        k = rng.random()
        if k < 0.6:
            return ('name', rng.choice(names))
        if k < 0.95:
            return ('num', rng.choice(NUMBERS))
        return ('str', rng.choice(STRINGS))
    if r < 0.55:
        op = rng.choice(['+', '-', '*', '/', '**', '+', '-', '*', '//', '%'])
        return ('bin', op, gen_ast(rng, names, depth - 1), gen_ast(rng, names, depth - 1))
    if r < 0.62:
        op = rng.choice(['<', '<=', '==', '!=', '>=', '>', 'and', 'or', 'in', 'is', 'if'])
        return ('bin', op, gen_ast(rng, names, depth - 1), gen_ast(rng, names, depth - 1))
    if r < 0.70:
        return ('un', rng.choice(['-', '+', 'not', '~']), gen_ast(rng, names, depth - 1))
    if r < 0.80:
        f = rng.choice(FUNCS + names[:2])
        return ('call', f, [gen_ast(rng, names, depth - 1) for _ in range(rng.choice([1, 1, 2, 3]))])
    if r < 0.86:
        return ('lag', rng.choice(names), rng.choice(['k-1', 'k - 1', 'k+1', 'k', 't-1', '0']))
    if r < 0.92:
        items = [gen_ast(rng, names, depth - 2) for _ in range(rng.choice([0, 1, 2, 3]))]
        return ('list', items, rng.choice([None, None, '20', '3']))
    if r < 0.96:
        return ('paren', gen_ast(rng, names, depth - 1))
    return ('attr', gen_ast(rng, names, 0), rng.choice(names))


def ast_tokens(a):
    k = a[0]
    if k in ('name', 'num', 'str'):
        return [a[1]]
    if k == 'bin':
        if a[1] == 'if':
            return ast_tokens(a[2]) + ['if'] + ast_tokens(a[3]) + ['else'] + ast_tokens(a[2])
        return ast_tokens(a[2]) + [a[1]] + ast_tokens(a[3])
    if k == 'un':
        return [a[1]] + ast_tokens(a[2])
    if k == 'call':
        out = [a[1], '(']
        for i, x in enumerate(a[2]):
            if i:
                out.append(',')
            out += ast_tokens(x)
        return out + [')']
    if k == 'lag':
        return [a[1], '('] + re.findall(r'\w+|\S', a[2]) + [')']
    if k == 'list':
        out = ['[']
        for i, x in enumerate(a[1]):
            if i:
                out.append(',')
            out += ast_tokens(x)
        out.append(']')
        if a[2]:
            out += ['*', a[2]]
        return out
    if k == 'paren':
        return ['('] + ast_tokens(a[1]) + [')']
    if k == 'attr':
        return ast_tokens(a[1]) + ['.'] + [a[2]]
    raise ValueError(k)


def wordy(ch):
    return ch.isalnum() or ch == '_' or ch == '.'


def spell(rng, toks, fuse=0.03):
    """Join token texts with random blanks; a separating blank is forced (almost always) where two
    alphanumeric ends meet."""
    out = []
    style = rng.choice(['none', 'single', 'random', 'random'])
    for i, t in enumerate(toks):
        if i:
            prev = toks[i - 1]
            sep = {'none': '', 'single': ' '}.get(style)
            if sep is None:
                sep = rng.choice(SPACES)
            if sep == '' and prev and t and wordy(prev[-1]) and wordy(t[0]) and rng.random() > fuse:
                sep = ' '
            if sep == '' and prev and t and prev[-1] in '\'"' and t[0] in '\'"':
                sep = ' '
            out.append(sep)
        out.append(t)
    return ''.join(out)


def gen_map(rng, present):
    """Random renaming: overlapping, chained, swapping, identity, absent names, odd replacement texts."""
    present = list(dict.fromkeys(present))
    m = {}
    pool = NAMES
    kind = rng.choice(['random', 'random', 'swap', 'chain', 'identity', 'absent', 'prefix', 'empty', 'odd'])
    if kind == 'swap' and len(present) >= 2:
        a, b = rng.sample(present, 2)
        m[a], m[b] = b, a
    elif kind == 'chain' and present:
        ch = rng.sample(present, min(len(present), rng.randint(1, 3)))
        ch.append(rng.choice(pool))
        for u, v in zip(ch, ch[1:]):
            m[u] = v
    elif kind == 'identity' and present:
        a = rng.choice(present)
        m[a] = a
    elif kind == 'absent':
        m[rng.choice(pool) + '_zz'] = rng.choice(pool)
    elif kind == 'prefix' and present:
        a = rng.choice(present)
        m[a] = a + rng.choice(['_1', 'x', '1', '__F'])
        if len(a) > 1:
            m[a[:-1]] = 'Q'
        m[a + 'x'] = 'W'
    elif kind == 'odd' and present:
        m[rng.choice(present)] = rng.choice(['(y+1)', '1.0', 'a b', '', 'x**2', 'HH__F', "'s'", '*'])
    if kind in ('random', 'swap', 'chain'):
        for _ in range(rng.randint(0, 3)):
            k = rng.choice(present) if present and rng.random() < 0.7 else rng.choice(pool)
            m[k] = rng.choice(present) if present and rng.random() < 0.4 else rng.choice(pool)
    return m


def gen_expr_case(rng):
    names = rng.sample(NAMES, rng.randint(1, 5))
    a = gen_ast(rng, names, rng.randint(0, 4))
    toks = ast_tokens(a)
    r = rng.random()
    if r < 0.25:
        toks = [rng.choice(names), rng.choice(['=', '=', '+=', ':='])] + toks
    if rng.random() < 0.06:
        toks = toks + ['#' + rng.choice([' note', 'x', ' x = y + 1', ''])]
    s = spell(rng, toks)
    if rng.random() < 0.05:
        s = rng.choice([' ', '  ', '\t', ' \x0c', '\x0c ']) + s
    if rng.random() < 0.1:
        s = s + rng.choice([' ', '  ', '\t'])
    return s, 'expr'


def gen_malformed_case(rng):
    r = rng.random()
    if r < 0.45:
        pool = (NAMES[:20] + NUMBERS[:25] + BAD_NUMBERS + OPS * 2 + STRINGS[:12] + BAD_STRINGS[:4] +
                ['(', '(', '[', '{', ')', ']', '}', '$', '?', '!', '`', '\\', '#c', '\x01', '\x7f', '* *', '. .', '.', '.'])
        toks = [rng.choice(pool) for _ in range(rng.randint(1, 7))]
        s = ''.join(t + rng.choice(['', '', ' ', ' ', '  ', '\t', '\x0c']) for t in toks)
        if rng.random() < 0.2:
            s = rng.choice([' ', '   ', '\t', '\x0c', ' \x0c', '\x0c ']) + s
        return s, 'malformed-tokens'
    if r < 0.8:
        alphabet = 'xe_j019.+-*/<>=!()[]{}\'"#\\ \t:,;@%&|^~$?`abfruXEJ07_'
        s = ''.join(rng.choice(alphabet) for _ in range(rng.randint(0, 9)))
        return s, 'malformed-chars'
    # number-shaped fuzz
    alphabet = '0123456789_.eExXoObBjJ+-aAfF'
    s = ''.join(rng.choice(alphabet) for _ in range(rng.randint(1, 7)))
    if rng.random() < 0.3:
        s = rng.choice(NAMES) + rng.choice(['', ' ', '+', '*']) + s
    return s, 'malformed-number'


# arithmetic expressions for the value oracle
def gen_arith(rng, names, depth):
    r = rng.random()
    if depth <= 0 or r < 0.3:
        if rng.random() < 0.65:
            return rng.choice(names)
        return rng.choice(['1', '2', '3', '10', '0', '7', '1_0', '0x1f', '0b11', '0o7', '12'])
    if r < 0.75:
        op = rng.choice(['+', '-', '*', '/', '+', '-', '*'])
        return '(%s%s%s%s%s)' % (gen_arith(rng, names, depth - 1), rng.choice(['', ' ']), op, rng.choice(['', ' ']),
                                 gen_arith(rng, names, depth - 1))
    if r < 0.82:
        return '(%s)**%s' % (gen_arith(rng, names, depth - 1), rng.choice(['2', '3', '0', '1']))
    if r < 0.88:
        return '-%s' % gen_arith(rng, names, depth - 1)
    if r < 0.93:
        return 'abs(%s)' % gen_arith(rng, names, depth - 1)
    f = rng.choice(['max', 'min'])
    return '%s(%s, %s)' % (f, gen_arith(rng, names, depth - 1), gen_arith(rng, names, depth - 1))


def gen_value_case(rng):
    vars_ = rng.sample([n for n in NAMES if not keyword.iskeyword(n) and n not in ('abs', 'max', 'min')], rng.randint(1, 5))
    s = gen_arith(rng, vars_, rng.randint(1, 4))
    present = [t for t in py_names(s)]
    distinct = list(dict.fromkeys(present))
    # an injective renaming of the names of the expression (function names included)
    targets = rng.sample([n for n in NAMES + ['HH__' + v for v in vars_] + ['q1', 'q2', 'q3', 'zeta', 'W_1']
                          if not keyword.iskeyword(n)], len(distinct))
    kind = rng.choice(['fresh', 'swap', 'rotate', 'partial'])
    m = {}
    if kind == 'fresh':
        m = dict(zip(distinct, targets))
        if len(set(m.values())) != len(m):
            m = {}
    elif kind == 'swap' and len(distinct) >= 2:
        a, b = rng.sample(distinct, 2)
        m = {a: b, b: a}
    elif kind == 'rotate' and len(distinct) >= 2:
        m = dict(zip(distinct, distinct[1:] + distinct[:1]))
    elif distinct:
        a = rng.choice(distinct)
        m = {a: a + '_renamed'}
    full = {n: m.get(n, n) for n in distinct}
    if len(set(full.values())) != len(full):     # would merge two names: outside the property's hypothesis
        m = {}
    use_float = rng.random() < 0.4
    env = {}
    for v in distinct:
        if v in ('abs', 'max', 'min'):
            continue
        if use_float:
            env[v] = rng.choice([0.0, 1.5, -2.25, 1e-3, 3.0, rng.uniform(-10, 10)])
        else:
            env[v] = [rng.randint(-6, 6), rng.randint(1, 7)]
    return {'s': s, 'm': m, 'env': env, 'float': use_float}


# ---------------------------------------------------------------- implementation drivers / references
def py_tokens(s):
    """Reference: Python's tokenize, (type name, text) after the ENCODING token; or the exception class."""
    try:
        out = [(tokenize.tok_name[t.type], t.string) for t in tokenize.tokenize(io.BytesIO(s.encode('utf-8')).readline)]
        return out[1:]
    except Exception as e:
        return common.exc_class(e)


def py_names(s):
    return [t for k, t in py_tokens(s) if k == 'NAME']


def call(f, *args):
    try:
        return ['ok', f(*args)]
    except Exception as e:
        return ['err', common.exc_class(e)]


def run_impl(c):
    from sfc_models import utils
    return {'names': call(utils.list_tokens, c['s']),
            'lookup': call(utils.replace_token_from_lookup, c['s'], dict(c['m'])),
            'single': call(utils.replace_token, c['s'], c['a'], c['b'])}


def is_ident(x):
    return isinstance(x, str) and re.match(r'^[A-Za-z_][A-Za-z_0-9]*$', x) is not None


def content(toks):
    return [(k, t) for k, t in toks if k not in LAYOUT]


def ops_safe_py(toks):
    """No operator token fuses with what follows it once the separating blanks are gone (decided with
    Python's own tokenizer on the concatenated texts: `*`,`*` -> `**`; `.`,`5` -> `.5`; `.`,`.`,`.` -> `...`)."""
    body = content(toks)
    for i, (k, t) in enumerate(body):
        if k != 'OP' or i + 1 >= len(body):
            continue
        grp = [body[i], body[i + 1]]
        if body[i + 1][0] == 'OP' and i + 2 < len(body):
            grp.append(body[i + 2])
        if grp[-1][0] == 'COMMENT':
            grp = grp[:-1]
        k_open = sum(1 for x in grp if x == ('OP', '(') or x == ('OP', '[') or x == ('OP', '{'))
        back = py_tokens(''.join(x[1] for x in grp) + ' ' + ')' * k_open)
        want = grp + [('OP', ')')] * k_open
        if isinstance(back, str) or content(back) != want:
            return False
    return True


def oracle(c, res):
    fails = []
    s, m = c['s'], c['m']

    def fail(key, what):
        fails.append({'key': key, 'what': what, 'replay': {'kind': 'rename', 'case': c}})
    ref = py_tokens(s)
    if isinstance(ref, str):
        return fails          # not tokenizable: outside the property's quantifier
    if any(k.startswith('FSTRING') for k, _ in ref):
        return fails
    # (a) names reported = NAME tokens in order
    want_names = [t for k, t in ref if k == 'NAME']
    if res['names'] != ['ok', want_names]:
        fail('list_tokens:names', 'list_tokens(%r) = %r, NAME tokens are %r' % (s, res['names'], want_names))
    # (b) hygiene and simultaneity, checked on the re-tokenized output
    safe = ops_safe_py(ref)
    for key, r, mm in (('replace_lookup', res['lookup'], m), ('replace_token', res['single'], {c['a']: c['b']})):
        if r[0] != 'ok':
            fail(key + ':raises', '%s raised %s on the tokenizable input %r' % (key, r[1], s))
            continue
        if not safe or not all(is_ident(v) for v in mm.values()):
            continue
        back = py_tokens(r[1])
        want = [(k, mm[t]) if (k == 'NAME' and t in mm) else (k, t) for k, t in content(ref)]
        if isinstance(back, str) or content(back) != want:
            fail(key + ':token-sequence',
                 '%s(%r, %r) = %r re-tokenizes to %r, expected %r' % (key, s, mm, r[1], back if isinstance(back, str) else content(back), want))
    return fails


def mk_env(c, rename):
    env = {'abs': abs, 'max': max, 'min': min}
    for v, x in c['env'].items():
        env[v] = float(x) if c['float'] else Fraction(x[0], x[1])
    if rename:
        # rho'(m x) = rho x for the names x of the expression; names that do not occur keep their binding
        # unless a renamed name takes it over
        m = c['m']
        present = set(py_names(c['s']))
        env2 = {k: v for k, v in env.items() if k not in present}
        for k in present:
            if k in env:
                env2[m.get(k, k)] = env[k]
        env = env2
    env['__builtins__'] = {}
    return env


def ev(text, env):
    try:
        v = eval(text, env)
        return ['ok', repr(v)]
    except ZeroDivisionError:
        return ['err', 'ZeroDiv']
    except Exception as e:
        return ['err', type(e).__name__]


def value_oracle(c):
    from sfc_models import utils
    fails = []
    base = ev(c['s'], mk_env(c, False))
    if base[0] == 'err' and base[1] != 'ZeroDiv':
        return fails, False
    for key, fn in (('replace_lookup', lambda: utils.replace_token_from_lookup(c['s'], dict(c['m']))),):
        r = call(fn)
        if r[0] != 'ok':
            fails.append({'key': key + ':raises', 'what': '%s raised %s on %r' % (key, r[1], c['s']),
                          'replay': {'kind': 'value', 'case': c}})
            continue
        got = ev(r[1], mk_env(c, True))
        if got != base:
            fails.append({'key': key + ':value',
                          'what': 'eval(%r) = %r but eval(%r) under the renamed environment = %r (map %r)' % (
                              c['s'], base, r[1], got, c['m']),
                          'replay': {'kind': 'value', 'case': c}})
    if len(c['m']) == 1:
        (a, b), = c['m'].items()
        r = call(utils.replace_token, c['s'], a, b)
        got = ev(r[1], mk_env(c, True)) if r[0] == 'ok' else r
        if got != base:
            fails.append({'key': 'replace_token:value', 'what': 'eval(%r) = %r, after replace_token(%r, %r): %r = %r' % (
                c['s'], base, a, b, r[1], got), 'replay': {'kind': 'value', 'case': c}})
    return fails, True


# ---------------------------------------------------------------- Coq emission
def cs(s):
    """Coq string literal, control characters spelled with their decimal code."""
    parts, run = [], []
    for ch in s:
        o = ord(ch)
        if o > 126 or o < 32:
            if run:
                parts.append('"' + ''.join(run).replace('"', '""') + '"')
                run = []
            parts.append('(String "%03d"%%char EmptyString)' % o)
        else:
            run.append(ch)
    if run or not parts:
        parts.append('"' + ''.join(run).replace('"', '""') + '"')
    if len(parts) == 1:
        return parts[0] + '%string' if parts[0].startswith('"') else parts[0]
    return '(' + ' ++ '.join(parts) + ')%string'


def cres(r, f):
    return '(Ok %s)' % f(r[1]) if r[0] == 'ok' else '(Err %s)' % r[1]


def emit(c, ref, res):
    if isinstance(ref, str):
        exp = '(Err %s)' % ref
    else:
        exp = '(Ok %s)' % coq_list(['(%s, %s)' % (k, cs(t)) for k, t in ref])
    m = coq_list(['(%s, %s)' % (cs(k), cs(v)) for k, v in c['m'].items()])
    wf = ''
    if not isinstance(ref, str):
        body = [t for t in content(ref) if t[0] != 'COMMENT']
        dd = any(a == ('OP', '.') and b[1].startswith('.') for a, b in zip(body, body[1:]))
        wf = ' && c13_wf %s %s %s' % (cs(c['s']), common.coq_bool(ops_safe_py(ref)), common.coq_bool(dd))
    return 'c13_lex %s %s && c13_fun %s %s %s %s %s %s %s%s' % (
        cs(c['s']), exp, cs(c['s']), m, cs(c['a']), cs(c['b']),
        cres(res['names'], lambda l: coq_list([cs(x) for x in l])), cres(res['lookup'], cs), cres(res['single'], cs), wf)


# ---------------------------------------------------------------- run
def has_fstring(s):
    """Python starts an f-string somewhere on the line (FSTRING_START is emitted even when the literal is
    unterminated and tokenize then raises)."""
    try:
        for t in tokenize.tokenize(io.BytesIO(s.encode('utf-8')).readline):
            if tokenize.tok_name[t.type].startswith('FSTRING'):
                return True
    except Exception:
        pass
    return False


def excluded(s, ref):
    """Inputs outside the model's stated boundary (never produced on purpose, filtered to be safe)."""
    if has_fstring(s):
        return True
    if not isinstance(ref, str) and any(k not in KINDS for k, _ in ref):
        return True
    if re.match(r'^[ \t\f]*#.*?coding[:=]', s):
        return True       # PEP 263 cookie
    return False


def run(ctx):
    out = common.Outcome()
    out.proof = common.proof_status(FAMILY, PROPFILE)
    rng = ctx.rng
    n_expr = ctx.scale(5000, 90000)
    n_mal = ctx.scale(3000, 50000)
    n_val = ctx.scale(2000, 30000)
    cases, metas, seen = [], [], set()
    stats = {'expr': 0, 'malformed-tokens': 0, 'malformed-chars': 0, 'malformed-number': 0, 'tokenizable': 0,
             'token_error': 0, 'map_hits_a_name': 0, 'swap_or_chain': 0, 'non_identifier_replacement': 0,
             'ops_unsafe': 0, 'indented': 0, 'with_string': 0, 'with_comment': 0, 'excluded_outside_model': 0,
             'value_cases': 0, 'value_cases_evaluated': 0}
    for i in range(n_expr + n_mal):
        s, kind = gen_expr_case(rng) if i < n_expr else gen_malformed_case(rng)
        ref = py_tokens(s)
        if excluded(s, ref):
            stats['excluded_outside_model'] += 1
            continue
        present = [t for k, t in ref if k == 'NAME'] if not isinstance(ref, str) else re.findall(r'[A-Za-z_]\w*', s)
        m = gen_map(rng, present)
        if present and rng.random() < 0.7:
            a = rng.choice(present)
        else:
            a = rng.choice(NAMES)
        b = rng.choice(NAMES + ['(y+1)', '']) if rng.random() < 0.9 else a
        c = {'s': s, 'm': m, 'a': a, 'b': b}
        res = run_impl(c)
        out.failures.extend(oracle(c, res))
        cases.append(emit(c, ref, res))
        metas.append(c)
        stats[kind] += 1
        if isinstance(ref, str):
            stats['token_error'] += 1
        else:
            stats['tokenizable'] += 1
            hit = any(k == 'NAME' and t in m for k, t in ref)
            stats['map_hits_a_name'] += 1 if hit else 0
            stats['swap_or_chain'] += 1 if any(v in m and v != k for k, v in m.items()) else 0
            stats['non_identifier_replacement'] += 1 if any(not is_ident(v) for v in m.values()) else 0
            stats['ops_unsafe'] += 0 if ops_safe_py(ref) else 1
            stats['indented'] += 1 if ref and ref[0][0] == 'INDENT' else 0
            stats['with_string'] += 1 if any(k == 'STRING' for k, _ in ref) else 0
            stats['with_comment'] += 1 if any(k == 'COMMENT' for k, _ in ref) else 0
            if hit and len(set(present)) >= 2:
                seen.add(json.dumps([s, sorted(m.items())]))
    for _ in range(n_val):
        c = gen_value_case(rng)
        stats['value_cases'] += 1
        fails, evaluated = value_oracle(c)
        out.failures.extend(fails)
        if evaluated:
            stats['value_cases_evaluated'] += 1
            if c['m']:
                seen.add(json.dumps(['v', c['s'], sorted(c['m'].items())]))
    import c13_callers
    cfails, cstats = c13_callers.run(rng, ctx.scale(600, 9000))
    out.failures.extend(cfails)
    stats['caller_cases'] = cstats
    bad, errs = common.run_bool_cases(FAMILY, REQUIRES, cases, tag=PID, shard=300)
    out.corr_errors = errs
    for i in bad[:20]:
        c = metas[i]
        out.disagreements.append({'input': c, 'impl_tokens': py_tokens(c['s']), 'impl': run_impl(c), 'case': cases[i][:900]})
    out.evaluations = len(cases) + stats['value_cases']
    out.nontrivial = len(seen)
    out.rule = ('expression strings from random ASTs (arithmetic, power, comparisons, keyword operators, calls, lag '
                'notation x(k-1), list literals, attribute access, assignments, trailing comments) printed with random '
                'blanks (none / single / random incl. tab and form feed, occasional leading blanks) over a pool of names that '
                'are prefixes/suffixes of each other, fragments of number literals (e5, x1f, j, _000), string prefixes and '
                'keywords, and every number/string literal form; a malformed stream (random token soup with unbalanced '
                'brackets, stray $ ? ! ` \\, bad number and string fragments, control characters; random characters; '
                'number-shaped fuzz); random lookups (random, swapping, chained, identity, absent, prefix-related keys, '
                'non-identifier replacement texts); compared exactly: tokenize (type, text) stream vs lex, list_tokens, '
                'replace_token_from_lookup, replace_token results or exception class vs the model; value oracle on '
                'arithmetic expressions with Fraction/float environments and injective renamings; non-trivial = '
                'tokenizable, at least two distinct names, the map renames at least one token (or a renamed value case); '
                'distinct by (text, map)')
    out.samples = [{'s': m_['s'], 'm': m_['m'], 'a': m_['a'], 'b': m_['b']} for m_ in metas[:3]] + \
                  [{'s': m_['s'], 'm': m_['m']} for m_ in metas[n_expr:n_expr + 2]]
    out.extra = {'input_distribution': stats,
                 'source_hashes': common.source_hashes(['sfc_models/utils.py'])}
    ax = {a for l in (out.proof.get('assumptions') or {}).values() if l for a in l}
    reals = sorted(a for a in ax if '.' in a and not a.startswith('PrimFloat'))
    prims = sorted(a for a in ax if a not in reals)
    out.trusted_base = ['Coq 8.16.1 kernel + vm_compute',
                        'hand-written model coq/Lex/Lexer.v, Untok.v (tied to tokenize/untokenize and utils.py by this correspondence on every run)',
                        "Python's parser is a function of the token sequence (parsing the renamed text gives the renamed AST): "
                        "trusted for C13_value, exercised by the value oracle with eval()",
                        'Coq standard-library axioms of the Reals (C13_value, C13_merge_refuted only): ' + (', '.join(reals) or 'none'),
                        'primitive float operations of the kernel (C13_value_float only): ' + (', '.join(prims) or 'none'),
                        'all lexer / untokenize / re-lexing theorems are closed under the global context']
    out.assumptions = ['inputs are one line of ASCII without NUL/CR/LF; f-strings and PEP 263 coding-cookie comment lines are outside the model',
                       'the lookup is a dict with str keys and str values',
                       'the re-lexing theorem needs ops_safe (no operator token that fuses with its successor: a* *b -> a **b) '
                       'and identifier-shaped replacement names; the oracle checks the token sequence only under the same condition']
    return out


def replay(path):
    common.use_impl()
    obj = json.load(open(path))
    r = obj.get('replay') or {}
    if r.get('kind') == 'rename':
        c = r['case']
        fails = oracle(c, run_impl(c))
    elif r.get('kind') == 'value':
        fails, _ = value_oracle(r['case'])
    elif r.get('kind') == 'caller':
        import c13_callers
        fails = c13_callers.replay_case(r['case'])
    else:
        print('replay names a proof/correspondence obligation, nothing to execute:', json.dumps(obj)[:500])
        return 1
    for f in fails:
        print('FAILS:', f['key'], f['what'][:400])
    print('replay: %s' % ('property violated' if fails else 'property holds on this input'))
    return common.replay_status(PID, fails)
