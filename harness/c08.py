"""C08 — results do not depend on the order in which sectors are declared.

Proof: coq/Gen/PropC08.v (soundness of check_equiv: accepted systems have the same solution
histories; accumulation-order lemma for all term sequences).
Validation on every run: every generated program is built in its base order and in K random
dependency-respecting permutations of the sector declarations within each country; the emitted
systems must be accepted pairwise by the kernel-evaluated check_equiv.
Oracle: both builds are solved by the implementation; same variables, same series (within solver
tolerance) or the same error class.
"""
import json
import math

import common
import gen_common as G
import gen_checks as GC
import gen_order
import gen_order2
import gen_plumb

PID = 'C08'
FAMILY = 'Gen'
PROPFILE = 'PropC08.v'
LEVEL = 'proof'


def compare_series(ts1, ts2, rel=5e-4):
    if set(ts1) != set(ts2):
        return 'variable sets differ: %r' % sorted(set(ts1) ^ set(ts2))[:5]
    for v in ts1:
        a, b = ts1[v], ts2[v]
        if len(a) != len(b):
            return 'length of %s differs' % v
        for k, (x, y) in enumerate(zip(a, b)):
            if not (math.isfinite(x) and math.isfinite(y)):
                if repr(x) != repr(y):
                    return '%s[%d]: %r vs %r' % (v, k, x, y)
                continue
            if abs(x - y) > rel * max(1.0, abs(x), abs(y)):
                return '%s[%d]: %r vs %r' % (v, k, x, y)
    return None


def oracle(prog, perm):
    ts1, e1, _ = GC.solve(prog)
    ts2, e2, _ = GC.solve(perm)
    if (ts1 is None) != (ts2 is None):
        if common.exc_class(e1 or e2) == 'ConvergenceError':
            return None      # iteration cap reached on one side only: solver's business (C11), not judged here
        return 'one order solves, the other raises %r' % (e1 or e2)
    if ts1 is None:
        if common.exc_class(e1) != common.exc_class(e2):
            return 'error classes differ: %r vs %r' % (e1, e2)
        return None
    return compare_series(ts1, ts2)


def run(ctx):
    proofs__ = common.proof_status_async([(FAMILY, PROPFILE)] + gen_order.PROOFS + gen_order2.PROOFS + gen_plumb.PROOFS_ORDER)      # re-checked in the background while the cases run
    out = common.Outcome()
    out.proof = proofs__.result()
    pg = G.ProgGen(ctx.rng, shuffle=False)
    n = ctx.scale(30, 300)
    K = ctx.scale(2, 3)
    cases, metas, seen = [], [], set()
    stats = {'shapes': {}, 'permutations': 0, 'identical_order': 0, 'solved_pairs': 0}
    for i in range(n):
        prog = pg.any()
        a0 = GC.analyse(prog)
        for j in range(K):
            perm = G.permute_declarations(ctx.rng, prog)
            if perm['steps'] == prog['steps']:
                stats['identical_order'] += 1
                continue
            try:
                a1 = GC.analyse(perm)
            except Exception as e:  # noqa
                out.failures.append({'key': 'order:permuted-build-fails', 'what': 'permuted declaration order fails to build: %r' % e,
                                     'replay': {'kind': 'pair', 'prog': G.strip_prog(prog), 'perm': G.strip_prog(perm)}})
                continue
            stats['permutations'] += 1
            stats['shapes'][prog['shape']] = stats['shapes'].get(prog['shape'], 0) + 1
            cases.append('equiv_case %s %s' % (G.coq_sys(a0['system']), G.coq_sys(a1['system'])))
            metas.append({'prog': G.strip_prog(prog), 'perm': G.strip_prog(perm)})
            seen.add(json.dumps([G.strip_prog(prog), G.strip_prog(perm)], sort_keys=True))
            if j == 0:
                why = oracle(prog, perm)
                stats['solved_pairs'] += 1
                if why:
                    out.failures.append({'key': 'order:series-differ', 'what': 'declaration order changes the result: ' + why,
                                         'replay': {'kind': 'pair', 'prog': G.strip_prog(prog), 'perm': G.strip_prog(perm)}})
    bad, errs = common.run_bool_cases(FAMILY, G.GEN_REQUIRES, cases, tag=PID, shard=5, jobs=14)
    out.corr_errors = errs
    for i in bad[:10]:
        out.disagreements.append({'pair': metas[i], 'obligation': 'check_equiv rejected the two emitted systems'})
        # failing-input search: solve exactly this pair on the implementation
        try:
            why = oracle(metas[i]['prog'], metas[i]['perm'])
        except Exception as e:  # noqa
            why = 'build/solve raises %r' % (e,)
        if why:
            out.failures.append({'key': 'order:series-differ', 'what': 'declaration order changes the result: ' + why,
                                 'replay': {'kind': 'pair', 'prog': metas[i]['prog'], 'perm': metas[i]['perm']}})
    out.evaluations = len(cases)
    out.nontrivial = len(seen)
    out.samples = [{'base_order': [s['id'] for s in metas[0]['prog']['steps'] if s['kind'] == 'sector'],
                    'permuted_order': [s['id'] for s in metas[0]['perm']['steps'] if s['kind'] == 'sector']}] if metas else []
    out.rule = ('shared program generator (all shapes, base declaration order) x K random dependency-respecting '
                'permutations of the sector declarations within each country (an object exists before it is passed to a '
                'constructor; countries, external sector and user operations stay in place); non-trivial = permutation '
                'differs from the base order; distinct by (program, permutation)')
    out.extra = {'input_distribution': stats, 'programs': n, 'source_hashes': common.source_hashes(
        ['sfc_models/models.py', 'sfc_models/sector.py', 'sfc_models/sector_definitions.py'])}
    out.trusted_base = ['Coq 8.16.1 kernel + vm_compute', 'axioms: Reals (sig_forall_dec, sig_not_dec), functional_extensionality_dep',
                        'harness: EquationParser + Python ast -> Coq sys', 'exogenous definitions compared as text']
    out.assumptions = ['topologies and permutations covered per generated pair; all valuations and periods by the soundness theorem']
    # program-level theorem for ALL programs of the single-currency pipeline model and ALL admissible permutations
    # (coq/GenOrder: Main_order_invariant under the decidable side condition order_ok): the permutations the harness
    # performs are checked to be admissible in the theorem's sense, order_ok is evaluated on both programs, and the
    # whole-program correspondence is run on the permuted program
    gen_order.extra(ctx, out, 14, 250)
    # the same for ALL programs of the multi-currency model and their admissible permutations (coq/GenOrder2:
    # Main2_order_invariant under order_ok2)
    gen_order2.extra(ctx, out, 16, 250)
    out.failures.extend(finding_probes())
    return out


def _probe_prog(order, extra):
    secs = {'HH': ('Household', {'alpha_income': 0.6, 'alpha_fin': 0.4}), 'GOV': ('ConsolidatedGovernment', {}),
            'TF': ('TaxFlow', {'taxrate': 0.2, 'taxes_paid_to': 'GOV'}), 'BUS': ('FixedMarginBusiness', {'profit_margin': 0.1}),
            'LAB': ('Market', {}), 'GOOD': ('Market', {})}
    secs.update(extra)
    steps = [{'kind': 'country', 'id': 'c1', 'code': 'CA', 'currency': None, 'region': False}]
    steps += [{'kind': 'sector', 'id': k, 'cls': secs[k][0], 'country': 'c1', 'code': k, 'kw': dict(secs[k][1])} for k in order]
    steps.append({'kind': 'op', 'op': 'SetExogenous', 'sector': 'GOV', 'name': 'DEM_GOOD', 'value': '[20.0]*40'})
    return {'maxtime': 5, 'steps': steps, 'shape': 'single'}


def finding_probes():
    """Two shapes the generator does not produce and on which coq/GenOrder's side condition order_ok is false
    (unique_ok / commute_ok); found while proving Main_order_invariant, recorded as D08b and D08c."""
    fails = []
    caps = {'CAP': ('Capitalists', {'alpha_income': 0.7, 'alpha_fin': 0.3}), 'CP2': ('Capitalists', {'alpha_income': 0.5, 'alpha_fin': 0.2})}
    tfs = {'TF2': ('TaxFlow', {'taxrate': 0.1, 'taxes_paid_to': 'GOV'})}
    for key, a, b, what in (
            ('order:two-dividend-receivers', _probe_prog(['GOV', 'HH', 'CAP', 'CP2', 'TF', 'BUS', 'LAB', 'GOOD'], caps),
             _probe_prog(['GOV', 'HH', 'CP2', 'CAP', 'TF', 'BUS', 'LAB', 'GOOD'], caps),
             'two Capitalists sectors in one country: the business pays the first sector in declaration order that owns DIV'),
            ('order:two-taxflows', _probe_prog(['GOV', 'HH', 'TF', 'TF2', 'BUS', 'LAB', 'GOOD'], tfs),
             _probe_prog(['GOV', 'HH', 'TF2', 'TF', 'BUS', 'LAB', 'GOOD'], tfs),
             'two TaxFlow sectors in one country: the payer\'s T is defined by the first processed, the recipient\'s T by the last')):
        try:
            why = oracle(a, b)
        except Exception as e:  # noqa
            why = 'build/solve raises %r' % (e,)
        if why:
            fails.append({'key': key, 'what': '%s: %s' % (what, why), 'replay': {'kind': 'pair', 'prog': a, 'perm': b}})
    return fails


def replay(path):
    obj = json.load(open(path))
    r = obj.get('replay') or {}
    if r.get('kind') == 'order':
        return gen_order.replay(obj)
    if r.get('kind') == 'order2':
        return gen_order2.replay(obj)
    if r.get('kind') != 'pair':
        print('replay names a proof/validation obligation, nothing to execute:', json.dumps(obj)[:600])
        return 1
    try:
        why = oracle(r['prog'], r['perm'])
    except Exception as e:  # noqa
        why = 'build fails: %r' % e
    print('replay: %s' % (('property violated: ' + why) if why else 'property holds on this input'))
    return 1 if why else 0
