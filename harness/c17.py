"""C17 — results depend only on the model, not on process history or diagnostics.

Proof: coq/Hist/PropC17.v (over ALL histories of ParseString / SolveEquation / TraceStep / MaxTime
operations on a solver object: re-parse reports exactly the new block's variables, re-solve gives the
same series, the last ParseString+SolveEquation depends on the block and horizon override only,
TraceStep is never read; the object counter does not reach final names; refutation for the code
before fix D17).
Correspondence: random interleavings of those operations on 1-3 EquationSolver objects in one
interpreter; after every operation the outcome class and the whole TimeSeries holder (names and
values, bit for bit) are compared with the model, whose `parse`/`core` are instantiated by what a
FRESH interpreter computes for each (block, horizon override).
Oracle (implementation only): scenarios executed in ONE fresh interpreter interleave building and
solving 1-4 models (gl_book SIM / SIMEX1 / PC, custom SIM-like economies) and raw solvers, with
in-memory logs registered or not, tracing on or off, burnt object IDs, repeated solves and re-parsing
with another block; every series (and every model's final equation text) must be identical to that
of the same object built and solved alone in a fresh interpreter.
"""
import json
import os
from concurrent.futures import ThreadPoolExecutor

import common
from common import coq_string, coq_list, coq_float, coq_nat, coq_option

PID = 'C17'
FAMILY = 'Hist'
PROPFILE = 'PropC17.v'
LEVEL = 'proof'
REQUIRES = ['From SFC.Base Require Import Res.', 'From SFC.Hist Require Import Reuse CaseDefs.']

# development switch: compare with the model of the code BEFORE fix D17 (to validate step_orig on a pre-fix tree)
CASEFN = 'c17_case_orig' if os.environ.get('VERIF_ORIG_MODEL') else 'c17_case'

# block id 0 is reserved for "never parsed"
BLOCKS = [
    None,
    'x = y + 1\ny = 2\nMaxTime = 2',
    'a = 3',
    'x = 0.5*LAG_x + 1\nLAG_x = x(k-1)\nMaxTime = 4',
    'Y = C + G\nC = 0.6*YD + 0.4*LAG_H\nYD = Y - T\nT = 0.2*Y\nH = LAG_H + YD - C\nLAG_H = H(k-1)\nexogenous\n'
    'G = [0.] + [20.]*10\nMaxTime = 5',
    'z = LAG_z*0.9 + w\nw = 1.5\nLAG_z = z(k-1)\nz(0) = 4.0\nMaxTime = 3',
    'x = t*2\nexogenous\nt = [1., 2., 3., 4., 5., 6., 7.]\nMaxTime = 3',
    'v = k + 1\nMaxTime=2',
    'y = x*2\nx = 5\nq = LAG_q + y\nLAG_q = q(k-1)\nMaxTime = 3',
    'x = 1\nx(0) = foo',
    'yield = 3',
    'x = 2*x + 1\nMaxTime = 2',
    'x = 1/LAG_x\nLAG_x = x(k-1)\nMaxTime = 2',
    'x = sqrt(LAG_x + 2)\nLAG_x = x(k-1)\nx(0)=1\nMaxTime=3',
    'x = 1\nx = 2\nMaxTime=1',
    'x = y\ny = x',
    'a = LAG_a + x\nLAG_a = a(k-1)\nx = 0.25\nMaxTime = 2',
]
GOOD_BLOCKS = [1, 2, 3, 4, 5, 6, 7, 8, 13, 16]
OVERRIDES = [None, None, None, 2, 5, 8]
MODEL_KINDS = ['SIM', 'SIMEX1', 'PC', 'custom']

# ---------------------------------------------------------------- code run in fresh interpreters
_PRELUDE = r'''
import json, sys, warnings
warnings.simplefilter('ignore')
from sfc_models.equation_solver import EquationSolver
from sfc_models.utils import Logger
def hx(v):
    try:
        return float(v).hex()
    except Exception:
        return 'nonfloat:' + repr(v)
def ser(ts):
    return [[k, [hx(x) for x in v]] for k, v in ts.items()]
def cls(e):
    n = type(e).__name__
    return {'NoEquilibriumError': 'NoEquilibrium', 'ZeroDivisionError': 'ZeroDiv',
            'NotImplementedError': 'NotImplemented', 'Warning': 'Warning_'}.get(n, n)
def build_model(kind, params):
    from sfc_models.models import Model, Country
    if kind in ('SIM', 'SIMEX1'):
        import sfc_models.gl_book.chapter3 as ch
        mod = getattr(ch, kind)(params.get('code', 'C1')).build_model()
    elif kind == 'PC':
        import sfc_models.gl_book.chapter4 as ch
        mod = ch.PC(params.get('code', 'C1')).build_model()
    else:
        from sfc_models.sector_definitions import ConsolidatedGovernment, Household, FixedMarginBusiness, TaxFlow
        from sfc_models.sector import Market
        mod = Model()
        c = Country(mod, params.get('code', 'CA'), 'Country')
        gov = ConsolidatedGovernment(c, 'GOV', 'Government')
        Household(c, 'HH', 'Household', alpha_income=params['ai'], alpha_fin=params['af'])
        FixedMarginBusiness(c, 'BUS', 'Business Sector')
        TaxFlow(c, 'TF', 'TaxFlow', taxrate=params['tax'])
        Market(c, 'LAB', 'Labour market')
        Market(c, 'GOOD', 'Goods market')
        gov.SetExogenous('DEM_GOOD', '[%r,] * 105' % (params['G'],))
    mod.MaxTime = params.get('maxtime', 4)
    return mod
'''

FRESH_SOLVER = _PRELUDE + r'''
req = json.load(sys.stdin)
out = {}
s0 = EquationSolver()
if req['block'] is not None:
    try:
        s0.ParseString(req['block'])
        p = s0.Parser
        out['parse'] = {'endo': [x[0] for x in p.Endogenous], 'lagged': [x[0] for x in p.Lagged],
                        'exo': [x[0] for x in p.Exogenous], 'deco': [x[0] for x in p.Decoration], 'maxtime': p.MaxTime}
    except Exception as e:
        out['parse'] = {'err': cls(e)}
else:
    out['parse'] = {'endo': [], 'lagged': [], 'exo': [], 'deco': [], 'maxtime': 0}
if 'err' not in out['parse']:
    s = EquationSolver()
    s.MaxTime = req['maxtime']
    if req['block'] is not None:
        s.ParseString(req['block'])
    err = None
    try:
        s.SolveEquation()
    except Exception as e:
        err = cls(e)
    out['core'] = {'err': err, 'series': ser(s.TimeSeries), 'init_failed': err is not None and len(s.TimeSeries) == 0}
print(json.dumps(out))
'''

FRESH_MODEL = _PRELUDE + r'''
req = json.load(sys.stdin)
mod = build_model(req['kind'], req['params'])
err = None
try:
    mod.main()
except Exception as e:
    err = cls(e)
print(json.dumps({'err': err, 'series': ser(mod.EquationSolver.TimeSeries), 'eqs': mod.FinalEquations}))
'''

SCENARIO = _PRELUDE + r'''
from sfc_models.models import EconomicObject
class Sink(object):
    def __init__(self):
        self.n = 0
    def write(self, t):
        self.n += len(t)
    def close(self):
        pass
req = json.load(sys.stdin)
objs = {}
out = []
for i, a in enumerate(req['actions']):
    op = a[0]
    rec = None
    was_logging = len(Logger.log_file_handles) > 0
    try:
        if op == 'log_on':
            for name in ('log', 'step', 'timeseries', 'eqn', 'steadystate_0'):
                if name not in Logger.log_file_handles:
                    Logger.register_log(Sink(), log=name)
        elif op == 'log_off':
            Logger.cleanup()
        elif op == 'burn_ids':
            for _ in range(a[1]):
                EconomicObject()
        elif op == 'new_solver':
            objs[a[1]] = EquationSolver()
        elif op == 'maxtime':
            objs[a[1]].MaxTime = a[2]
        elif op == 'trace':
            objs[a[1]].TraceStep = a[2]
        elif op == 'parse':
            objs[a[1]].ParseString(a[2])
        elif op == 'solve':
            err = None
            try:
                objs[a[1]].SolveEquation()
            except Exception as e:
                err = cls(e)
            rec = {'i': i, 'obj': a[1], 'err': err, 'series': ser(objs[a[1]].TimeSeries)}
        elif op == 'new_model':
            objs[a[1]] = build_model(a[2], a[3])
        elif op == 'model_trace':
            objs[a[1]].EquationSolver.TraceStep = a[2]
        elif op == 'main':
            err = None
            try:
                objs[a[1]].main()
            except Exception as e:
                err = cls(e)
            rec = {'i': i, 'obj': a[1], 'err': err, 'series': ser(objs[a[1]].EquationSolver.TimeSeries),
                   'eqs': objs[a[1]].FinalEquations}
        elif op == 'model_resolve':
            err = None
            try:
                objs[a[1]].EquationSolver.SolveEquation()
            except Exception as e:
                err = cls(e)
            rec = {'i': i, 'obj': a[1], 'err': err, 'series': ser(objs[a[1]].EquationSolver.TimeSeries),
                   'eqs': objs[a[1]].FinalEquations}
    except Exception as e:
        rec = {'i': i, 'obj': a[1] if len(a) > 1 else None, 'op_err': cls(e)}
    if rec is not None:
        rec['logging'] = was_logging
        out.append(rec)
Logger.cleanup()
print(json.dumps(out))
'''

_fresh_cache = {}


def fresh_solver(block_id, maxtime):
    key = ('s', block_id, maxtime)
    if key not in _fresh_cache:
        _fresh_cache[key] = common.run_impl_script(FRESH_SOLVER, {'block': BLOCKS[block_id], 'maxtime': maxtime})
    return _fresh_cache[key]


def fresh_model(kind, params):
    key = ('m', kind, json.dumps(params, sort_keys=True))
    if key not in _fresh_cache:
        _fresh_cache[key] = common.run_impl_script(FRESH_MODEL, {'kind': kind, 'params': params})
    return _fresh_cache[key]


def prefetch(keys):
    todo = [k for k in set(keys) if k not in _fresh_cache]

    def one(k):
        if k[0] == 's':
            fresh_solver(k[1], k[2])
        else:
            fresh_model(k[1], json.loads(k[2]))
    with ThreadPoolExecutor(max_workers=12) as ex:
        list(ex.map(one, todo))


# ---------------------------------------------------------------- correspondence: solver histories
def gen_history(rng):
    """Interleaved operations on 1-3 solver objects: list of [obj, op...]."""
    nobj = rng.choice([1, 1, 2, 3])
    ops = []
    for _ in range(rng.randint(3, 14)):
        o = rng.randrange(nobj)
        r = rng.random()
        if r < 0.35:
            b = rng.choice(GOOD_BLOCKS) if rng.random() < 0.8 else rng.randrange(1, len(BLOCKS))
            ops.append([o, 'parse', b])
        elif r < 0.72:
            ops.append([o, 'solve'])
        elif r < 0.86:
            ops.append([o, 'trace', rng.choice([None, 1, 2, 3, 7])])
        else:
            ops.append([o, 'maxtime', rng.choice(OVERRIDES)])
    if not any(x[1] == 'solve' for x in ops):
        ops.append([0, 'solve'])
    return {'nobj': nobj, 'ops': ops}


def needed_keys(h):
    """(block, effective override) combinations the model will ask `core` for."""
    cur = {o: (0, None) for o in range(h['nobj'])}      # (block id, override in force at parse time)
    mt = {o: None for o in range(h['nobj'])}
    keys = [('s', 0, None)]
    for op in h['ops']:
        o = op[0]
        if op[1] == 'maxtime':
            mt[o] = op[2]
        elif op[1] == 'parse':
            keys.append(('s', op[2], None))
            keys.append(('s', op[2], mt[o]))
    return keys


def _series_hex(ts):
    out = []
    for k, v in ts.items():
        out.append([k, [float(x).hex() for x in v]])
    return out


def run_history_impl(h):
    """Run the interleaving in THIS interpreter (which has already run many other solvers)."""
    from sfc_models.equation_solver import EquationSolver
    objs = [EquationSolver() for _ in range(h['nobj'])]
    obs = []
    for op in h['ops']:
        s = objs[op[0]]
        res = 'ok'
        try:
            if op[1] == 'parse':
                s.ParseString(BLOCKS[op[2]])
            elif op[1] == 'solve':
                s.SolveEquation()
            elif op[1] == 'trace':
                s.TraceStep = op[2]
            elif op[1] == 'maxtime':
                s.MaxTime = op[2]
        except Exception as e:  # noqa
            res = common.exc_class(e)
        try:
            ser = _series_hex(s.TimeSeries)
        except Exception:  # noqa  (non-numeric cell)
            ser = None
        obs.append([res, ser])
    return obs


ERRS = {'LogicError', 'KeyError', 'ValueError', 'ConvergenceError', 'NoEquilibrium', 'NameError', 'ZeroDiv',
        'TokenError', 'NotImplemented', 'TypeError', 'SyntaxError', 'IndexError', 'Warning_', 'OverflowError',
        'OtherError'}


def en(n):
    return n if n in ERRS else 'OtherError'


def fser(pairs):
    return coq_list(['(%s, %s)' % (coq_string(k), coq_list([coq_float(float.fromhex(x)) for x in v])) for k, v in pairs])


def sl(xs):
    return coq_list([coq_string(x) for x in xs])


def emit_history(h, obs):
    """One Coq case per solver object (objects share nothing in the model)."""
    cases = []
    for o in range(h['nobj']):
        ops, exp = [], []
        blocks, combos = set(), {(0, 0): None}         # (block, effective horizon) -> override that yields it
        mt = None
        for op, ob in zip(h['ops'], obs):
            if op[0] != o:
                continue
            if op[1] == 'parse':
                ops.append('ParseString %s' % coq_nat(op[2]))
                blocks.add(op[2])
                pr = fresh_solver(op[2], None)['parse']
                if 'err' not in pr:
                    combos.setdefault((op[2], mt if mt is not None else pr['maxtime']), mt)
            elif op[1] == 'solve':
                ops.append('SolveEquation')
            elif op[1] == 'trace':
                ops.append('SetTrace %s' % coq_option(None if op[2] is None else coq_nat(op[2])))
            else:
                ops.append('SetMaxTime %s' % coq_option(None if op[2] is None else coq_nat(op[2])))
                mt = op[2]
            res = 'Ok tt' if ob[0] == 'ok' else 'Err %s' % en(ob[0])
            exp.append('(%s, %s)' % (res, coq_option(None if ob[1] is None else fser(ob[1]))))
        if not ops:
            continue
        pt = []
        for b in sorted(blocks):
            pr = fresh_solver(b, None)['parse']
            if 'err' in pr:
                pt.append('(%s, Err %s)' % (coq_nat(b), en(pr['err'])))
            else:
                pt.append('(%s, Ok (mkInfo %s %s %s %s %s %s))' % (coq_nat(b), sl(pr['endo']), sl(pr['lagged']), sl(pr['exo']),
                                                                     sl(pr['deco']), coq_nat(pr['maxtime']), coq_nat(b)))
        ct = []
        for (b, m), override in sorted(combos.items(), key=lambda kv: kv[0]):
            c = fresh_solver(b, override)['core']
            if c['init_failed']:
                cr = 'InitFailed %s' % en(c['err'])
            else:
                cr = 'Ran %s %s' % (fser(c['series']), coq_option(None if c['err'] is None else en(c['err'])))
            ct.append('(%s, %s, %s)' % (coq_nat(b), coq_nat(m), cr))
        cases.append(CASEFN + ' %s %s %s %s' % (coq_list(pt), coq_list(ct), coq_list(ops), coq_list(exp)))
    return cases


# ---------------------------------------------------------------- oracle: scenarios in one fresh interpreter
def gen_params(rng):
    return {'ai': rng.choice([0.6, 0.7, 0.55]), 'af': rng.choice([0.4, 0.3, 0.2]), 'tax': rng.choice([0.2, 0.25, 0.1]),
            'G': rng.choice([20.0, 35.5, 5.0]), 'code': rng.choice(['CA', 'US', 'XX']), 'maxtime': rng.choice([3, 4, 6])}


def gen_scenario(rng):
    actions = []
    n_models = rng.choice([0, 1, 1, 2, 3, 4])
    n_solvers = rng.choice([0, 1, 1, 2, 3])
    if n_models + n_solvers == 0:
        n_solvers = 1
    pending = []
    for i in range(n_models):
        kind = rng.choice(MODEL_KINDS)
        params = gen_params(rng) if kind == 'custom' else {'code': rng.choice(['C1', 'GL']), 'maxtime': rng.choice([3, 5])}
        steps = [['new_model', 'm%d' % i, kind, params]]
        if rng.random() < 0.35:
            steps.append(['model_trace', 'm%d' % i, rng.choice([1, 2])])
        steps.append(['main', 'm%d' % i])
        if rng.random() < 0.5:
            steps.append(['model_resolve', 'm%d' % i])
        pending.append(steps)
    for i in range(n_solvers):
        sid = 's%d' % i
        steps = [['new_solver', sid]]
        for _ in range(rng.randint(1, 4)):
            if rng.random() < 0.3:
                steps.append(['maxtime', sid, rng.choice(OVERRIDES)])
            if rng.random() < 0.3:
                steps.append(['trace', sid, rng.choice([None, 1, 2])])
            steps.append(['parse', sid, rng.choice(GOOD_BLOCKS)])
            steps.append(['solve', sid])
            if rng.random() < 0.4:
                steps.append(['solve', sid])
        pending.append(steps)
    # interleave, keeping each object's own order
    while pending:
        r = rng.random()
        if r < 0.12:
            actions.append(['log_on'])
        elif r < 0.18:
            actions.append(['log_off'])
        elif r < 0.24:
            actions.append(['burn_ids', rng.choice([1, 7, 100])])
        j = rng.randrange(len(pending))
        actions.append(pending[j].pop(0))
        if not pending[j]:
            pending.pop(j)
    # blocks are referred to by id in the scenario; the script needs the text
    return {'actions': actions}


def scenario_refs(sc):
    """Per recorded solve: which fresh reference it must equal, and how to classify a difference."""
    refs = {}
    state = {}
    keys = []
    for i, a in enumerate(sc['actions']):
        op = a[0]
        if op == 'new_solver':
            state[a[1]] = {'block': 0, 'mt': None, 'eff': None, 'trace': None, 'solved_since_parse': 0, 'parses': 0}
        elif op == 'maxtime':
            state[a[1]]['mt'] = a[2]
        elif op == 'trace':
            state[a[1]]['trace'] = a[2]
        elif op == 'parse':
            st = state[a[1]]
            st['block'], st['eff'] = a[2], st['mt']
            st['solved_since_parse'] = 0
            st['parses'] += 1
        elif op == 'solve':
            st = state[a[1]]
            key = ('s', st['block'], st['eff'])
            keys.append(key)
            refs[i] = {'key': key, 'resolve': st['solved_since_parse'] > 0, 'reparse': st['parses'] > 1,
                       'trace': st['trace'] is not None, 'first_action': i == min(refs) if refs else True}
            st['solved_since_parse'] += 1
        elif op == 'new_model':
            state[a[1]] = {'kind': a[2], 'params': a[3], 'trace': False}
        elif op == 'model_trace':
            state[a[1]]['trace'] = True
        elif op in ('main', 'model_resolve'):
            st = state[a[1]]
            key = ('m', st['kind'], json.dumps(st['params'], sort_keys=True))
            keys.append(key)
            refs[i] = {'key': key, 'resolve': op == 'model_resolve', 'reparse': False, 'trace': st['trace']}
    return refs, keys


def script_actions(sc):
    """Replace block ids by text for the scenario script."""
    out = []
    for a in sc['actions']:
        if a[0] == 'parse':
            out.append(['parse', a[1], BLOCKS[a[2]]])
        else:
            out.append(a)
    return out


def judge_scenario(sc, recs):
    fails = []
    refs, _ = scenario_refs(sc)
    rep = {'kind': 'scenario', 'scenario': sc}
    for rec in recs:
        i = rec['i']
        if 'op_err' in rec:
            if sc['actions'][i][0] == 'parse':
                continue        # a block that does not parse: nothing is reported
            fails.append({'key': 'history:series-differ', 'replay': rep,
                          'what': 'action %r raised %s inside an interleaving' % (sc['actions'][i], rec['op_err'])})
            continue
        ref = refs.get(i)
        if ref is None:
            continue
        if ref['key'][0] == 's':
            fr = fresh_solver(ref['key'][1], ref['key'][2])
            exp_err, exp_series = fr['core']['err'], fr['core']['series']
            if fr['core']['init_failed']:
                # nothing is reported by a solve that fails before the holder is replaced
                if rec['err'] != exp_err:
                    fails.append({'key': 'history:series-differ', 'replay': rep,
                                  'what': 'solve %d raised %r, alone in a fresh interpreter %r' % (i, rec['err'], exp_err)})
                continue
            exp_eqs = None
        else:
            fr = fresh_model(ref['key'][1], json.loads(ref['key'][2]))
            exp_err, exp_series, exp_eqs = fr['err'], fr['series'], fr['eqs']
        got = dict((k, v) for k, v in rec['series'])
        exp = dict((k, v) for k, v in exp_series)
        same = (rec['err'] == exp_err and got == exp and (exp_eqs is None or rec.get('eqs') == exp_eqs))
        if same:
            continue
        if sorted(got) != sorted(exp) and ref['reparse']:
            key = 'reuse:stale-variables'
        elif ref['resolve']:
            key = 'resolve:series-differ'
        elif ref['trace']:
            key = 'trace:series-differ'
        elif rec.get('logging'):
            key = 'logging:series-differ'
        else:
            key = 'history:series-differ'
        extra = sorted(set(got) - set(exp))
        missing = sorted(set(exp) - set(got))
        diffv = sorted(k for k in got if k in exp and got[k] != exp[k])
        fails.append({'key': key, 'replay': rep,
                      'what': 'action %d %r: outcome %r vs %r alone in a fresh interpreter; names only here %s, only alone %s, '
                              'series with different values %s%s' % (i, sc['actions'][i], rec['err'], exp_err, extra[:6],
                                                                     missing[:6], diffv[:6],
                                                                     '; final equations differ' if exp_eqs is not None and
                                                                     rec.get('eqs') != exp_eqs else '')})
    return fails


def run_scenario(sc):
    return common.run_impl_script(SCENARIO, {'actions': script_actions(sc)})


FIXED_SCENARIOS = [
    # D17 witness of DESIGN.md section 7
    {'actions': [['new_solver', 's0'], ['parse', 's0', 1], ['solve', 's0'], ['parse', 's0', 2], ['solve', 's0']]},
    {'actions': [['burn_ids', 100], ['log_on'], ['new_model', 'm0', 'SIM', {'code': 'C1', 'maxtime': 5}],
                 ['model_trace', 'm0', 2], ['main', 'm0'], ['model_resolve', 'm0'],
                 ['new_model', 'm1', 'SIM', {'code': 'C1', 'maxtime': 5}], ['main', 'm1']]},
]
FIXED_HISTORIES = [
    {'nobj': 1, 'ops': [[0, 'parse', 1], [0, 'solve'], [0, 'parse', 2], [0, 'solve']]},
    {'nobj': 1, 'ops': [[0, 'solve'], [0, 'solve'], [0, 'parse', 3], [0, 'solve'], [0, 'solve']]},
    {'nobj': 2, 'ops': [[0, 'maxtime', 8], [0, 'parse', 6], [1, 'parse', 6], [0, 'solve'], [1, 'solve'], [0, 'maxtime', None],
                        [0, 'parse', 6], [0, 'solve']]},
]


def corpus_items():
    import glob
    import os
    out = []
    for p in sorted(glob.glob(os.path.join(common.VERIF, 'corpus', PID, '*.json'))):
        out.append(json.load(open(p))['replay'])
    return out


def history_oracle(h, obs):
    """Implementation-only reading of a correspondence history: every solve that follows a successful
    parse must report exactly what a fresh solver reports for that block and horizon override."""
    fails = []
    st = {o: {'block': 0, 'mt': None, 'eff': None, 'solves': 0, 'parses': 0, 'trace': None} for o in range(h['nobj'])}
    for op, ob in zip(h['ops'], obs):
        s = st[op[0]]
        if op[1] == 'maxtime':
            s['mt'] = op[2]
        elif op[1] == 'trace':
            s['trace'] = op[2]
        elif op[1] == 'parse':
            if ob[0] == 'ok':
                s['block'], s['eff'], s['solves'] = op[2], s['mt'], 0
                s['parses'] += 1
        elif op[1] == 'solve':
            fr = fresh_solver(s['block'], s['eff'])
            c = fr['core']
            exp_res = 'ok' if c['err'] is None else c['err']
            got_res = ob[0] if ob[0] == 'ok' else ob[0]
            ok = True
            if c['init_failed']:
                ok = (en(got_res) == en(exp_res))
            else:
                ok = (en(got_res) == en(exp_res)) and ob[1] is not None and dict((k, v) for k, v in ob[1]) == dict(
                    (k, v) for k, v in c['series'])
            if not ok:
                got_names = sorted(k for k, _ in (ob[1] or []))
                exp_names = sorted(k for k, _ in c['series'])
                if got_names != exp_names and s['parses'] > 1:
                    key = 'reuse:stale-variables'
                elif s['solves'] > 0:
                    key = 'resolve:series-differ'
                elif s['trace'] is not None:
                    key = 'trace:series-differ'
                else:
                    key = 'history:series-differ'
                fails.append({'key': key, 'replay': {'kind': 'history', 'history': h},
                              'what': 'solver %d solving block %r (override %r) reports %s / %s; a fresh solver reports %s / %s' % (
                                  op[0], BLOCKS[s['block']], s['eff'], got_res, got_names, exp_res, exp_names)})
                break
            s['solves'] += 1
    return fails


def interleaved_oracle(rng, n):
    """Implementation only: a model whose construction is interleaved with the construction (and
    solving) of other models in the same process must emit the same equations and the same series
    as the same model built alone."""
    import random
    import gen_common as G
    fails, count = [], 0
    for _ in range(n):
        seed = rng.randrange(10 ** 9)
        pa = G.ProgGen(random.Random(seed), shuffle=False).any()
        pb = G.ProgGen(random.Random(seed + 1), shuffle=False).single()
        cut = rng.randrange(1, max(2, len([st for st in pa['steps'] if st['kind'] != 'op'])))

        def other(i, cut=cut, pb=pb):
            if i == cut:
                mb, _ = G.build(pb, fixed_ids=False)
                try:
                    mb.main()
                except Exception:  # noqa
                    pass
        try:
            ma, _ = G.build(pa, after_step=other)
            ta = G.generate_equations(ma)
            mref, _ = G.build(pa, fixed_ids=False)
            tref = G.generate_equations(mref)
        except Exception as e:  # noqa
            fails.append({'key': 'history:interleaved-construction', 'what': 'interleaved construction fails: %r' % (e,),
                          'replay': {'kind': 'interleaved', 'a': G.strip_prog(pa), 'b': G.strip_prog(pb), 'cut': cut}})
            continue
        count += 1
        if ta != tref:
            la, lr = ta.split('\n'), tref.split('\n')
            diff = [(x.strip()[:90], y.strip()[:90]) for x, y in zip(la, lr) if x != y][:2]
            fails.append({'key': 'history:interleaved-construction',
                          'what': 'a model built while another model is created mid-way emits different equations than built alone: %r' % (diff,),
                          'replay': {'kind': 'interleaved', 'a': G.strip_prog(pa), 'b': G.strip_prog(pb), 'cut': cut}})
    return fails, count


def reparse_noreduce_check(ia, ib, T):
    """Second sentence of C17 for a solver built with run_equation_reduction=False (the histories of the model use
    the default): solve block a, re-parse with block b, solve; variables, series and table must be those of a
    fresh solver given block b.  Implementation only."""
    from sfc_models.equation_solver import EquationSolver

    def run(s):
        try:
            s.SolveEquation()
            err = None
        except Exception as e:  # noqa
            err = common.exc_class(e)
        try:
            ser = _series_hex(s.TimeSeries)
        except Exception:  # noqa
            ser = None
        try:
            csv = s.GenerateCSVtext()
        except Exception as e:  # noqa
            csv = 'raised ' + common.exc_class(e)
        return err, ser, csv
    s = EquationSolver(run_equation_reduction=False)
    s.MaxTime = T
    s.ParseString(BLOCKS[ia])
    run(s)
    s.ParseString(BLOCKS[ib])
    got = run(s)
    f = EquationSolver(run_equation_reduction=False)
    f.MaxTime = T
    f.ParseString(BLOCKS[ib])
    want = run(f)
    if got == want:
        return []
    gv = sorted(k for k, _ in (got[1] or []))
    wv = sorted(k for k, _ in (want[1] or []))
    what = ('variables %r, a fresh solver reports %r' % (gv, wv)) if gv != wv else \
        ('outcome/series/table differ: %r vs %r' % (got[0], want[0]))
    return [{'key': 'history:reparse-remnants', 'what': 'solver without equation reduction re-parsed with another block: ' + what,
             'replay': {'kind': 'reparse_noreduce', 'a': ia, 'b': ib, 'T': T}}]


def trace_reuse_check(ia, ib, t):
    """The step trace is part of what a solver reports (EquationSolver.TimeSeriesStepTrace): a solver that traced
    block a, was re-parsed with block b and solved twice with the trace on must hold exactly the trace a fresh
    solver holds after one traced solve of block b - same variables (no remnants of block a), same lengths (no
    accumulation over re-solves), same values.  Implementation only; compared only when every solve succeeds."""
    from sfc_models.equation_solver import EquationSolver

    def tr(s):
        return sorted((k, [float(x).hex() for x in v]) for k, v in s.TimeSeriesStepTrace.items())
    try:
        f = EquationSolver()
        f.ParseString(BLOCKS[ib])
        f.TraceStep = t
        f.SolveEquation()
        want = tr(f)
        s = EquationSolver()
        s.ParseString(BLOCKS[ia])
        s.TraceStep = t
        s.SolveEquation()
        s.ParseString(BLOCKS[ib])
        s.TraceStep = t
        s.SolveEquation()
        s.SolveEquation()
        got = tr(s)
    except Exception:  # noqa  (a block that does not solve: nothing to compare)
        return [], False
    if not any(k not in ('iteration', 'iteration_error', 'iteration_abs_change') for k, _ in want):
        return [], False   # the traced step is not reached in block b: the holder is simply not rewritten (not compared)
    if got == want:
        return [], True
    gl = [(k, len(v)) for k, v in got]
    wl = [(k, len(v)) for k, v in want]
    return [{'key': 'trace:reuse-remnants',
             'what': 'step trace (TraceStep=%d) after tracing block %r, re-parsing with block %r and solving twice has series %r; '
                     'a fresh solver tracing that block once has %r' % (t, BLOCKS[ia], BLOCKS[ib], gl, wl),
             'replay': {'kind': 'trace_reuse', 'a': ia, 'b': ib, 't': t}}], True


def replay_interleaved(r):
    import gen_common as G

    def other(i):
        if i == r['cut']:
            mb, _ = G.build(r['b'], fixed_ids=False)
            try:
                mb.main()
            except Exception:  # noqa
                pass
    try:
        ma, _ = G.build(r['a'], after_step=other)
        ta = G.generate_equations(ma)
        mref, _ = G.build(r['a'], fixed_ids=False)
        tref = G.generate_equations(mref)
    except Exception as e:  # noqa
        return ['interleaved construction fails: %r' % (e,)]
    return [] if ta == tref else ['equations differ between interleaved and stand-alone construction']


class _MemLog(object):
    def __init__(self):
        self.parts = []

    def write(self, t):
        self.parts.append(t)

    def close(self):
        pass


def steady_oracle(rng, n):
    """Implementation only: with the initial steady-state search switched on, a second solve of the same
    solver and a solve with the 'steadystate_0' / 'log' logs registered give the same series (main and
    'initial' group) as a plain first solve."""
    from sfc_models.equation_solver import EquationSolver
    from sfc_models.utils import Logger
    fails, count = [], 0

    def hexes(ts):
        return sorted((k, [float(x).hex() for x in v]) for k, v in ts.items())
    for _ in range(n):
        a = round(rng.uniform(0.2, 0.8), 2)
        g = round(rng.uniform(5, 30), 1)
        block = 'x = %s*LAG_x + G\nLAG_x = x(k-1)\ny = 2*x + 1\nexogenous\nG = [%s]*40\nMaxTime = %d' % (a, g, rng.choice([3, 5]))

        def solve(logs):
            Logger.cleanup()
            if logs:
                Logger.register_log(_MemLog(), 'steadystate_0')
                Logger.register_log(_MemLog(), 'log')
            s = EquationSolver(block)
            s.ParameterSolveInitialSteadyState = True
            s.ParameterInitialSteadyStateMaxTime = 60
            s.SolveEquation()
            first = (hexes(s.TimeSeries), hexes(s.TimeSeriesInitialSteadyState))
            s.SolveEquation()
            second = (hexes(s.TimeSeries), hexes(s.TimeSeriesInitialSteadyState))
            Logger.cleanup()
            return first, second
        try:
            plain1, plain2 = solve(False)
            logged1, logged2 = solve(True)
        except Exception as e:  # noqa
            fails.append({'key': 'resolve:series-differ', 'what': 'steady-state solve raised %r on %r' % (e, block),
                          'replay': {'kind': 'steady', 'block': block}})
            continue
        count += 1
        if plain1[0] != plain2[0]:
            fails.append({'key': 'resolve:series-differ', 'what': 'second solve with the steady-state search on differs from the first (%r)' % block,
                          'replay': {'kind': 'steady', 'block': block}})
        if plain1 != logged1:
            which = 'main series' if plain1[0] != logged1[0] else "'initial' series"
            fails.append({'key': 'logging:series-differ', 'what': '%s differ when the steadystate_0/log logs are registered (%r)' % (which, block),
                          'replay': {'kind': 'steady', 'block': block}})
    return fails, count


def run(ctx):
    out = common.Outcome()
    out.proof = common.proof_status(FAMILY, PROPFILE)
    common.use_impl()
    n_hist = ctx.scale(400, 4000)
    n_sc = ctx.scale(60, 700)
    hists = list(FIXED_HISTORIES) + [gen_history(ctx.rng) for _ in range(n_hist)]
    scens = list(FIXED_SCENARIOS) + [gen_scenario(ctx.rng) for _ in range(n_sc)]
    for it in corpus_items():
        if it.get('kind') == 'history':
            hists.insert(0, it['history'])
        elif it.get('kind') == 'scenario':
            scens.insert(0, it['scenario'])
    # fresh-interpreter references
    keys = []
    for h in hists:
        keys += needed_keys(h)
    for sc in scens:
        keys += scenario_refs(sc)[1]
    prefetch(keys)
    stats = {'histories': len(hists), 'scenarios': len(scens), 'ops': {}, 'reparse_then_solve': 0, 'resolves': 0,
             'solver_objects': 0, 'models_built': 0, 'scenario_logging_solves': 0, 'scenario_trace_solves': 0,
             'fresh_references': 0}
    cases, metas, seen = [], [], set()
    for h in hists:
        obs = run_history_impl(h)
        out.failures.extend(history_oracle(h, obs))
        cs = emit_history(h, obs)
        cases.extend(cs)
        metas.extend([{'history': h}] * len(cs))
        stats['solver_objects'] += h['nobj']
        last = {}
        for op in h['ops']:
            stats['ops'][op[1]] = stats['ops'].get(op[1], 0) + 1
            if op[1] == 'solve':
                if last.get(op[0]) == 'parse2':
                    stats['reparse_then_solve'] += 1
                if last.get(op[0]) == 'solve':
                    stats['resolves'] += 1
                last[op[0]] = 'solve'
            elif op[1] == 'parse':
                last[op[0]] = 'parse2' if op[0] in last else 'parse'
        if sum(1 for op in h['ops'] if op[1] == 'parse') >= 2 and any(op[1] == 'solve' for op in h['ops']):
            seen.add(json.dumps(h, sort_keys=True))
    bad, errs = common.run_bool_cases(FAMILY, REQUIRES, cases, tag=PID, shard=60)
    out.corr_errors = errs
    for i in bad[:20]:
        out.disagreements.append({'input': metas[i], 'case': cases[i][:900]})

    def one(sc):
        try:
            return sc, run_scenario(sc), None
        except Exception as e:  # noqa
            return sc, None, repr(e)[:500]
    with ThreadPoolExecutor(max_workers=10) as ex:
        results = list(ex.map(one, scens))
    for sc, recs, err in results:
        if err is not None:
            out.failures.append({'key': 'history:series-differ', 'replay': {'kind': 'scenario', 'scenario': sc},
                                 'what': 'scenario interpreter failed: ' + err})
            continue
        out.failures.extend(judge_scenario(sc, recs))
        stats['models_built'] += sum(1 for a in sc['actions'] if a[0] == 'new_model')
        stats['scenario_logging_solves'] += sum(1 for r in recs if r.get('logging'))
        refs, _ = scenario_refs(sc)
        stats['scenario_trace_solves'] += sum(1 for r in refs.values() if r['trace'])
        if len([a for a in sc['actions'] if a[0] in ('main', 'solve', 'model_resolve')]) >= 2:
            seen.add(json.dumps(sc, sort_keys=True))
    stats['fresh_references'] = len(_fresh_cache)
    for _ in range(ctx.scale(40, 400)):
        out.failures.extend(reparse_noreduce_check(ctx.rng.choice(GOOD_BLOCKS), ctx.rng.choice(GOOD_BLOCKS), ctx.rng.choice([2, 3, 5])))
        stats['reparse_without_reduction'] = stats.get('reparse_without_reduction', 0) + 1
    trace_compared = 0
    for _ in range(ctx.scale(30, 300)):
        tf, cmpd = trace_reuse_check(ctx.rng.choice(GOOD_BLOCKS), ctx.rng.choice(GOOD_BLOCKS), ctx.rng.choice([1, 2, 3]))
        out.failures.extend(tf)
        trace_compared += 1 if cmpd else 0
    if trace_compared < 10:
        out.failures.append({'key': 'trace:reuse-too-few', 'what': 'only %d trace-reuse comparisons ran' % trace_compared,
                             'replay': {'kind': 'obligation', 'name': 'trace_reuse_check coverage'}})
    ifails, icount = interleaved_oracle(ctx.rng, ctx.scale(40, 600))
    out.failures.extend(ifails)
    sfails, scount = steady_oracle(ctx.rng, ctx.scale(15, 200))
    out.failures.extend(sfails)
    stats['steady_state_resolve_and_logging'] = scount
    stats['interleaved_constructions'] = icount
    out.evaluations = len(cases) + len(scens) + icount
    out.nontrivial = len(seen)
    out.rule = ('(a) random interleavings of 3-14 operations (ParseString of a block from a pool of %d, SolveEquation, TraceStep, '
                'MaxTime) on 1-3 EquationSolver objects in the harness interpreter, one Coq case per object; (b) scenarios run in '
                'one fresh interpreter each: 0-4 models (gl_book SIM/SIMEX1/PC, custom SIM-like economies with random '
                'parameters) and 0-3 raw solvers with re-parsing, repeated solves, tracing, in-memory logs on/off and burnt '
                'object IDs, interleaved at random; (c) generated model programs whose construction is interrupted mid-way by '
                'building and solving another model, compared with the same program built alone; non-trivial = a history with at least two ParseString and a solve, or a '
                'scenario with at least two solves; distinct by full input' % (len(BLOCKS) - 1))
    out.samples = [hists[0], scens[1], hists[-1]]
    out.extra = {'input_distribution': stats, 'source_hashes': common.source_hashes(
        ['sfc_models/equation_solver.py', 'sfc_models/models.py', 'sfc_models/utils.py'])}
    out.trusted_base = [
        'Coq 8.16.1 kernel + vm_compute; no axioms (Print Assumptions: closed under the global context)',
        'hand-written model coq/Hist/Reuse.v (tied by this correspondence)',
        'the numerical core and the block parser are parameters of the model (`core`, `parse`): that the implementation\'s '
        'results are a function of the block and horizon override alone is what the oracle tests, not what is proved',
        'Logger is not modelled; TraceStep is carried but never read by the model',
        'Python subprocess/JSON plumbing of harness/c17.py; float.hex for bit-exact comparison',
    ]
    out.assumptions = [
        'a "fresh" result is what a new interpreter computes for the same block / model alone',
        'horizon override = EquationSolver.MaxTime assigned before ParseString (assignment after parsing is ignored by design)',
        'models are re-solved through Model.EquationSolver.SolveEquation(), not by calling Model.main() twice',
        'a ParseString that raises leaves the solver as it was; a solve that fails inside SetInitialConditions reports nothing',
    ]
    return out


def replay(path):
    common.use_impl()
    obj = json.load(open(path))
    r = obj.get('replay') or {}
    if r.get('kind') == 'scenario':
        sc = r['scenario']
        prefetch(scenario_refs(sc)[1])
        fails = judge_scenario(sc, run_scenario(sc))
    elif r.get('kind') == 'trace_reuse':
        fails = trace_reuse_check(r['a'], r['b'], r['t'])[0]
    elif r.get('kind') == 'reparse_noreduce':
        fails = reparse_noreduce_check(r['a'], r['b'], r['T'])
    elif r.get('kind') == 'history':
        h = r['history']
        prefetch(needed_keys(h))
        fails = history_oracle(h, run_history_impl(h))
    elif r.get('kind') == 'steady':
        import random as _r
        blk = r['block']

        class _One(object):
            def randrange(self, n): return 0
        # re-run the three comparisons on exactly this block
        from sfc_models.equation_solver import EquationSolver
        from sfc_models.utils import Logger

        def hx(ts):
            return sorted((k, [float(x).hex() for x in v]) for k, v in ts.items())

        def sol(logs):
            Logger.cleanup()
            if logs:
                Logger.register_log(_MemLog(), 'steadystate_0'); Logger.register_log(_MemLog(), 'log')
            s_ = EquationSolver(blk); s_.ParameterSolveInitialSteadyState = True; s_.ParameterInitialSteadyStateMaxTime = 60
            s_.SolveEquation(); f1 = (hx(s_.TimeSeries), hx(s_.TimeSeriesInitialSteadyState))
            s_.SolveEquation(); f2 = (hx(s_.TimeSeries), hx(s_.TimeSeriesInitialSteadyState))
            Logger.cleanup()
            return f1, f2
        p1, p2 = sol(False); l1, l2 = sol(True)
        fails = []
        if p1[0] != p2[0]:
            fails.append({'key': 'resolve:series-differ', 'what': 'second solve differs'})
        if p1 != l1:
            fails.append({'key': 'logging:series-differ', 'what': 'series differ with logs registered'})
    elif r.get('kind') == 'interleaved':
        fails = [{'key': 'history:interleaved-construction', 'what': w} for w in replay_interleaved(r)]
    else:
        print('replay names a proof/correspondence obligation, nothing to execute:', json.dumps(obj)[:600])
        return 1
    for f in fails:
        print('FAILS:', f['key'], f['what'][:500])
    print('replay: %s' % ('property violated' if fails else 'property holds on this input'))
    return common.replay_status(PID, fails)
