"""Caller-level oracle for C13 (implementation only): the places that rename variables through the
three utility functions must be hygienic and simultaneous too —
  * Term / Equation / EquationBlock.ReplaceTokensFromLookup (alias fixing),
  * Sector._CreateFinalEquations (local -> full qualification),
  * EquationParser.FindExactMatches (alias substitution during reduction).
Reference: Python's own tokenize; expected = the original token sequence with exactly the NAME
tokens in the map's domain replaced, once, simultaneously."""
import io
import tokenize

POOL = ['a', 'aa', 'a_1', 'LAG_a', 'ba', 'ab', 'e5', 'j', 'x1f', 'b', 'bb', 'max', 'c', 'x', 'xx', 'x_']


def names_and_ops(s):
    out = []
    for tok in tokenize.generate_tokens(io.StringIO(s).readline):
        if tok.type in (tokenize.NAME, tokenize.NUMBER, tokenize.OP, tokenize.STRING):
            out.append((tokenize.tok_name[tok.type], tok.string))
    return out


def renamed(toks, m):
    return [(k, m.get(t, t) if k == 'NAME' else t) for k, t in toks]


def gen_expr(rng, names):
    parts = []
    for _ in range(rng.randint(1, 4)):
        n = rng.choice(names)
        form = rng.choice(['%s', '%s', '2.5*%s', 'max(%s,1.0)', '1e5*%s', 'abs(2j)*%s', '%s/3', '(%s)'])
        parts.append(form % n)
    return rng.choice([' + ', '+', ' - ', '*']).join(parts)


def reduction_case(rng):
    names = rng.sample(POOL, 5)
    alias, target = names[0], names[1]
    if target == 'max':
        target = 'b'
    others = [n for n in names[2:] if n != 'max']
    expr = gen_expr(rng, [alias] + others + [alias])
    lines = ['%s = %s' % (alias, target), '%s = 0.5*%s + 1' % (target, others[0] if others else 'k'), 'y = ' + expr]
    for o in others:
        lines.append('%s = 1.0' % o)
    return {'kind': 'reduction', 'block': '\n'.join(lines), 'alias': alias, 'target': target, 'expr': expr}


def check_reduction(c):
    from sfc_models.equation_parser import EquationParser
    p = EquationParser()
    p.ParseString(c['block'])
    p.GenerateTokenList()
    try:
        p.FindExactMatches()
    except ValueError:
        return None
    got = p.AllEquations.get('y')
    want = renamed(names_and_ops(c['expr']), {c['alias']: c['target']})
    try:
        have = names_and_ops(got)
    except (tokenize.TokenError, SyntaxError):
        have = None
    if have != want:
        return 'alias substitution %s -> %s in %r gave %r' % (c['alias'], c['target'], c['expr'], got)
    return None


def qualify_case(rng):
    names = [n for n in rng.sample(POOL, 5) if n not in ('max', 'j', 'e5')]
    expr = gen_expr(rng, names)
    return {'kind': 'qualify', 'names': names, 'expr': expr}


def check_qualify(c):
    from sfc_models.models import Model, Country
    from sfc_models.sector import Sector
    mod = Model()
    cn = Country(mod, 'C')
    s = Sector(cn, 'S', has_F=False)
    for n in c['names']:
        s.AddVariable(n, '', '1.0')
    s.AddVariable('Y', '', c['expr'])
    mod._GenerateFullSectorCodes()
    rows = dict((r[0], r[1]) for r in s._CreateFinalEquations())
    m = dict((n, 'S__' + n) for n in c['names'] + ['Y'])
    want = renamed(names_and_ops(c['expr'].replace(' ', '')), m)
    have = names_and_ops(rows['S__Y'])
    if have != want:
        return 'qualification of %r gave %r' % (c['expr'], rows['S__Y'])
    return None


def term_case(rng):
    a, b = rng.sample(['x', 'y', 'xx', 'x_', 'a', 'aa'], 2)
    op = rng.choice(['*', '/'])
    m = rng.choice([{a: b, b: a}, {a: b}, {a: b, b: 'zz'}, {'q': a}])
    return {'kind': 'term', 'term': a + op + b, 'map': m}


def check_term(c):
    from sfc_models.equation import Term
    t = Term(c['term'])
    t.ReplaceTokensFromLookup(dict(c['map']))
    want = renamed(names_and_ops(c['term']), c['map'])
    have = names_and_ops(t.Term)
    if have != want:
        return 'Term(%r).ReplaceTokensFromLookup(%r) gave %r' % (c['term'], c['map'], t.Term)
    return None


def equation_case(rng):
    a, b, c = rng.sample(['x', 'y', 'xx', 'x_', 'a', 'aa', 'z'], 3)
    m = rng.choice([{a: b, b: a}, {a: b, b: c}, {a: b}, {a: b, b: c, c: a}])
    lead = rng.choice(['%s*2 + %s' % (a, b), '%s - %s/%s' % (b, a, c), 'max(%s, %s)' % (a, b), a])
    terms = [rng.choice([a, b, c, a + '*' + b]) for _ in range(rng.randint(0, 3))]
    return {'kind': 'equation', 'lead': lead, 'terms': terms, 'map': m, 'via_block': rng.random() < 0.5}


def check_equation(c):
    from sfc_models.equation import Equation, Term, EquationBlock
    eq = Equation('lhs', '', [Term(c['lead'], is_blob=True)])
    for t in c['terms']:
        eq.AddTerm(t)
    before = eq.RHS()
    if c['via_block']:
        blk = EquationBlock()
        blk.AddEquation(eq)
        blk.ReplaceTokensFromLookup(dict(c['map']))
    else:
        eq.ReplaceTokensFromLookup(dict(c['map']))
    after = eq.RHS()
    want = renamed(names_and_ops(before), c['map'])
    have = names_and_ops(after)
    if have != want:
        return 'Equation %r renamed with %r gave %r' % (before, c['map'], after)
    return None


CHECKS = {'reduction': check_reduction, 'qualify': check_qualify, 'term': check_term, 'equation': check_equation}
KEYS = {'reduction': 'caller:FindExactMatches-not-hygienic', 'qualify': 'caller:final-equation-qualification',
        'term': 'caller:Term-ReplaceTokensFromLookup', 'equation': 'caller:Equation-ReplaceTokensFromLookup'}


def run(rng, n):
    fails, stats = [], {'reduction': 0, 'qualify': 0, 'term': 0, 'equation': 0}
    for i in range(n):
        c = (reduction_case, qualify_case, term_case, equation_case)[i % 4](rng)
        stats[c['kind']] += 1
        why = CHECKS[c['kind']](c)
        if why:
            fails.append({'key': KEYS[c['kind']], 'what': why, 'replay': {'kind': 'caller', 'case': c}})
    return fails, stats


def replay_case(c):
    why = CHECKS[c['kind']](c)
    return [{'key': KEYS[c['kind']], 'what': why}] if why else []
