"""C01 — every generated model is stock-flow consistent in each currency.

Proof: coq/Gen/PropC01.v — soundness of the balance certificate (check_zero over the Laurent-polynomial
expander of coq/Gen) for every emitted system and every history satisfying it.
Validation on every run: random model programs (single economies, federated zones, several
currency zones with external sector, cross-zone gifts and imports at non-unit rates, gold standard,
capitalists, several firms, money/deposit markets) are built with the implementation; the emitted
FinalEquations are handed to the kernel-evaluated checker, one balance target per real currency
zone.  Oracle: the same balance evaluated on the implementation's solved series at every k >= 2.
"""
import common
import gen_common as G
import gen_checks as GC

PID = 'C01'
FAMILY = 'Gen'
PROPFILE = 'PropC01.v'
LEVEL = 'proof'


def make_targets(a, prog):
    mod = a['mod']
    ext_cur = mod.ExternalSector.Currency if mod.ExternalSector is not None else None
    out = []
    for cur, fs, net in G.zones_info(mod):
        if cur == ext_cur:
            continue   # the numeraire pseudo-currency has no holders; C07 covers its position
        terms = []
        for f, lf in fs:
            terms.append((1, ('var', f)))
            terms.append((-1, ('var', lf)))
        if net:
            terms.append((1, ('var', net)))
        out.append(('zone-balance|%s' % cur, G.sum_ast(terms)))
    return out


def run(ctx):
    out, metas = GC.run_targets(
        ctx, PID, make_targets, 60, 1500,
        rule=('random model programs from harness/gen_common.ProgGen.any(): single economy / 2-3 regions sharing a '
              'currency / 2-3 currency zones with ExternalSector (cross-zone gifts, imports, non-unit time-varying '
              'XR paths) / gold standard; consolidated or treasury+central-bank government, 1-2 households (incl. '
              'expectations), capitalists, 1-2 firms (single or multi output, zero or positive margin), tax flow, '
              'money and deposit markets with portfolio choice, gifts; one balance target per real currency zone; '
              'non-trivial = program built and emitted equations; distinct by full program'))
    out.proof = common.proof_status(FAMILY, PROPFILE)
    out.trusted_base = [
        'Coq 8.16.1 kernel + vm_compute (checker evaluated on the emitted equations)',
        'axioms (Print Assumptions): Reals ClassicalDedekindReals.sig_forall_dec, sig_not_dec, '
        'FunctionalExtensionality.functional_extensionality_dep (standard library)',
        "harness: sfc_models' own EquationParser + Python ast turn FinalEquations into the Coq `sys`; "
        'zone membership / F names read from public object attributes (CurrencyZoneList, HasF, GetVariableName)',
        'cut set and non-zero set are untrusted hints (soundness does not depend on them)']
    out.assumptions = [
        'the quantifier over model topologies is covered per generated program (translation validation of the '
        'emitted equations), the quantifier over parameters/exogenous paths/periods by the soundness theorem',
        'exchange rates non-zero', 'raw user AddCashFlow calls (one-sided by nature) are not generated',
        "the external sector's own NUMERAIRE pseudo-zone is excluded here (C07 states its position)"]
    return out


def replay(path):
    return GC.replay_program(path, make_targets)
