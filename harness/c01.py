"""C01 — every generated model is stock-flow consistent in each currency.

Proof: coq/Gen/PropC01.v — soundness of the balance certificate (check_zero over the Laurent-polynomial
expander of coq/Gen) for every emitted system and every history satisfying it.
Validation on every run: random model programs (single economies, federated zones, several
currency zones with external sector, cross-zone gifts and imports at non-unit rates, gold standard,
capitalists, several firms, money/deposit markets) are built with the implementation; the emitted
FinalEquations are handed to the kernel-evaluated checker, one balance target per real currency
zone.  Oracle: the same balance evaluated on the implementation's solved series at every k >= 2.
"""
import json

import common
import gen_common as G
import gen_checks as GC
import gen_main
import gen_main2
import gen_plumb
import gen_witness
import gen_market
import gen_tax
import gen_asset

PID = 'C01'
FAMILY = 'Gen'
PROPFILE = 'PropC01.v'
LEVEL = 'proof'


def make_targets(a, prog):
    mod = a['mod']
    ext_cur = mod.ExternalSector.Currency if mod.ExternalSector is not None else None
    out = []
    for cur, fs, net in G.zones_info(mod):
        if cur == ext_cur:
            continue   # the numeraire pseudo-currency has no holders; C07 covers its position
        terms = []
        for f, lf in fs:
            terms.append((1, ('var', f)))
            terms.append((-1, ('var', lf)))
        if net:
            terms.append((1, ('var', net)))
        out.append(('zone-balance|%s' % cur, G.sum_ast(terms)))
    return out


# ---------------------------------------------------------------- booking-level correspondence (Flows.v)
def gen_flow_case(rng):
    curs = rng.sample(['CAD', 'USD', 'JPY'], rng.choice([1, 2, 2, 3]))
    n_sec = rng.choice([2, 3])
    ops = []
    for _ in range(rng.randint(1, 8)):
        a = (rng.randrange(len(curs)), rng.randrange(n_sec))
        b = (rng.randrange(len(curs)), rng.randrange(n_sec))
        if a == b:
            continue
        r = rng.random()
        if r < 0.85:
            ops.append(['flow', a, b, rng.choice(['G', 'H', 'G']), rng.random() < 0.5, rng.random() < 0.5])
        else:
            ops.append(['gold', a, 'GP%d' % len(ops)])
    return {'curs': curs, 'n_sec': n_sec, 'ext_pos': rng.randint(0, len(curs)), 'ops': ops}


def run_flow_impl(c):
    from sfc_models.models import Model, Country
    from sfc_models.sector import Sector
    from sfc_models.external import ExternalSector
    from common import coq_string
    mod = Model()
    secs = {}
    ext = None
    for i, cur in enumerate(c['curs']):
        if i == c['ext_pos']:
            ext = ExternalSector(mod)
        cn = Country(mod, 'C' + cur, currency=cur)
        for j in range(c['n_sec']):
            s = Sector(cn, 'S%d' % j)
            for v in ('G', 'H'):
                s.AddVariable(v, '', '1.0')
            secs[(i, j)] = s
    if ext is None:
        ext = ExternalSector(mod)
    mod._GenerateFullSectorCodes()
    model_ops = []
    for op in c['ops']:
        if op[0] == 'flow':
            s, t = secs[tuple(op[1])], secs[tuple(op[2])]
            mod.RegisterCashFlow(s, t, op[3], is_income_source=op[4], is_income_dest=op[5])
            x = s.GetVariableName(op[3])
            if op[1][0] == op[2][0]:
                model_ops.append('Same %s %s %s' % (coq_string(s.FullCode), coq_string(t.FullCode), coq_string(x)))
            else:
                model_ops.append('Cross %s %s %s %s %s' % (coq_string(s.FullCode), coq_string(t.FullCode),
                                                           coq_string(c['curs'][op[1][0]]), coq_string(c['curs'][op[2][0]]), coq_string(x)))
    mod._GenerateRegisteredCashFlows()
    for op in c['ops']:
        if op[0] == 'gold':
            s = secs[tuple(op[1])]
            s.AddVariable(op[2], '', '1.0')
            ext['GOLD'].SetGoldPurchases(s, op[2], 0.0)
            model_ops.append('GoldBuy %s %s %s' % (coq_string(s.FullCode), coq_string(c['curs'][op[1][0]]), coq_string(s.GetVariableName(op[2]))))
    expected = []

    def qual(s, text):
        return '*'.join(f if '__' in f else s.FullCode + '__' + f for f in text.split('*'))
    for s in secs.values():
        terms = [(int(t.Constant), qual(s, t.Term)) for t in s.EquationBlock['F'].TermList if not t.IsBlob and t.Term != 'LAG_F']
        expected.append((s.FullCode, terms))
    fx = ext['FX']
    for cur in c['curs'] + ['NUMERAIRE']:
        terms = [(int(t.Constant), t.Term) for t in fx.EquationBlock['NET_' + cur].TermList if not t.IsBlob]
        expected.append(('EXT_FX__NET_' + cur, terms))
    return model_ops, expected, {s.FullCode: c['curs'][k[0]] for k, s in secs.items()}


def flow_oracle(c, expected, zone):
    """Implementation only: per real currency zone the booked entries cancel under random rational
    valuations (cross rates = quotient of rates)."""
    from fractions import Fraction
    import random as _r
    rng = _r.Random(json.dumps(c, sort_keys=True))
    val = {}

    def value(name):
        if name.startswith('EXT_XR__') and '_' in name[len('EXT_XR__'):]:
            a_, b_ = name[len('EXT_XR__'):].split('_', 1)
            return value('EXT_XR__' + a_) / value('EXT_XR__' + b_)
        if name not in val:
            val[name] = Fraction(rng.randint(1, 40), rng.randint(1, 9))
        return val[name]
    totals = {}
    for key, terms in expected:
        z = zone.get(key, key[len('EXT_FX__NET_'):] if key.startswith('EXT_FX__NET_') else None)
        s = Fraction(0)
        for coef, text in terms:
            p = Fraction(coef)
            for f in text.split('*'):
                p *= value(f)
            s += p
        totals[z] = totals.get(z, Fraction(0)) + s
    fails = []
    for z, tot in totals.items():
        if z != 'NUMERAIRE' and tot != 0:
            fails.append({'key': 'flows:zone-entries-do-not-cancel', 'what': 'booked entries of zone %s sum to %s after %r' % (z, tot, c['ops']),
                          'replay': {'kind': 'flows', 'case': c}})
    return fails


def run(ctx):
    proofs__ = common.proof_status_async([(FAMILY, PROPFILE)] + gen_market.PROOFS + gen_tax.PROOFS + gen_asset.PROOFS + gen_main2.PROOFS + gen_plumb.PROOFS + gen_witness.PROOFS)      # re-checked in the background while the cases run
    out, metas = GC.run_targets(
        ctx, PID, make_targets, 36, 700,
        rule=('random model programs from harness/gen_common.ProgGen.any(): single economy / 2-3 regions sharing a '
              'currency / 2-3 currency zones with ExternalSector (cross-zone gifts, imports, non-unit time-varying '
              'XR paths) / gold standard; consolidated or treasury+central-bank government, 1-2 households (incl. '
              'expectations), capitalists, 1-2 firms (single or multi output, zero or positive margin), tax flow, '
              'money and deposit markets with portfolio choice, gifts; one balance target per real currency zone; '
              'non-trivial = program built and emitted equations; distinct by full program'))
    out.proof = None
    # booking-level correspondence and oracle
    from common import coq_string, coq_list, coq_Z
    cases, cm = [], []
    for _ in range(ctx.scale(250, 4000)):
        c = gen_flow_case(ctx.rng)
        model_ops, expected, zone = run_flow_impl(c)
        out.failures.extend(flow_oracle(c, expected, zone))
        exp = coq_list(['(%s, %s)' % (coq_string(k), coq_list(['(%s, %s)' % (coq_Z(a), coq_string(t)) for a, t in terms]))
                        for k, terms in expected])
        cases.append('flows_case %s %s' % (coq_list(model_ops), exp))
        cm.append(c)
    bad, errs = common.run_bool_cases(FAMILY, G.GEN_REQUIRES + ['From SFC.Gen Require Import Flows.'], cases, tag=PID + 'fl')
    out.corr_errors.extend(errs)
    for i in bad[:10]:
        out.disagreements.append({'flow_case': cm[i], 'coq': cases[i][:400]})
    out.extra['flow_sequences'] = len(cases)
    out.evaluations += len(cases)
    out.nontrivial += len(set(json.dumps(c, sort_keys=True) for c in cm if len(c['ops']) >= 2))
    out.trusted_base = [
        'Coq 8.16.1 kernel + vm_compute (checker evaluated on the emitted equations)',
        'axioms (Print Assumptions): Reals ClassicalDedekindReals.sig_forall_dec, sig_not_dec, '
        'FunctionalExtensionality.functional_extensionality_dep (standard library)',
        "harness: sfc_models' own EquationParser + Python ast turn FinalEquations into the Coq `sys`; "
        'zone membership / F names read from public object attributes (CurrencyZoneList, HasF, GetVariableName)',
        'cut set and non-zero set are untrusted hints (soundness does not depend on them)']
    out.assumptions = [
        'the quantifier over model topologies is covered per generated program (translation validation of the '
        'emitted equations), the quantifier over parameters/exogenous paths/periods by the soundness theorem',
        'exchange rates non-zero', 'raw user AddCashFlow calls (one-sided by nature) are not generated',
        "the external sector's own NUMERAIRE pseudo-zone is excluded here (C07 states its position)"]
    # per-group balance lemmas for ALL zones / participant lists (coq/GenMarket, coq/GenTax, coq/GenAsset), each
    # tied to the implementation by its own state correspondence and oracle
    out.proof = proofs__.result()
    gen_market.extra(ctx, out, 110, 2000)
    gen_tax.extra(ctx, out)
    gen_asset.extra(ctx, out)
    # whole-pipeline models of Model.main() with program-level theorems (coq/GenMain2): single-currency programs
    # (Main.build) and programs with several currency zones, ExternalSector and gold standard (Main2.build2)
    gen_main.extra(ctx, out, 30, 600)
    gen_main2.extra(ctx, out, 40, 600)
    # the side conditions reduced to their semantic part, markets supplied from several other zones included (coq/GenPlumb)
    gen_plumb.extra(ctx, out, 14, 250)
    out.failures.extend(finding_probes())
    return out


def finding_probes():
    """Recorded finding D01b: two TaxFlow sectors in one country (a shape the generator does not produce; the side
    condition no_conflict of Main_stock_flow_consistent is false on it; found while proving coq/GenOrder)."""
    import c08
    prog = c08._probe_prog(['GOV', 'HH', 'TF', 'TF2', 'BUS', 'LAB', 'GOOD'], {'TF2': ('TaxFlow', {'taxrate': 0.1, 'taxes_paid_to': 'GOV'})})
    fails = []
    try:
        a = GC.analyse(prog)
        ts, e, _ = GC.solve(prog)
        bad = GC.numeric_check(ts, make_targets(a, prog), kmin=2) if ts else []
    except Exception as e:  # noqa
        return [{'key': 'tax:two-taxflows', 'what': 'two TaxFlow sectors in one country: build/solve raises %r' % (e,),
                 'replay': {'kind': 'program', 'prog': prog}}]
    for (ti, k, val, scale, note) in bad[:1]:
        fails.append({'key': 'tax:two-taxflows', 'what': 'two TaxFlow sectors in one country: the zone balance evaluates to %.6g at period %d '
                      '(payers are debited 2*rate1*INC, the recipient is credited 2*rate2*INC)' % (val, k),
                      'replay': {'kind': 'program', 'prog': prog}})
    return fails


def replay(path):
    obj = json.load(open(path))
    r = obj.get('replay') or {}
    if r.get('kind') == 'flows':
        model_ops, expected, zone = run_flow_impl(r['case'])
        fails = flow_oracle(r['case'], expected, zone)
        for f in fails:
            print('FAILS:', f['what'][:300])
        print('replay: %s' % ('property violated' if fails else 'property holds on this input'))
        return 1 if fails else 0
    if r.get('kind') == 'main':
        return gen_main.replay(obj)
    if r.get('kind') == 'main2':
        return gen_main2.replay(obj)
    if r.get('kind') == 'market':
        return gen_market.replay(obj)
    if r.get('kind') in ('tax', 'dividends'):
        return gen_tax.replay(obj)
    if r.get('kind') == 'asset':
        return gen_asset.replay(obj)
    return GC.replay_program(path, make_targets)
