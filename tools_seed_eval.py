#!/usr/bin/env python3
"""Confirm a seeded breaking change and run the checks against it.

usage: tools_seed_eval.py <dir with patch.diff demo.py meta.json> [--checks C01,C04] [--keep]

1. fresh scratch worktree of /repo HEAD under /tmp (removed afterwards);
2. demo.py on the clean tree must exit 0; patch applies; test suite must still give the baseline
   (221 passed, test_main failing); demo.py on the patched tree must exit != 0;
3. each requested check (default: the property the seed names) is run with SFC_REPO=<patched tree>;
   its verdict and the replay it prints are recorded; the replay is re-run on the clean tree.
Writes /verif/seeded/<name>/{patch.diff,demo.py,meta.json} when everything is confirmed.
"""
import json
import os
import re
import shutil
import subprocess
import sys

VERIF = '/verif'


def sh(cmd, **kw):
    return subprocess.run(cmd, shell=True, capture_output=True, text=True, **kw)


def main():
    src = sys.argv[1].rstrip('/')
    checks = None
    for a in sys.argv[2:]:
        if a.startswith('--checks'):
            checks = a.split('=', 1)[1].split(',')
    meta = json.load(open(os.path.join(src, 'meta.json')))
    pid = meta['property']
    name = os.path.basename(src)
    checks = checks or [pid]
    wt = '/tmp/seedwt_%d' % os.getpid()
    sh('git -C /repo worktree remove --force %s' % wt)
    r = sh('git -C /repo worktree add --detach %s HEAD' % wt)
    assert r.returncode == 0, r.stderr
    res = {'seed': name, 'property': pid}
    try:
        env = 'PYTHONPATH=%s PYTHONWARNINGS=ignore' % wt
        d0 = sh('%s /venv/bin/python %s/demo.py' % (env, src), cwd=wt, timeout=600)
        res['demo_clean_exit'] = d0.returncode
        a = sh('git -C %s apply %s/patch.diff' % (wt, os.path.abspath(src)))
        res['patch_applies'] = a.returncode == 0
        if not res['patch_applies']:
            res['error'] = a.stderr[-400:]
            print(json.dumps(res, indent=1))
            return res
        t = sh('cd %s && /venv/bin/python -m pytest -q -p no:cacheprovider --timeout=900 2>&1 | tail -3' % wt, timeout=1200)
        m = re.search(r'(\d+) failed, (\d+) passed', t.stdout)
        res['tests'] = t.stdout.strip().split('\n')[-1]
        res['tests_baseline'] = bool(m and m.group(1) == '1' and m.group(2) == '221' and 'test_main' in t.stdout)
        d1 = sh('%s /venv/bin/python %s/demo.py' % (env, src), cwd=wt, timeout=600)
        res['demo_patched_exit'] = d1.returncode
        res['demo_patched_output'] = (d1.stdout + d1.stderr)[-300:]
        res['confirmed'] = (res['demo_clean_exit'] == 0 and res['demo_patched_exit'] != 0 and res['tests_baseline'])
        res['checks'] = {}
        for c in checks:
            k = sh('cd %s && SFC_REPO=%s ./check %s 2>&1' % (VERIF, wt, c), timeout=3000)
            viol = [l for l in k.stdout.split('\n') if l.startswith('VIOLATION')]
            entry = {'exit': k.returncode, 'violation_lines': viol[:3], 'detected': k.returncode == 1 and bool(viol)}
            lines = k.stdout.split('\n')
            for i, l in enumerate(lines):
                if l.startswith('VIOLATION') and i + 1 < len(lines) and lines[i + 1].startswith('  '):
                    entry.setdefault('what', lines[i + 1].strip()[:300])
            if viol:
                mm = re.search(r'replay=(\S+)', viol[0])
                entry['no_failing_input'] = 'no-failing-input-found' in viol[0]
                if mm and not entry['no_failing_input']:
                    rp = mm.group(1)
                    r1 = sh('cd %s && SFC_REPO=%s ./check %s --replay %s' % (VERIF, wt, c, rp), timeout=900)
                    r0 = sh('cd %s && ./check %s --replay %s' % (VERIF, c, rp), timeout=900)
                    entry['replay_on_patched_exit'] = r1.returncode
                    entry['replay_on_clean_exit'] = r0.returncode
            res['checks'][c] = entry
    finally:
        sh('git -C /repo worktree remove --force %s' % wt)
    if res.get('confirmed'):
        dst = os.path.join(VERIF, 'seeded', name)
        os.makedirs(dst, exist_ok=True)
        shutil.copy(os.path.join(src, 'patch.diff'), dst)
        shutil.copy(os.path.join(src, 'demo.py'), dst)
        meta2 = {'property': pid, 'summary': meta.get('summary'), 'needs': meta.get('needs'),
                 'author_ran': meta.get('author_ran', meta.get('ran')),
                 'confirmed_by_lead': {'demo_clean_exit': res['demo_clean_exit'], 'demo_patched_exit': res['demo_patched_exit'],
                                       'tests': res['tests'], 'repo_head': sh('git -C /repo rev-parse --short HEAD').stdout.strip()},
                 'checks_run': res['checks']}
        if meta.get('note_by_lead'):
            meta2['note_by_lead'] = meta['note_by_lead']
        json.dump(meta2, open(os.path.join(dst, 'meta.json'), 'w'), indent=1)
    # regenerate the evidence of the checks on the real tree? (left to run_all.sh)
    print(json.dumps(res, indent=1))
    return res


if __name__ == '__main__':
    main()
