(** Proofs about [Csv.v] (C19, and the rendering half of C16). *)
From Coq Require Import List String Ascii Bool Arith Lia Sorted Permutation.
From SFC.Base Require Import Res Str Sorting.
From SFC.Out Require Import Csv.
Import ListNotations.
Local Open Scope string_scope.

(* ------------------------------------------------------------------ *)
(** * [remove_first], [pull] *)

Lemma remove_first_perm x l : List.In x l -> Permutation l (x :: remove_first x l).
Proof.
  induction l as [|y l IH]; simpl; [tauto|]. intros H.
  destruct (String.eqb_spec x y) as [->|Hn]; [apply Permutation_refl|].
  destruct H as [H|H]; [congruence|].
  eapply perm_trans; [apply perm_skip, IH, H|apply perm_swap].
Qed.

Lemma remove_first_notin x l : ~ List.In x l -> remove_first x l = l.
Proof.
  induction l as [|y l IH]; simpl; [reflexivity|]. intros H.
  destruct (String.eqb_spec x y) as [->|Hn]; [tauto|]. f_equal. tauto.
Qed.

Lemma remove_first_In x y l : List.In y (remove_first x l) -> List.In y l.
Proof.
  induction l as [|z l IH]; simpl; [tauto|].
  destruct (String.eqb x z); simpl; tauto.
Qed.

Lemma remove_first_In_neq x y l : x <> y -> List.In y l -> List.In y (remove_first x l).
Proof.
  intros Hne. induction l as [|z l IH]; simpl; [tauto|].
  destruct (String.eqb_spec x z) as [->|Hn]; simpl; intros [H|H]; auto; congruence.
Qed.

Lemma remove_first_NoDup_notin x l : NoDup l -> ~ List.In x (remove_first x l).
Proof.
  induction 1 as [|y l Hy Hnd IH]; simpl; [tauto|].
  destruct (String.eqb_spec x y) as [->|Hn]; [exact Hy|]. simpl. intros [H|H]; [congruence|auto].
Qed.

Lemma remove_first_NoDup x l : NoDup l -> NoDup (remove_first x l).
Proof.
  induction 1 as [|y l Hy Hnd IH]; simpl; [constructor|].
  destruct (String.eqb x y); [assumption|]. constructor; [|assumption].
  intros H. apply Hy. eapply remove_first_In; eauto.
Qed.

Lemma remove_first_sorted x l : StronglySorted sle l -> StronglySorted sle (remove_first x l).
Proof.
  induction 1 as [|y l Hs IH Hall]; simpl; [constructor|].
  destruct (String.eqb x y); [assumption|]. constructor; [assumption|].
  rewrite Forall_forall in *. intros z Hz. apply Hall. eapply remove_first_In; eauto.
Qed.

Lemma pull_perm prio : forall ser inc rest, pull prio ser = (inc, rest) -> Permutation ser (inc ++ rest)%list.
Proof.
  induction prio as [|x prio IH]; simpl; intros ser inc rest H.
  - injection H as <- <-. apply Permutation_refl.
  - destruct (mem x ser) eqn:Hm; [|eauto].
    destruct (pull prio (remove_first x ser)) as [inc' rest'] eqn:Hp. injection H as <- <-.
    apply mem_In in Hm. eapply perm_trans; [apply remove_first_perm, Hm|].
    simpl. apply perm_skip. eauto.
Qed.

(** The pulled-out names are exactly the priority names that occur, in priority order. *)
Lemma pull_inc prio : NoDup prio -> forall ser inc rest,
  pull prio ser = (inc, rest) -> inc = filter (fun x => mem x ser) prio.
Proof.
  induction 1 as [|x prio Hx Hnd IH]; simpl; intros ser inc rest H.
  - now injection H as <- <-.
  - destruct (mem x ser) eqn:Hm.
    + destruct (pull prio (remove_first x ser)) as [inc' rest'] eqn:Hp. injection H as <- <-.
      f_equal. rewrite (IH _ _ _ Hp). apply filter_ext_in. intros y Hy.
      assert (Hne : x <> y) by (intros ->; tauto).
      destruct (mem y ser) eqn:Hy1.
      * apply (proj2 (mem_In _ _)). apply remove_first_In_neq; [assumption|]. now apply (proj1 (mem_In _ _)).
      * destruct (mem y (remove_first x ser)) eqn:Hy2; [|reflexivity].
        apply (proj1 (mem_In _ _)) in Hy2. apply remove_first_In in Hy2. apply (proj2 (mem_In _ _)) in Hy2. congruence.
    + eauto.
Qed.

Lemma pull_rest_sorted prio : forall ser inc rest,
  pull prio ser = (inc, rest) -> StronglySorted sle ser -> StronglySorted sle rest.
Proof.
  induction prio as [|x prio IH]; simpl; intros ser inc rest H Hs.
  - now injection H as <- <-.
  - destruct (mem x ser); [|eauto].
    destruct (pull prio (remove_first x ser)) as [inc' rest'] eqn:Hp. injection H as <- <-.
    eapply IH; [exact Hp|]. now apply remove_first_sorted.
Qed.

Lemma pull_rest_sub prio : forall ser inc rest y,
  pull prio ser = (inc, rest) -> List.In y rest -> List.In y ser.
Proof.
  induction prio as [|x prio IH]; simpl; intros ser inc rest y H Hy.
  - now injection H as <- <-.
  - destruct (mem x ser); [|eauto].
    destruct (pull prio (remove_first x ser)) as [inc' rest'] eqn:Hp. injection H as <- <-.
    eapply remove_first_In, IH; eauto.
Qed.

Lemma pull_rest_disjoint prio : forall ser inc rest,
  pull prio ser = (inc, rest) -> NoDup ser -> forall y, List.In y prio -> ~ List.In y rest.
Proof.
  induction prio as [|x prio IH]; simpl; intros ser inc rest H Hnd y Hy; [tauto|].
  destruct (mem x ser) eqn:Hm.
  - destruct (pull prio (remove_first x ser)) as [inc' rest'] eqn:Hp. injection H as <- <-.
    destruct Hy as [<-|Hy].
    + intros Hin. eapply (remove_first_NoDup_notin x ser Hnd), pull_rest_sub; eauto.
    + eapply IH; eauto. now apply remove_first_NoDup.
  - destruct Hy as [<-|Hy]; [|eauto].
    intros Hin. assert (List.In x ser) by (eapply pull_rest_sub; eauto).
    apply mem_In in H0. congruence.
Qed.

Lemma priority_NoDup : NoDup priority.
Proof.
  unfold priority. repeat constructor; simpl; intros H;
    repeat (destruct H as [H|H]; [discriminate|]); exact H.
Qed.

(* ------------------------------------------------------------------ *)
(** * C19_header *)

Theorem series_list_perm keys : Permutation keys (series_list keys).
Proof.
  unfold series_list. destruct (pull priority (sort keys)) as [inc rest] eqn:Hp.
  eapply perm_trans; [apply sort_perm|]. eapply pull_perm; eauto.
Qed.

Theorem series_list_NoDup keys : NoDup keys -> NoDup (series_list keys).
Proof. intros H. eapply Permutation_NoDup; [apply series_list_perm|exact H]. Qed.

(** Every stored name appears in the header exactly once (for dict keys, which are distinct). *)
Corollary series_list_once keys x : NoDup keys -> List.In x keys -> count_occ string_dec (series_list keys) x = 1.
Proof.
  intros Hnd Hin. apply NoDup_count_occ'; [now apply series_list_NoDup|].
  eapply Permutation_in; [apply series_list_perm|exact Hin].
Qed.

(** Shape: priority names that are present, in priority order, then the remaining names in
    ascending (code-point) order, none of which is a priority name. *)
Theorem series_list_shape keys : NoDup keys ->
  exists rest,
    series_list keys = (filter (fun x => mem x keys) priority ++ rest)%list /\
    StronglySorted sle rest /\
    (forall y, List.In y rest -> List.In y keys /\ ~ List.In y priority).
Proof.
  intros Hnd. unfold series_list.
  destruct (pull priority (sort keys)) as [inc rest] eqn:Hp. exists rest. repeat split.
  - f_equal. rewrite (pull_inc _ priority_NoDup _ _ _ Hp). apply filter_ext. intros x.
    destruct (mem x keys) eqn:H1.
    + apply (proj2 (mem_In _ _)). apply (proj2 (sort_In _ _)). now apply (proj1 (mem_In _ _)).
    + destruct (mem x (sort keys)) eqn:H2; [|reflexivity].
      apply (proj1 (mem_In _ _)) in H2. apply (proj1 (sort_In _ _)) in H2. apply (proj2 (mem_In _ _)) in H2. congruence.
  - eapply pull_rest_sorted; [exact Hp|apply sort_strongly_sorted].
  - apply (proj1 (sort_In _ _)). eapply pull_rest_sub; eauto.
  - intros Hy. eapply pull_rest_disjoint; eauto. now apply sort_NoDup.
Qed.

(* ------------------------------------------------------------------ *)
(** * C19_rows *)

Section Rows.
Variable V : Type.
Variable fmt : V -> string.
Notation store := (list (string * list V)).

Lemma rows_length (st : store) : List.length (rows fmt st) = min_len st.
Proof. unfold rows. now rewrite map_length, seq_length. Qed.

Lemma min_len_le (st : store) k l : List.In (k, l) st -> min_len st <= List.length l.
Proof.
  destruct st as [|[k0 l0] r]; simpl; [tauto|].
  assert (Hf : forall (r0 : store) (m : nat), fold_right (fun p m => Nat.min (List.length (snd p)) m) m r0 <= m).
  { induction r0 as [|p r0 IH]; simpl; intros m; [lia|]. specialize (IH m). lia. }
  intros [H|H].
  - injection H as <- <-. apply Hf.
  - revert H. generalize (List.length l0). induction r as [|p r IH]; simpl; [tauto|].
    intros m [->|H]; simpl; [lia|]. specialize (IH m H). lia.
Qed.

Lemma get_series_In (st : store) k : NoDup (map fst st) -> forall l, List.In (k, l) st -> get_series k st = l.
Proof.
  induction st as [|[k0 l0] r IH]; simpl; intros Hnd l; [tauto|].
  inversion Hnd as [|? ? Hk Hr]; subst. intros [H|H].
  - injection H as <- <-. now rewrite String.eqb_refl.
  - destruct (String.eqb_spec k k0) as [->|Hn]; [|auto].
    exfalso. apply Hk. apply in_map_iff. exists (k0, l). auto.
Qed.

(** Row [i] (for [i] below the shortest length) has, under every header name, the formatted
    [i]-th value of that series. *)
Theorem rows_cell (st : store) i : NoDup (map fst st) -> i < min_len st ->
  nth_error (rows fmt st) i = Some (map (cell fmt st i) (header st)) /\
  forall k l, List.In (k, l) st -> exists x, nth_error l i = Some x /\ cell fmt st i k = fmt x.
Proof.
  intros Hnd Hi. split.
  - unfold rows. rewrite nth_error_map, nth_error_nth' with (d := 0) by (rewrite seq_length; exact Hi).
    rewrite seq_nth by exact Hi. reflexivity.
  - intros k l Hin. pose proof (min_len_le st k l Hin) as Hle.
    destruct (nth_error l i) as [x|] eqn:Hx.
    + exists x. split; [reflexivity|]. unfold cell. rewrite (get_series_In st k Hnd l Hin), Hx. reflexivity.
    + apply nth_error_None in Hx. lia.
Qed.

End Rows.

(* ------------------------------------------------------------------ *)
(** * C19_parse: the text splits back into header and cells *)

Definition TABc : ascii := "009"%char.
Definition NLc : ascii := "010"%char.

Definition clean (s : string) : Prop := contains_char TABc s = false /\ contains_char NLc s = false.

Lemma contains_char_app c s t : contains_char c (s ++ t) = contains_char c s || contains_char c t.
Proof. induction s as [|a s IH]; simpl; [reflexivity|]. destruct (Ascii.eqb a c); auto. Qed.

Lemma split_char_clean c s : contains_char c s = false -> split_char c s = [s].
Proof.
  induction s as [|a s IH]; simpl; [reflexivity|].
  destruct (Ascii.eqb a c); [discriminate|]. intros H. now rewrite (IH H).
Qed.

Lemma split_char_app c s r : contains_char c s = false ->
  split_char c (s ++ String c r) = s :: split_char c r.
Proof.
  induction s as [|a s IH]; simpl; intros H.
  - now rewrite Ascii.eqb_refl.
  - destruct (Ascii.eqb a c); [discriminate|]. now rewrite (IH H).
Qed.

Lemma split_join c l : l <> [] -> Forall (fun s => contains_char c s = false) l ->
  split_char c (join (String c EmptyString) l) = l.
Proof.
  unfold join. induction l as [|s l IH]; [congruence|]. intros _ Hall.
  inversion Hall as [|? ? Hs Hl]; subst. destruct l as [|s' l].
  - simpl. now apply split_char_clean.
  - change (String.concat (String c "") (s :: s' :: l))
      with (s ++ String c (String.concat (String c "") (s' :: l))).
    rewrite split_char_app by assumption. f_equal. apply IH; [congruence|assumption].
Qed.

Lemma contains_join c sep l : contains_char c sep = false ->
  Forall (fun s => contains_char c s = false) l -> contains_char c (join sep l) = false.
Proof.
  unfold join. intros Hsep. induction l as [|s l IH]; intros Hall; [reflexivity|].
  inversion Hall as [|? ? Hs Hl]; subst. destruct l as [|s' l]; [exact Hs|].
  change (String.concat sep (s :: s' :: l)) with (s ++ sep ++ String.concat sep (s' :: l)).
  rewrite !contains_char_app, Hs, Hsep, (IH Hl). reflexivity.
Qed.

Lemma split_lines (ls : list string) : Forall (fun s => contains_char NLc s = false) ls ->
  split_char NLc (String.concat "" (map (fun l => l ++ NL) ls)) = (ls ++ [""])%list.
Proof.
  induction ls as [|l ls IH]; intros Hall; [reflexivity|].
  inversion Hall as [|? ? Hl Hls]; subst.
  assert (E : String.concat "" (map (fun l0 => l0 ++ NL) (l :: ls))
              = l ++ String NLc (String.concat "" (map (fun l0 => l0 ++ NL) ls))).
  { simpl. destruct (map (fun l0 => l0 ++ NL) ls) eqn:Hm.
    - simpl. unfold NL. reflexivity.
    - unfold NL. rewrite append_assoc. reflexivity. }
  rewrite E, split_char_app by assumption. simpl. f_equal. now apply IH.
Qed.

Lemma concat_cons (x : string) (xs : list string) :
  String.concat "" (x :: xs) = x ++ String.concat "" xs.
Proof. destruct xs as [|y ys]; simpl; [now rewrite append_nil_r|reflexivity]. Qed.

(** The reader: split into lines, drop the empty tail after the final newline, split each at tabs. *)
Definition parse (text : string) : list (list string) :=
  map (split_char TABc) (removelast (split_char NLc text)).

Theorem parse_table (t : list (list string)) :
  Forall (fun r => r <> [] /\ Forall clean r) t ->
  parse (String.concat "" (map line t)) = t.
Proof.
  intros Hall. unfold parse.
  assert (Hl : Forall (fun s => contains_char NLc s = false) (map (join TAB) t)).
  { rewrite Forall_forall in *. intros s Hs. apply in_map_iff in Hs as (r & <- & Hr).
    destruct (Hall r Hr) as (_ & Hc). apply contains_join; [reflexivity|].
    rewrite Forall_forall in *. intros x Hx. apply (Hc x Hx). }
  assert (E : map line t = map (fun l => l ++ NL) (map (join TAB) t)).
  { rewrite map_map. reflexivity. }
  rewrite E, (split_lines _ Hl), removelast_last, map_map.
  rewrite <- (map_id t) at 2. apply map_ext_in. intros r Hr.
  rewrite Forall_forall in Hall. destruct (Hall r Hr) as (Hne & Hc).
  apply (split_join TABc r Hne). rewrite Forall_forall in *. intros x Hx. apply (Hc x Hx).
Qed.

Section Parse.
Variable V : Type.
Variable fmt : V -> string.
Hypothesis fmt_clean : forall x, clean (fmt x).

(** C19_parse: for a non-empty holder whose names contain no tab or newline, reading the text
    back yields the header followed by exactly the formatted cells. *)
Theorem csv_parse (st : list (string * list V)) :
  st <> [] -> Forall clean (map fst st) ->
  parse (csv fmt st) = header st :: rows fmt st.
Proof.
  intros Hne Hnames. unfold csv.
  assert (Hh : header st <> []).
  { unfold header. intros E. destruct st as [|[k l] r]; [congruence|].
    pose proof (series_list_perm (map fst ((k, l) :: r))) as P. rewrite E in P.
    apply Permutation_sym, Permutation_nil in P. discriminate. }
  assert (Hhc : Forall clean (header st)).
  { rewrite Forall_forall in *. intros x Hx. apply Hnames.
    eapply Permutation_in; [apply Permutation_sym, series_list_perm|exact Hx]. }
  destruct (header st) as [|h0 hs] eqn:Eh; [congruence|].
  rewrite <- (concat_cons (line (h0 :: hs)) (map line (rows fmt st))).
  change (line (h0 :: hs) :: map line (rows fmt st)) with (map line ((h0 :: hs) :: rows fmt st)).
  - apply parse_table. constructor; [split; [congruence|exact Hhc]|].
    rewrite Forall_forall. intros r Hr. unfold rows in Hr. apply in_map_iff in Hr as (i & <- & _).
    unfold row. rewrite Eh. split; [simpl; congruence|].
    rewrite Forall_forall. intros c Hc. apply in_map_iff in Hc as (v & <- & _).
    unfold cell. destruct (nth_error (get_series v st) i); [apply fmt_clean|split; reflexivity].
Qed.

End Parse.
