(** Boolean comparison helpers used by the generated correspondence cases (C16, C19). *)
From Coq Require Import List String Bool ZArith.
From SFC.Base Require Import Res.
From SFC.Out Require Import Series Csv.
Import ListNotations.

Fixpoint list_eqb {A} (eqb : A -> A -> bool) (a b : list A) : bool :=
  match a, b with
  | [], [] => true
  | x :: a', y :: b' => eqb x y && list_eqb eqb a' b'
  | _, _ => false
  end.

Definition res_eqb {A} (eqb : A -> A -> bool) (a b : result A) : bool :=
  match a, b with
  | Ok x, Ok y => eqb x y
  | Err e, Err f => err_eqb e f
  | _, _ => false
  end.

Definition opt_eqb {A} (eqb : A -> A -> bool) (a b : option A) : bool :=
  match a, b with
  | Some x, Some y => eqb x y
  | None, None => true
  | _, _ => false
  end.

Definition zl_eqb := list_eqb Z.eqb.
Definition view1_eqb (a b : list (string * list Z)) : bool :=
  list_eqb (fun p q => String.eqb (fst p) (fst q) && zl_eqb (snd p) (snd q)) a b.

(** One C16 history: outputs of every op and the final contents of the three holders. *)
Definition c16_case (st0 : state Z) (ops : list (op Z))
           (outs : list (option (result (list Z))))
           (vm vs vi : list (string * list Z)) : bool :=
  let '(st, o) := run get st0 ops in
  list_eqb (opt_eqb (res_eqb zl_eqb)) o outs &&
  (let '(a, b, c) := view st in view1_eqb a vm && view1_eqb b vs && view1_eqb c vi).

Definition c16_csv_case (vl : list string) (attrs : list (string * list string))
           (text1 : result string) (vl_after : list string) (text2 : result string) : bool :=
  let '(t1, vl1) := create_csv vl attrs in
  let '(t2, vl2) := create_csv vl1 attrs in
  res_eqb String.eqb t1 text1 && list_eqb String.eqb vl1 vl_after && res_eqb String.eqb t2 text2.

(** One C19 table: cells are pre-formatted by Python ([fmt] = identity). *)
Definition c19_case (st : list (string * list string)) (text : string) (hdr : list string) : bool :=
  String.eqb (csv (fun s : string => s) st) text &&
  list_eqb String.eqb (series_list (map fst st)) hdr.
