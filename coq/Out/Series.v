(** Model of result retrieval ([Model.GetTimeSeries], sfc_models/models.py) with Python's
    reference semantics made explicit: list objects live in a heap, the three series holders
    map names to heap addresses, and a retrieval returns an *address*.  The caller may then
    mutate the object at that address ([Mutate]).  Whether a retrieval returns the stored
    object itself (aliasing) or a fresh copy is therefore visible in the model:
    [get] mirrors the current code, [get_orig] the code before the "fix:" commit
    (it returned the stored list when there was no cutoff and popped the stored list under
    time-zero suppression); [C16_orig_refuted] in PropC16.v keeps the witness. *)
From Coq Require Import List String Bool Arith Lia.
From SFC.Base Require Import Res.
Import ListNotations.

Section Series.
Variable V : Type.

Definition addr := nat.
Definition holder := list (string * addr).

Record state := mkState {
  heap : list (list V);
  h_main : holder;            (* EquationSolver.TimeSeries *)
  h_step : holder;            (* EquationSolver.TimeSeriesStepTrace *)
  h_init : holder;            (* EquationSolver.TimeSeriesInitialSteadyState *)
  cutoff0 : option nat;       (* Model.TimeSeriesCutoff *)
  suppress : bool;            (* Model.TimeSeriesSupressTimeZero *)
  last : option addr          (* the list object most recently handed to the caller *)
}.

Fixpoint lookup (n : string) (h : holder) : option addr :=
  match h with
  | [] => None
  | (k, a) :: r => if String.eqb n k then Some a else lookup n r
  end.

Definition deref (hp : list (list V)) (a : addr) : list V := nth a hp [].

Fixpoint set_nth {A} (n : nat) (x : A) (l : list A) : list A :=
  match n, l with
  | _, [] => []
  | 0, _ :: r => x :: r
  | S n', y :: r => y :: set_nth n' x r
  end.

(** group_of_series: 'step' and 'initial' select the other holders, anything else the main one. *)
Definition holder_of (group : string) (st : state) : holder :=
  if String.eqb group "step" then h_step st
  else if String.eqb group "initial" then h_init st
  else h_main st.

Definition with_heap (st : state) (hp : list (list V)) (l : option addr) : state :=
  mkState hp (h_main st) (h_step st) (h_init st) (cutoff0 st) (suppress st) l.

(** Current code: slice or copy, then pop(0) on the copy. *)
Definition get (group name : string) (cutoff : option nat) (st : state) : result (list V) * state :=
  let c := match cutoff with Some c => Some c | None => cutoff0 st end in
  match lookup name (holder_of group st) with
  | None => (Err KeyError, st)
  | Some a =>
      let l := deref (heap st) a in
      let v := match c with None => l | Some c => firstn (c + 1) l end in
      let a' := List.length (heap st) in
      if suppress st then
        match v with
        | [] => (Err IndexError, with_heap st (heap st ++ [v]) (last st))
        | _ :: t => (Ok t, with_heap st (heap st ++ [t]) (Some a'))
        end
      else (Ok v, with_heap st (heap st ++ [v]) (Some a'))
  end.

(** Code before the fix: no copy when there is no cutoff; pop(0) hits whatever [val] refers to. *)
Definition get_orig (group name : string) (cutoff : option nat) (st : state) : result (list V) * state :=
  let c := match cutoff with Some c => Some c | None => cutoff0 st end in
  match lookup name (holder_of group st) with
  | None => (Err KeyError, st)
  | Some a =>
      let l := deref (heap st) a in
      match c with
      | None =>
          if suppress st then
            match l with
            | [] => (Err IndexError, st)
            | _ :: t => (Ok t, with_heap st (set_nth a t (heap st)) (Some a))
            end
          else (Ok l, with_heap st (heap st) (Some a))
      | Some c =>
          let v := firstn (c + 1) l in
          let a' := List.length (heap st) in
          if suppress st then
            match v with
            | [] => (Err IndexError, with_heap st (heap st ++ [v]) (last st))
            | _ :: t => (Ok t, with_heap st (heap st ++ [t]) (Some a'))
            end
          else (Ok v, with_heap st (heap st ++ [v]) (Some a'))
      end
  end.

(** Caller-side mutations of a returned list. *)
Inductive mutation :=
| MAppend (v : V)
| MPop0
| MClear
| MSet (i : nat) (v : V).

Definition mutate (m : mutation) (l : list V) : list V :=
  match m with
  | MAppend v => l ++ [v]
  | MPop0 => tl l
  | MClear => []
  | MSet i v => set_nth i v l
  end.

Inductive op :=
| Get (group name : string) (cutoff : option nat)
| MutateLast (m : mutation)
| SetSuppress (b : bool)
| SetCutoff (c : option nat).

Definition step (g : string -> string -> option nat -> state -> result (list V) * state)
           (st : state) (o : op) : state * option (result (list V)) :=
  match o with
  | Get group name c => let '(r, st') := g group name c st in (st', Some r)
  | MutateLast m =>
      match last st with
      | None => (st, None)
      | Some a => (with_heap st (set_nth a (mutate m (deref (heap st) a)) (heap st)) (last st), None)
      end
  | SetSuppress b => (mkState (heap st) (h_main st) (h_step st) (h_init st) (cutoff0 st) b (last st), None)
  | SetCutoff c => (mkState (heap st) (h_main st) (h_step st) (h_init st) c (suppress st) (last st), None)
  end.

Fixpoint run (g : string -> string -> option nat -> state -> result (list V) * state)
         (st : state) (ops : list op) : state * list (option (result (list V))) :=
  match ops with
  | [] => (st, [])
  | o :: r => let '(st', out) := step g st o in
              let '(st'', outs) := run g st' r in (st'', out :: outs)
  end.

(** What a reader can observe of the stored results: each holder as name -> contents. *)
Definition view_holder (hp : list (list V)) (h : holder) : list (string * list V) :=
  map (fun p => (fst p, deref hp (snd p))) h.
Definition view (st : state) :=
  (view_holder (heap st) (h_main st), view_holder (heap st) (h_step st), view_holder (heap st) (h_init st)).

(** Well-formed: every stored address is allocated; nothing has been handed out yet. *)
Definition holder_ok (n : nat) (h : holder) : Prop := Forall (fun p => snd p < n) h.
Definition wf (st : state) : Prop :=
  holder_ok (List.length (heap st)) (h_main st) /\ holder_ok (List.length (heap st)) (h_step st) /\
  holder_ok (List.length (heap st)) (h_init st) /\ last st = None.

End Series.

Arguments mkState {V}.
Arguments heap {V}. Arguments h_main {V}. Arguments h_step {V}. Arguments h_init {V}.
Arguments cutoff0 {V}. Arguments suppress {V}. Arguments last {V}.
Arguments lookup n h.
Arguments deref {V}. Arguments set_nth {A}.
Arguments holder_of {V}. Arguments get {V}. Arguments get_orig {V}.
Arguments MAppend {V}. Arguments MPop0 {V}. Arguments MClear {V}. Arguments MSet {V}.
Arguments mutate {V}. Arguments Get {V}. Arguments MutateLast {V}. Arguments SetSuppress {V}. Arguments SetCutoff {V}.
Arguments step {V}. Arguments run {V}. Arguments view {V}. Arguments view_holder {V}. Arguments wf {V}.
Arguments with_heap {V}.
