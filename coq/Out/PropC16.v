(** C16 — Reading results never changes them.  Property theorems only; proofs are in
    SeriesProofs.v / CsvProofs.v.  Model: Series.v (heap + holders + retrieval), Csv.v. *)
From Coq Require Import List String Bool Arith.
From SFC.Base Require Import Res.
From SFC.Out Require Import Series SeriesProofs Csv CsvProofs.
Import ListNotations.
Local Open Scope string_scope.

(** After any history of retrievals (any group, name, cutoff), caller-side mutations of the
    returned lists, and changes of the suppression flag / default cutoff, every stored series
    of every holder is unchanged. *)
Theorem C16_frame : forall (V : Type) (st0 : state V) (ops : list (op V)),
  wf st0 -> view (fst (run get st0 ops)) = view st0.
Proof. exact frame. Qed.
Print Assumptions C16_frame.

(** A retrieval made after any history returns the first cutoff+1 points of the series as it
    was stored initially (all points without cutoff), minus the k=0 point under suppression. *)
Theorem C16_value : forall (V : Type) (st0 : state V) (ops : list (op V)) group name c a,
  wf st0 -> lookup name (holder_of group st0) = Some a ->
  let st := fst (run get st0 ops) in
  fst (get group name c st) =
  expected V (deref (heap st0) a) (match c with Some c => Some c | None => cutoff0 st end) (suppress st).
Proof. exact value_after_history. Qed.
Print Assumptions C16_value.

(** Rendering the stored results is a function of the stored results alone, hence repeatable
    across any history. *)
Theorem C16_csv_repeatable : forall (V : Type) (fmt : V -> string) (st0 : state V) (ops : list (op V)),
  wf st0 ->
  csv fmt (view_holder (heap (fst (run get st0 ops))) (h_main (fst (run get st0 ops)))) =
  csv fmt (view_holder (heap st0) (h_main st0)).
Proof.
  intros V fmt st0 ops Hwf. pose proof (frame V st0 ops Hwf) as H. unfold view in H.
  injection H as H1 _ _. now rewrite H1.
Qed.
Print Assumptions C16_csv_repeatable.

(** [BaseSolver.CreateCsvString] leaves the variable list as it found it, so a second call
    renders the same text. *)
Theorem C16_create_csv_repeatable : forall vl attrs,
  snd (create_csv vl attrs) = vl /\
  fst (create_csv (snd (create_csv vl attrs)) attrs) = fst (create_csv vl attrs).
Proof. intros vl attrs. split; reflexivity. Qed.
Print Assumptions C16_create_csv_repeatable.

(** Non-vacuity: a well-formed state with content, and a history that exercises aliasing. *)
Definition ex_state : state nat :=
  mkState [[1; 2; 3]; [7; 8]] [("x", 0); ("y", 1)] [] [] None true None.
Definition ex_ops : list (op nat) :=
  [Get "main" "x" None; MutateLast (MAppend 99); Get "main" "x" None; MutateLast MClear;
   SetSuppress false; Get "main" "x" (Some 1); MutateLast (MSet 0 5); Get "main" "x" None].

Example C16_wf_example : wf ex_state.
Proof. unfold wf, holder_ok, ex_state; simpl. repeat split; repeat constructor. Qed.
Print Assumptions C16_wf_example.

Example C16_example_outputs :
  snd (run get ex_state ex_ops) =
  [Some (Ok [2; 3]); None; Some (Ok [2; 3]); None; None; Some (Ok [1; 2]); None; Some (Ok [1; 2; 3])].
Proof. vm_compute. reflexivity. Qed.
Print Assumptions C16_example_outputs.

(** The code as it was before the "fix:" commits violates the property; the witnesses are the
    replays of the findings (known_findings.json, fixed: C16). *)
Theorem C16_orig_refuted :
  exists (st0 : state nat) (ops : list (op nat)),
    wf st0 /\ view (fst (run get_orig st0 ops)) <> view st0.
Proof.
  exists ex_state, [Get "main" "x" None]. split; [exact C16_wf_example|]. vm_compute. discriminate.
Qed.
Print Assumptions C16_orig_refuted.

Theorem C16_create_csv_orig_refuted :
  exists vl attrs, snd (create_csv_orig vl attrs) <> vl.
Proof. exists ["x"; "t"; "y"], []. vm_compute. discriminate. Qed.
Print Assumptions C16_create_csv_orig_refuted.
