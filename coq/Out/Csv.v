(** Model of the tab-delimited output:
    [TimeSeriesHolder.GetSeriesList] / [GenerateCSVtext] (sfc_models/utils.py) and
    [BaseSolver.CreateCsvString] (sfc_models/base_solver.py).
    [%]-formatting of a cell is the parameter [fmt] (Python/C printf is trusted, not modelled);
    the only thing proofs assume of it is stated where needed (no tab / newline in a cell). *)
From Coq Require Import List String Ascii Bool Arith Lia.
From SFC.Base Require Import Res Str Sorting.
Import ListNotations.
Local Open Scope string_scope.

Definition priority : list string :=
  ["iteration"; "iteration_error"; "iteration_abs_change"; "k"; "t"].

(** for x in SortPriority: if x in serlist: included.append(x); serlist.remove(x) *)
Fixpoint pull (prio ser : list string) : list string * list string :=
  match prio with
  | [] => ([], ser)
  | x :: r =>
      if mem x ser then let '(inc, rest) := pull r (remove_first x ser) in (x :: inc, rest)
      else pull r ser
  end.

Definition series_list (keys : list string) : list string :=
  let '(inc, rest) := pull priority (sort keys) in inc ++ rest.

Definition TAB : string := String "009"%char EmptyString.
Definition NL : string := String "010"%char EmptyString.

Section Csv.
Variable V : Type.
Variable fmt : V -> string.

Definition store := list (string * list V).

Fixpoint get_series (n : string) (st : store) : list V :=
  match st with
  | [] => []
  | (k, l) :: r => if String.eqb n k then l else get_series n r
  end.

Definition min_len (st : store) : nat :=
  match st with
  | [] => 0
  | (_, l) :: r => fold_right (fun p m => Nat.min (List.length (snd p)) m) (List.length l) r
  end.

Definition cell (st : store) (i : nat) (v : string) : string :=
  match nth_error (get_series v st) i with Some x => fmt x | None => "" end.

Definition header (st : store) : list string := series_list (map fst st).
Definition row (st : store) (i : nat) : list string := map (cell st i) (header st).
Definition rows (st : store) : list (list string) := map (row st) (seq 0 (min_len st)).

Definition line (cells : list string) : string := join TAB cells ++ NL.

(** GenerateCSVtext *)
Definition csv (st : store) : string :=
  match header st with
  | [] => ""
  | h => line h ++ String.concat "" (map line (rows st))
  end.

End Csv.

Arguments get_series {V}. Arguments min_len {V}. Arguments cell {V}. Arguments header {V}.
Arguments row {V}. Arguments rows {V}. Arguments csv {V}.

(** [BaseSolver.CreateCsvString]: the object has a [VariableList] (a shared, mutable list) and
    one list attribute per variable, already rendered with [str].  Returns the text and the
    [VariableList] as it is after the call.  [create_csv] is the current code (works on a copy);
    [create_csv_orig] the code before the "fix:" commit (removed 't' from the shared list). *)
Definition reorder (vl : list string) : list string :=
  if mem "t" vl then "t" :: remove_first "t" vl else vl.

Definition csv_body (attrs : list (string * list string)) (varlist : list string) : result string :=
  match varlist with
  | [] => Err IndexError
  | v0 :: _ =>
      let n := List.length (get_series v0 attrs) in
      let cells i := map (fun v => nth_error (get_series v attrs) i) varlist in
      let fix lines (is : list nat) : result string :=
        match is with
        | [] => Ok ""
        | i :: r =>
            if forallb (fun c => match c with Some _ => true | None => false end) (cells i)
            then bind (lines r) (fun rest =>
                   Ok (line (map (fun c => match c with Some x => x | None => "" end) (cells i)) ++ rest))
            else Err IndexError
        end in
      bind (lines (seq 0 n)) (fun body => Ok (line varlist ++ body))
  end.

Definition create_csv (vl : list string) (attrs : list (string * list string)) : result string * list string :=
  (csv_body attrs (reorder vl), vl).

Definition create_csv_orig (vl : list string) (attrs : list (string * list string)) : result string * list string :=
  (csv_body attrs (reorder vl), if mem "t" vl then remove_first "t" vl else vl).
