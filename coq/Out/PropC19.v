(** C19 — Tab-delimited output is a faithful table of the results.  Property theorems only;
    proofs in CsvProofs.v; model in Csv.v.  [fmt] is Python's [format_str % (x,)], trusted. *)
From Coq Require Import List String Bool Arith Sorted Permutation.
From SFC.Base Require Import Res Str Sorting.
From SFC.Out Require Import Csv CsvProofs.
Import ListNotations.
Local Open Scope string_scope.

(** The header names every stored series exactly once. *)
Theorem C19_header_once : forall keys x, NoDup keys -> List.In x keys ->
  count_occ string_dec (series_list keys) x = 1.
Proof. exact series_list_once. Qed.
Print Assumptions C19_header_once.

Theorem C19_header_perm : forall keys, Permutation keys (series_list keys).
Proof. exact series_list_perm. Qed.
Print Assumptions C19_header_perm.

(** Iteration/time columns first, in the documented priority order; the rest ascending. *)
Theorem C19_header_order : forall keys, NoDup keys ->
  exists rest,
    series_list keys = (filter (fun x => mem x keys) priority ++ rest)%list /\
    StronglySorted sle rest /\
    (forall y, List.In y rest -> List.In y keys /\ ~ List.In y priority).
Proof. exact series_list_shape. Qed.
Print Assumptions C19_header_order.

(** One data row per period up to the shortest series. *)
Theorem C19_row_count : forall (V : Type) (fmt : V -> string) (st : list (string * list V)),
  List.length (rows fmt st) = min_len st.
Proof. exact rows_length. Qed.
Print Assumptions C19_row_count.

(** Each cell is the corresponding value rendered with the requested format. *)
Theorem C19_cells : forall (V : Type) (fmt : V -> string) (st : list (string * list V)) i,
  NoDup (map fst st) -> i < min_len st ->
  nth_error (rows fmt st) i = Some (map (cell fmt st i) (header st)) /\
  forall k l, List.In (k, l) st -> exists x, nth_error l i = Some x /\ cell fmt st i k = fmt x.
Proof. exact rows_cell. Qed.
Print Assumptions C19_cells.

(** Splitting the text at newlines and tabs recovers the header and every formatted cell. *)
Theorem C19_parse : forall (V : Type) (fmt : V -> string),
  (forall x, clean (fmt x)) ->
  forall st : list (string * list V), st <> [] -> Forall clean (map fst st) ->
  parse (csv fmt st) = header st :: rows fmt st.
Proof. exact csv_parse. Qed.
Print Assumptions C19_parse.

(** After a solve in which every series has horizon+1 points (C10) there are horizon+1 rows. *)
Theorem C19_solved_rows : forall (V : Type) (fmt : V -> string) (st : list (string * list V)) T,
  st <> [] -> Forall (fun p => List.length (snd p) = T + 1) st ->
  List.length (rows fmt st) = T + 1.
Proof.
  intros V fmt st T Hne Hall. rewrite rows_length.
  destruct st as [|[k l] r]; [congruence|]. simpl.
  inversion Hall as [|? ? Hl Hr]; subst. simpl in Hl. rewrite Hl. clear Hl Hall Hne.
  induction r as [|[k' l'] r IH]; simpl; [reflexivity|].
  inversion Hr as [|? ? Hl' Hr']; subst. simpl in Hl'. rewrite Hl', (IH Hr'). apply Nat.min_id.
Qed.
Print Assumptions C19_solved_rows.

(** Non-vacuity and a concrete rendering. *)
Example C19_example :
  csv (fun s : string => s) [("y", ["1"; "2"]); ("t", ["0"; "1"; "2"]); ("a", ["5"; "6"; "7"]); ("k", ["0"; "1"])]
  = "k" ++ TAB ++ "t" ++ TAB ++ "a" ++ TAB ++ "y" ++ NL ++
    "0" ++ TAB ++ "0" ++ TAB ++ "5" ++ TAB ++ "1" ++ NL ++
    "1" ++ TAB ++ "1" ++ TAB ++ "6" ++ TAB ++ "2" ++ NL.
Proof. vm_compute. reflexivity. Qed.
Print Assumptions C19_example.
