(** Proofs about [Series.v]: reading never changes the stored results (C16). *)
From Coq Require Import List String Bool Arith Lia.
From SFC.Base Require Import Res.
From SFC.Out Require Import Series.
Import ListNotations.

Section Proofs.
Variable V : Type.
Notation state := (state V).

Lemma deref_app_lt (hp : list (list V)) v a : a < List.length hp -> deref (hp ++ [v]) a = deref hp a.
Proof. intros H. unfold deref. now rewrite app_nth1. Qed.

Lemma set_nth_length {A} n (x : A) l : List.length (set_nth n x l) = List.length l.
Proof. revert n; induction l as [|y l IH]; intros [|n]; simpl; auto. Qed.

Lemma deref_set_nth_other (hp : list (list V)) a b x : a <> b -> deref (set_nth a x hp) b = deref hp b.
Proof.
  unfold deref. revert a b; induction hp as [|y hp IH]; intros [|a] [|b] Hne; simpl; auto; try congruence.
Qed.

(** The invariant carried along a history that starts in [st0] (heap size [n0] at the start). *)
Record Inv (st0 st : state) : Prop := {
  inv_len : List.length (heap st0) <= List.length (heap st);
  inv_old : forall a, a < List.length (heap st0) -> deref (heap st) a = deref (heap st0) a;
  inv_main : h_main st = h_main st0;
  inv_step : h_step st = h_step st0;
  inv_init : h_init st = h_init st0;
  inv_last : forall a, last st = Some a -> List.length (heap st0) <= a
}.

Lemma Inv_refl (st0 : state) : wf st0 -> Inv st0 st0.
Proof.
  intros (_ & _ & _ & Hl). constructor; auto. intros a Ha. rewrite Hl in Ha. discriminate.
Qed.

Lemma Inv_alloc (st0 st : state) v l' :
  Inv st0 st -> (forall a, l' = Some a -> List.length (heap st0) <= a) ->
  Inv st0 (with_heap st (heap st ++ [v]) l').
Proof.
  intros [H1 H2 H3 H4 H5 H6] Hl. constructor; simpl; auto.
  - rewrite app_length. simpl. lia.
  - intros a Ha. rewrite deref_app_lt by lia. auto.
Qed.

Lemma get_inv (st0 st : state) group name c :
  Inv st0 st -> Inv st0 (snd (get group name c st)).
Proof.
  intros HI. unfold get.
  destruct (lookup name (holder_of group st)) as [a|]; [|exact HI].
  set (v := match match c with Some c0 => Some c0 | None => cutoff0 st end with
            | Some c0 => firstn (c0 + 1) (deref (heap st) a) | None => deref (heap st) a end).
  clearbody v. destruct (suppress st).
  - destruct v as [|x t]; simpl.
    + apply Inv_alloc; [exact HI|]. intros b Hb. now apply (inv_last _ _ HI).
    + apply Inv_alloc; [exact HI|]. intros b Hb. injection Hb as <-. apply (inv_len _ _ HI).
  - simpl. apply Inv_alloc; [exact HI|]. intros b Hb. injection Hb as <-. apply (inv_len _ _ HI).
Qed.

Lemma step_inv (st0 st : state) (o : op V) : Inv st0 st -> Inv st0 (fst (step get st o)).
Proof.
  intros HI. destruct o as [g n c|m|b|c]; simpl.
  - pose proof (get_inv st0 st g n c HI) as H. destruct (get g n c st) as [r st']. exact H.
  - destruct (last st) as [a|] eqn:Hl; [|exact HI]. simpl.
    pose proof (inv_last _ _ HI a Hl) as Ha.
    destruct HI as [H1 H2 H3 H4 H5 H6]. constructor; simpl; auto.
    + now rewrite set_nth_length.
    + intros b Hb. rewrite deref_set_nth_other by lia. auto.
    + intros b Hb. apply H6. congruence.
  - destruct HI as [H1 H2 H3 H4 H5 H6]. constructor; simpl; auto.
  - destruct HI as [H1 H2 H3 H4 H5 H6]. constructor; simpl; auto.
Qed.

Lemma run_inv (st0 : state) (ops : list (op V)) : forall st : state, Inv st0 st -> Inv st0 (fst (run get st ops)).
Proof.
  induction ops as [|o ops IH]; intros st HI; simpl; [exact HI|].
  pose proof (step_inv st0 st o HI) as Hs.
  destruct (step get st o) as [st' out]. simpl in Hs.
  specialize (IH st' Hs). destruct (run get st' ops) as [st'' outs]. exact IH.
Qed.

Lemma view_holder_inv (hp0 hp : list (list V)) (h : holder) :
  holder_ok (List.length hp0) h ->
  (forall a, a < List.length hp0 -> deref hp a = deref hp0 a) ->
  view_holder hp h = view_holder hp0 h.
Proof.
  intros Hok Hold. unfold view_holder. apply map_ext_in. intros [k a] Hin. simpl.
  f_equal. apply Hold. unfold holder_ok in Hok. rewrite Forall_forall in Hok. apply (Hok _ Hin).
Qed.

Lemma Inv_view (st0 st : state) : wf st0 -> Inv st0 st -> view st = view st0.
Proof.
  intros (Hm & Hs & Hi & _) [H1 H2 H3 H4 H5 H6]. unfold view.
  rewrite H3, H4, H5.
  rewrite (view_holder_inv (heap st0) (heap st) (h_main st0) Hm H2).
  rewrite (view_holder_inv (heap st0) (heap st) (h_step st0) Hs H2).
  rewrite (view_holder_inv (heap st0) (heap st) (h_init st0) Hi H2).
  reflexivity.
Qed.

(** ** C16_frame: after any history of retrievals, caller-side mutations of returned lists and
    configuration changes, every stored series is what it was. *)
Theorem frame (st0 : state) (ops : list (op V)) : wf st0 -> view (fst (run get st0 ops)) = view st0.
Proof. intros Hwf. apply Inv_view; [exact Hwf|]. apply run_inv. now apply Inv_refl. Qed.

(** Same, at any intermediate point of a history (prefix closure). *)
Corollary frame_prefix (st0 : state) (ops1 ops2 : list (op V)) :
  wf st0 -> view (fst (run get st0 (ops1 ++ ops2))) = view (fst (run get st0 ops1)).
Proof. intros Hwf. now rewrite !frame. Qed.

(** ** C16_value: what a retrieval returns, in terms of the stored contents. *)
Definition expected (l : list V) (c : option nat) (supp : bool) : result (list V) :=
  let v := match c with None => l | Some c => firstn (c + 1) l end in
  if supp then match v with [] => Err IndexError | _ :: t => Ok t end else Ok v.

Lemma get_value (st : state) group name c a :
  lookup name (holder_of group st) = Some a ->
  fst (get group name c st) =
  expected (deref (heap st) a) (match c with Some c => Some c | None => cutoff0 st end) (suppress st).
Proof.
  intros Hl. unfold get, expected. rewrite Hl.
  destruct (suppress st); [|reflexivity].
  destruct (match match c with Some c0 => Some c0 | None => cutoff0 st end with
            | Some c0 => firstn (c0 + 1) (deref (heap st) a) | None => deref (heap st) a end); reflexivity.
Qed.

Lemma get_missing (st : state) group name c :
  lookup name (holder_of group st) = None -> get group name c st = (Err KeyError, st).
Proof. intros Hl. unfold get. now rewrite Hl. Qed.

(** Value of a retrieval made after an arbitrary history, in terms of the *initial* contents:
    the history cannot have influenced it except through the two configuration settings. *)
Theorem value_after_history (st0 : state) (ops : list (op V)) group name c a :
  wf st0 ->
  lookup name (holder_of group st0) = Some a ->
  let st := fst (run get st0 ops) in
  fst (get group name c st) =
  expected (deref (heap st0) a) (match c with Some c => Some c | None => cutoff0 st end) (suppress st).
Proof.
  intros Hwf Hl st.
  assert (HI : Inv st0 st) by (apply run_inv; now apply Inv_refl).
  assert (Hh : holder_of group st = holder_of group st0).
  { unfold holder_of. rewrite (inv_main _ _ HI), (inv_step _ _ HI), (inv_init _ _ HI). reflexivity. }
  rewrite (get_value st group name c a) by (now rewrite Hh).
  f_equal. apply (inv_old _ _ HI).
  destruct Hwf as (Hm & Hs & Hi & _).
  assert (Hall : forall h, holder_ok (List.length (heap st0)) h -> forall n x, lookup n h = Some x -> x < List.length (heap st0)).
  { induction h as [|[k b] h IH]; simpl; intros Hok n x Hx; [discriminate|].
    inversion Hok as [|? ? Hb Hr]; subst. destruct (String.eqb n k); [injection Hx as <-; exact Hb|eauto]. }
  unfold holder_of in Hl.
  destruct (String.eqb group "step"); [exact (Hall _ Hs _ _ Hl)|].
  destruct (String.eqb group "initial"); [exact (Hall _ Hi _ _ Hl)|exact (Hall _ Hm _ _ Hl)].
Qed.

End Proofs.
