(** Model of [EquationSolver.CalculateInitialSteadyState]
    (sfc_models/equation_solver.py:195-279), property C15.

    What is modelled
    - the acceptance test (lines 262-269) verbatim, once, generically in the arithmetic
      ([accept_gen]); it is instantiated at IEEE doubles ([accept], what the code computes and
      what the correspondence check compares bit for bit) and at the reals ([acceptR] in
      SteadyProofs.v, what the theorems are about);
    - the deep copy made explicit: [prepare_copy] builds the copy's series holder (exogenous
      series frozen at their k=0 value, negative time axis); the original solver record is
      never handed to the numerical core;
    - the T-step solve of the copy is NOT modelled: it is an argument ([steps] in [steady];
      in [search] its result -- the series the copy ended with and the exception it raised,
      if any -- is an input, supplied from [TimeSeriesInitialSteadyState] by the harness);
    - the conversion ConvergenceError -> ValueError, the installation of the copy's series as
      [TimeSeriesInitialSteadyState] (the [finally] clause), the loop over the solver's own
      series in dict order, the write-back [TimeSeries[var][0] = lastval] which happens
      variable by variable BEFORE the verdict, and the verdict.

    [accept] is the code after the proposed fix D15a (division by [abs(lastval)]);
    [accept_orig] is the code at /repo HEAD (division by the signed [lastval]). *)
From Coq Require Import List String Bool PrimFloat Uint63 ZArith.
From SFC.Base Require Import Res Str.
Import ListNotations.

(* ------------------------------------------------------------------ *)
(** * The acceptance test *)

Section Accept.
Variable K : Type.
Variable kabs : K -> K.
Variable ksub kdiv : K -> K -> K.
Variable kltb : K -> K -> bool.      (* Python [a < b]; [a > b] is [kltb b a] *)
Variable near : K.                   (* the literal 1e-4 *)

(** [bad = False; if abs(lastval-prev) > tol: (if abs(lastval) < 1e-4: bad = not abs(prev) < 1e-4
    else: err = abs(lastval-prev)/abs(lastval); bad = err > tol)]; returns [not bad]. *)
Definition accept_gen (tol lastv prev : K) : bool :=
  if kltb tol (kabs (ksub lastv prev)) then
    if kltb (kabs lastv) near then kltb (kabs prev) near
    else negb (kltb tol (kdiv (kabs (ksub lastv prev)) (kabs lastv)))
  else true.

(** /repo HEAD: [err = abs(lastval - prev) / lastval] (defect D15a). *)
Definition accept_orig_gen (tol lastv prev : K) : bool :=
  if kltb tol (kabs (ksub lastv prev)) then
    if kltb (kabs lastv) near then kltb (kabs prev) near
    else negb (kltb tol (kdiv (kabs (ksub lastv prev)) lastv))
  else true.
End Accept.

(** 1e-4 as Python reads it: [float.hex(1e-4) = 0x1.a36e2eb1c432dp-14]. *)
Definition near_f : float := 0x1.a36e2eb1c432dp-14%float.

Definition accept : float -> float -> float -> bool :=
  accept_gen float PrimFloat.abs PrimFloat.sub PrimFloat.div PrimFloat.ltb near_f.
Definition accept_orig : float -> float -> float -> bool :=
  accept_orig_gen float PrimFloat.abs PrimFloat.sub PrimFloat.div PrimFloat.ltb near_f.

(* ------------------------------------------------------------------ *)
(** * Series holders (insertion-ordered dicts of lists) *)

Section Search.
Variable V : Type.
Variable acc : V -> V -> bool.       (* [acc lastval prev]: the acceptance test at the configured tolerance *)

Definition series := list (string * list V).

Fixpoint lookup (n : string) (s : series) : option (list V) :=
  match s with
  | [] => None
  | (k, l) :: r => if String.eqb n k then Some l else lookup n r
  end.

Definition keys (s : series) : list string := map fst s.

(** [d[n] = l]: replace in place, append when absent. *)
Fixpoint set (n : string) (l : list V) (s : series) : series :=
  match s with
  | [] => [(n, l)]
  | (k, l0) :: r => if String.eqb n k then (k, l) :: r else (k, l0) :: set n l r
  end.

(** [(TS[-1], TS[-2])]; [None] is Python's IndexError. *)
Fixpoint last2 (l : list V) : option (V * V) :=
  match l with
  | [] => None
  | a :: r =>
      match r with
      | [] => None
      | [b] => Some (b, a)
      | _ :: _ => last2 r
      end
  end.

(** [d[n][0] = v]; [None] when the key is missing or the list empty (neither happens for a
    holder built by SetInitialConditions). *)
Fixpoint set_first (n : string) (v : V) (s : series) : option series :=
  match s with
  | [] => None
  | (k, l) :: r =>
      if String.eqb n k then
        match l with [] => None | _ :: t => Some ((k, v :: t) :: r) end
      else option_map (cons (k, l)) (set_first n v r)
  end.

(** The loop of lines 255-273 over a snapshot [ks] of the solver's own keys: [cp] is the
    copy's holder, [ts] the solver's own holder as written so far, [bad] the rejected names.
    An exception (missing key / too short a series) leaves the writes made so far in place. *)
Fixpoint scan (excluded : list string) (cp : series) (ks : list string) (ts : series)
         (bad : list string) : option err * series * list string :=
  match ks with
  | [] => (None, ts, bad)
  | var :: rest =>
      if mem var excluded then scan excluded cp rest ts bad
      else
        match lookup var cp with
        | None => (Some KeyError, ts, bad)
        | Some l =>
            match last2 l with
            | None => (Some IndexError, ts, bad)
            | Some (lastv, prev) =>
                if acc lastv prev then
                  match set_first var lastv ts with
                  | None => (Some IndexError, ts, bad)
                  | Some ts' => scan excluded cp rest ts' bad
                  end
                else scan excluded cp rest ts (bad ++ [var])%list
            end
        end
  end.

(** What the search leaves behind: the outcome, the solver's own [TimeSeries], and
    [TimeSeriesInitialSteadyState]. *)
Record outcome := mkOutcome { o_res : result unit; o_ts : series; o_holder : series }.

(** [search user_excluded own copy_ts copy_err]: everything after the copy's T steps.
    [copy_ts] = [new_solver.TimeSeries] when the steps ended, [copy_err] = the exception class
    they raised ([None]: they completed). *)
Definition search (user_excluded : list string) (own : series) (copy_ts : series)
           (copy_err : option err) : outcome :=
  match copy_err with
  | Some e =>
      (* except ConvergenceError: raise ValueError; except: raise; finally: install the holder *)
      mkOutcome (Err (if err_eqb e ConvergenceError then ValueError else e)) own copy_ts
  | None =>
      let excluded := "k"%string :: user_excluded in
      match scan excluded copy_ts (keys own) own [] with
      | (Some e, ts', _) => mkOutcome (Err e) ts' copy_ts
      | (None, ts', []) => mkOutcome (Ok tt) ts' copy_ts
      | (None, ts', _ :: _) => mkOutcome (Err NoEquilibrium) ts' copy_ts
      end
  end.

(* ------------------------------------------------------------------ *)
(** * The copy *)

(** The solver record as far as the search is concerned.  [P] is everything the parser
    holds (equation lists, initial conditions, MaxTime, Err_Tolerance). *)
Variable P : Type.

Record solver := mkSolver {
  s_parser : P;
  s_exo : list string;       (* names in Parser.Exogenous, in order (with the injected 'k') *)
  s_ts : series;             (* TimeSeries *)
  s_holder : series          (* TimeSeriesInitialSteadyState *)
}.

Variable negk : nat -> V.            (* [-float(i)] *)

(** [time_axis = [-float(x) for x in range(0, T+1)]; time_axis.reverse()]. *)
Definition time_axis (T : nat) : list V := rev (map negk (seq 0 (T + 1))).

(** [for var, dummy in Parser.Exogenous: TimeSeries[var] = [TimeSeries[var][0]] * (T+1)]
    on the COPY's holder. *)
Fixpoint freeze (T : nat) (names : list string) (s : series) : series :=
  match names with
  | [] => s
  | var :: rest =>
      match lookup var s with
      | Some (v0 :: _) => freeze T rest (set var (repeat v0 (T + 1)) s)
      | _ => freeze T rest s
      end
  end.

Definition prepare_copy (T : nat) (st : solver) : series :=
  set "k" (time_axis T) (freeze T (s_exo st) (s_ts st)).

(** The whole call.  [retune] is what is done to the COPY's parser (MaxTime := T,
    Err_Tolerance := tolerance) and [steps] is the numerical core run on the copy
    (T calls of SolveStep): it receives the copy's parser and holder and returns the holder
    it ends with and the exception, if any.  The original record is only read. *)
Definition steady (retune : P -> P) (steps : P -> series -> nat -> series * option err)
           (T : nat) (user_excluded : list string) (st : solver) : result unit * solver :=
  let '(cts, cerr) := steps (retune (s_parser st)) (prepare_copy T st) T in
  let o := search user_excluded (s_ts st) cts cerr in
  (o_res o, mkSolver (s_parser st) (s_exo st) (o_ts o) (o_holder o)).

End Search.

Arguments lookup {V} _ _.
Arguments keys {V} _.
Arguments set {V} _ _ _.
Arguments last2 {V} _.
Arguments set_first {V} _ _ _.
Arguments scan {V} _ _ _ _ _ _.
Arguments search {V} _ _ _ _ _.
Arguments mkOutcome {V} _ _ _.
Arguments o_res {V} _.
Arguments o_ts {V} _.
Arguments o_holder {V} _.
Arguments mkSolver {V P} _ _ _ _.
Arguments s_parser {V P} _.
Arguments s_exo {V P} _.
Arguments s_ts {V P} _.
Arguments s_holder {V P} _.
Arguments time_axis {V} _ _.
Arguments freeze {V} _ _ _.
Arguments prepare_copy {V P} _ _ _.
Arguments steady {V} _ {P} _ _ _ _ _ _.

(** IEEE-double instances used by the correspondence check. *)
Definition negk_f (i : nat) : float := PrimFloat.opp (PrimFloat.of_uint63 (Uint63.of_Z (Z.of_nat i))).

Definition search_f (tol : float) := @search float (accept tol).
Definition search_orig_f (tol : float) := @search float (accept_orig tol).
Definition prepare_copy_f (T : nat) (exo : list string) (own : list (string * list float)) :=
  @prepare_copy float unit negk_f T (mkSolver tt exo own []).
