(** C17 — Results depend only on the model, not on process history or diagnostics.
    Property theorems only; proofs are in ReuseProofs.v, the model in Reuse.v.

    Model boundary: the [EquationSolver] object as a state machine -- [ParseString],
    [SolveEquation] with its [VariableList] cache and the [k] entries it appends to
    [Parser.Exogenous], the attributes [TraceStep] and [MaxTime] -- over an abstract block
    parser [parse] and an abstract numerical core [core], a deterministic function of the
    parse result.  That the implementation's computed values ARE such a function (no
    dependence on other objects built earlier, on logging, on tracing, on the number of
    earlier solves) is what the oracle of harness/c17.py tests directly on the implementation;
    it is the trusted statement behind these theorems.  [Logger] is not modelled: no model
    function takes a logging state.  The model is the code AFTER the proposed fix D17
    ([ParseString] resets [VariableList]); [run_orig] is /repo HEAD. *)
From Coq Require Import List String Bool Arith.
From SFC.Base Require Import Res Str Sorting.
From SFC.Hist Require Import Reuse ReuseProofs.
Import ListNotations.
Local Open Scope string_scope.

Section C17.
Variable V : Type.
Variable zero : V.
Variable B : Type.
Variable X : Type.
Variable parse : B -> result (pinfo X).
Variable core : pinfo X -> core_result V.
Variable body0 : X.
Notation run := (Reuse.run V zero B X parse core).
Notation init := (Reuse.init V X body0).

(** After ANY history of operations on a solver, [ParseString b2; SolveEquation] works from
    exactly the variables of [b2] (under the horizon override in force), reports a name iff
    it is one of those or one of the series the core computed for [b2], and reports those
    series as computed. *)
Theorem C17_reuse : forall (h : list (op B)) b2 i2,
  parse b2 = Ok i2 ->
  let st := fst (run init h) in
  let i := with_maxtime i2 (s_maxtime st) in
  let st' := fst (run init (h ++ [ParseString b2; SolveEquation])) in
  s_varlist st' = vars i /\
  forall own e, core i = Ran own e ->
    (forall n, List.In n (keys (s_ts st')) <-> List.In n (vars i) \/ List.In n (keys own)) /\
    (NoDup (keys own) -> forall n l, lookup n own = Some l -> lookup n (s_ts st') = Some l).
Proof. exact (reuse V zero B X parse core body0). Qed.

(** With a core that reports the block's variables and k -- what a fresh solver does -- the
    solver reports exactly the block's variables and k: no remnants. *)
Theorem C17_reuse_exact : forall (h : list (op B)) b2 i2 own e,
  parse b2 = Ok i2 ->
  let st := fst (run init h) in
  let i := with_maxtime i2 (s_maxtime st) in
  core i = Ran own e ->
  (forall n, List.In n (keys own) <-> List.In n (vars i) \/ n = "k") ->
  forall n, List.In n (keys (s_ts (fst (run init (h ++ [ParseString b2; SolveEquation]))))) <->
            List.In n (vars i) \/ n = "k".
Proof. exact (reuse_exact V zero B X parse core body0). Qed.

(** Solving again gives the same series and the same outcome, after any history.  (The side
    condition holds for every parsed block: the parser injects the variable t.  The one
    difference between the two states is one more k entry in Parser.Exogenous, which the
    model carries in [s_kcount] and the core does not see.) *)
Theorem C17_resolve : forall (h : list (op B)),
  let st := fst (run init h) in
  s_varlist (fst (Reuse.solve V zero X core st)) <> [] ->
  let r1 := run init (h ++ [SolveEquation]) in
  let r2 := run init (h ++ [SolveEquation; SolveEquation]) in
  s_ts (fst r2) = s_ts (fst r1) /\ last (snd r2) (Ok tt) = last (snd r1) (Ok tt).
Proof. exact (resolve_history V zero B X parse core body0). Qed.

(** The outcome and series of [ParseString b; SolveEquation] depend on [b] and the horizon
    override only, not on the operations applied to the solver before. *)
Theorem C17_history_independent : forall (h1 h2 : list (op B)) m b i0,
  parse b = Ok i0 ->
  let tail_ops := [SetMaxTime m; ParseString b; SolveEquation] in
  let r1 := run init (h1 ++ tail_ops) in
  let r2 := run init (h2 ++ tail_ops) in
  last (snd r1) (Ok tt) = last (snd r2) (Ok tt) /\
  s_varlist (fst r1) = s_varlist (fst r2) /\
  (forall own e, core (with_maxtime i0 m) = Ran own e -> s_ts (fst r1) = s_ts (fst r2)).
Proof. exact (history_independent V zero B X parse core body0). Qed.

(** Deleting every TraceStep assignment from a history changes neither the state (other than
    the TraceStep attribute itself) nor the outcome of any other operation.  By construction:
    the trace branch records into a separate holder which no model function reads. *)
Theorem C17_trace : forall (ops : list (op B)) (a b : @solver V X),
  same_but_trace V X a b ->
  same_but_trace V X (fst (run a ops)) (fst (run b (filter (fun o => negb (is_trace B o)) ops))) /\
  drop_trace_outs B ops (snd (run a ops)) = snd (run b (filter (fun o => negb (is_trace B o)) ops)).
Proof. exact (trace_irrelevant V zero B X parse core). Qed.

End C17.
Print Assumptions C17_reuse.
Print Assumptions C17_reuse_exact.
Print Assumptions C17_resolve.
Print Assumptions C17_history_independent.
Print Assumptions C17_trace.

(** The process-wide object counter: the equations a build ends with do not depend on the
    value the counter had when the build began (placeholders carry IDs, final names do not). *)
Theorem C17_ids : forall id0 fullcode eqs,
  final_equations id0 fullcode eqs = final_equations 0 fullcode eqs.
Proof. exact ids_irrelevant. Qed.
Print Assumptions C17_ids.

(* ------------------------------------------------------------------ *)
(** Concrete instance (non-vacuity and the finding D17): block 1 is [x = y + 1; y = 2;
    MaxTime = 2], block 2 is [a = 3]; series as a fresh solver computes them. *)
Definition ex_parse (b : nat) : result (pinfo nat) :=
  match b with
  | 1 => Ok (mkInfo [] [] [] ["y"; "x"; "t"] 2 1)
  | 2 => Ok (mkInfo [] [] [] ["a"; "t"] 0 2)
  | _ => Err NameError
  end.
Definition ex_core (i : pinfo nat) : core_result nat :=
  match i_body i with
  | 1 => Ran [("t", [0; 1; 2]); ("x", [3; 3; 3]); ("y", [2; 2; 2]); ("k", [0; 1; 2])] None
  | 2 => Ran [("t", [0]); ("a", [3]); ("k", [0])] None
  | _ => Ran [("k", [0])] None
  end.
Definition ex_history : list (op nat) :=
  [SetTrace (Some 1); ParseString 1; SolveEquation; SolveEquation; ParseString 7; ParseString 2; SolveEquation].

Example C17_example_reuse :
  let r := Reuse.run nat 0 nat nat ex_parse ex_core (Reuse.init nat nat 0) ex_history in
  snd r = [Ok tt; Ok tt; Ok tt; Ok tt; Err NameError; Ok tt; Ok tt] /\
  s_ts (fst r) = [("a", [3]); ("t", [0]); ("k", [0])] /\ s_varlist (fst r) = ["a"; "t"].
Proof. vm_compute. repeat split. Qed.
Print Assumptions C17_example_reuse.

(** /repo HEAD: the variable list is filled only when empty, so the first block's variables
    are reported, with a lone 0, next to the second block's (finding D17). *)
Theorem C17_reuse_orig_refuted :
  exists (h : list (op nat)) b2 i2,
    ex_parse b2 = Ok i2 /\
    let st' := fst (Reuse.run_orig nat 0 nat nat ex_parse ex_core (Reuse.init nat nat 0)
                                   (h ++ [ParseString b2; SolveEquation])) in
    List.In "x" (keys (s_ts st')) /\ ~ List.In "x" (vars i2) /\ "x" <> "k" /\
    lookup "x" (s_ts st') = Some [0].
Proof.
  exists [ParseString 1; SolveEquation], 2, (mkInfo [] [] [] ["a"; "t"] 0 2).
  split; [reflexivity|]. vm_compute. repeat split.
  - right; left; reflexivity.
  - intros [H|[H|[]]]; discriminate.
  - discriminate.
Qed.
Print Assumptions C17_reuse_orig_refuted.
